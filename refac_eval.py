#!/usr/bin/env python3
"""Run the checks against behaviour-preserving refactorings written independently (false-alarm trial).
usage: refac_eval.py <group> <n> <dir>   appends a record to /verif/seeded/refactors/results.jsonl"""
import json, os, re, shutil, subprocess, sys, tempfile, time
VERIF = os.path.dirname(os.path.abspath(__file__))
FILE_PROPS = {
    "mingus/core/notes.py": ["C01"], "mingus/core/intervals.py": ["C02", "C03"], "mingus/core/keys.py": ["C04"],
    "mingus/core/scales.py": ["C05"], "mingus/core/chords.py": ["C06", "C07", "C08"], "mingus/core/value.py": ["C09"],
    "mingus/core/meter.py": ["C09"], "mingus/core/progressions.py": ["C08"], "mingus/containers/note.py": ["C10", "C11"],
    "mingus/containers/note_container.py": ["C12", "C11"], "mingus/containers/bar.py": ["C13", "C11"],
    "mingus/containers/track.py": ["C14", "C11"], "mingus/containers/composition.py": ["C14"],
    "mingus/containers/instrument.py": ["C14"], "mingus/midi/midi_track.py": ["C16"], "mingus/midi/midi_file_out.py": ["C16"],
    "mingus/midi/midi_file_in.py": ["C17"], "mingus/midi/sequencer.py": ["C18"], "mingus/midi/sequencer_observer.py": ["C18"],
    "mingus/extra/lilypond.py": ["C19"], "mingus/extra/musicxml.py": ["C19"], "mingus/extra/tunings.py": ["C20"],
    "mingus/extra/tablature.py": ["C20"],
}


def sh(cmd, cwd=None, env=None, timeout=3600):
    p = subprocess.run(cmd, shell=True, cwd=cwd, env=env, capture_output=True, text=True, timeout=timeout)
    return p.returncode, p.stdout + p.stderr


def main():
    group, n, src = sys.argv[1:4]
    patch = os.path.join(src, "refactor%s.diff" % n)
    files = re.findall(r"^\+\+\+ b/(\S+)", open(patch).read(), re.M)
    props = sorted(set(p for f in files for p in FILE_PROPS.get(f, [])))
    tmp = tempfile.mkdtemp(prefix="refac-")
    rec = {"group": group, "n": int(n), "files": files, "checks": {}}
    try:
        mut = os.path.join(tmp, "mut")
        os.makedirs(mut)
        shutil.copytree("/repo/mingus", os.path.join(mut, "mingus"))
        shutil.copytree("/repo/tests", os.path.join(mut, "tests"))
        rc, out = sh("patch -p1 < %s" % patch, cwd=mut)
        rec["patch_applies"] = rc == 0
        rc, out = sh("/venv/bin/python -m pytest -q -p no:cacheprovider tests/unit", cwd=mut, env=dict(os.environ, PYTHONPATH=mut))
        rec["unit_tests"] = out.strip().split("\n")[-1][:100]
        for pid in props:
            t0 = time.time()
            rc, out = sh("./check %s --tier quick" % pid, cwd=VERIF, env=dict(os.environ, VERIF_REPO=mut, VERIF_SEED="1"))
            sh("git checkout evidence/%s.json" % pid, cwd=VERIF)
            rec["checks"][pid] = {"exit": rc, "violations": [l[:300] for l in out.split("\n") if l.startswith("VIOLATION")][:4],
                                  "undecided": [l[:300] for l in out.split("\n") if l.startswith(("UNDECIDED", "CHECKER-ERROR"))][:4],
                                  "s": round(time.time() - t0, 1)}
        dst = os.path.join(VERIF, "seeded", "refactors")
        os.makedirs(dst, exist_ok=True)
        shutil.copy(patch, os.path.join(dst, "%s-%s.diff" % (group, n)))
        with open(os.path.join(dst, "results.jsonl"), "a") as f:
            f.write(json.dumps(rec) + "\n")
        print(group, n, files, {p: c["exit"] for p, c in rec["checks"].items()})
    finally:
        shutil.rmtree(tmp, ignore_errors=True)


if __name__ == "__main__":
    main()
