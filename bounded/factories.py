"""Rebuild repository objects from the field maps of a solver counter-model."""
import importlib


def build(v):
    from bounded.rt import unjson
    modname, _, cls = v["__class__"].rpartition(".")
    klass = getattr(importlib.import_module(modname), cls)
    o = klass.__new__(klass)
    for k, x in (v.get("fields") or {}).items():
        setattr(o, k, unjson(x))
    return o
