"""Run-time evaluation of the sidecar contracts on the REAL functions (CPython).

Used for (a) replaying solver counterexamples, (b) the bounded stand-in layer,
(c) searching a failing input when a counter-model does not reproduce.  The
contract expressions are the very strings pyvc turns into VCs; the spec
vocabulary is contracts/specfuns.py executed natively.
"""
import copy
import importlib
import inspect
import os
import sys

VERIF = os.path.dirname(os.path.dirname(os.path.abspath(__file__)))
REPO = os.environ.get("VERIF_REPO", "/repo")
sys.dont_write_bytecode = True
for p in (REPO, VERIF):
    if p not in sys.path:
        sys.path.insert(0, p)

from contracts import specfuns  # noqa: E402


def load_contracts():
    out, classes = {}, {}
    cdir = os.path.join(VERIF, "contracts")
    for fn in sorted(os.listdir(cdir)):
        if not fn.endswith(".py") or fn in ("__init__.py", "specfuns.py", "dsl.py"):
            continue
        mod = importlib.import_module("contracts." + fn[:-3])
        out.update(getattr(mod, "CONTRACTS", {}))
        classes.update(getattr(mod, "CLASSES", {}))
    return out, classes


CONTRACTS, CLASSES = load_contracts()
SPEC_NS = dict((k, v) for k, v in vars(specfuns).items() if not k.startswith("__"))


def resolve(fq):
    parts = fq.split(".")
    for i in range(len(parts) - 1, 0, -1):
        try:
            mod = importlib.import_module(".".join(parts[:i]))
        except ImportError:
            continue
        o = mod
        for p in parts[i:]:
            if p == "<locals>":
                return None
            o = getattr(o, p)
        return o
    raise KeyError(fq)


def named(x, default):
    if x is None:
        return []
    if isinstance(x, str):
        return [(default, x)]
    return list(x)


def ev(expr, env):
    ns = dict(SPEC_NS)
    ns.update(env)
    return eval(expr, {"__builtins__": __builtins__}, ns)


def split_top(s):
    """split a type list at top-level commas"""
    out, depth, cur = [], 0, ""
    for ch in s:
        if ch in "[(":
            depth += 1
        elif ch in "])":
            depth -= 1
        if ch == "," and depth == 0:
            out.append(cur.strip())
            cur = ""
        else:
            cur += ch
    if cur.strip():
        out.append(cur.strip())
    return out


def type_ok(v, t):
    if isinstance(t, (list, tuple)) and not isinstance(t, str):
        return isinstance(v, list) and len(v) == len(t) and all(type_ok(x, y) for x, y in zip(v, t))
    for a in ([t.strip()] if t.strip()[:1] in "[(" else [x.strip() for x in t.split("|")]):
        if a in ("int", "nat") and isinstance(v, int) and not isinstance(v, bool):
            return True
        if a == "bool" and isinstance(v, bool):
            return True
        if a in ("real", "float") and isinstance(v, (int, float)) and not isinstance(v, bool):
            return True
        if a in ("str", "char") and isinstance(v, str):
            return True
        if a.startswith("="):
            return True
        if a.startswith("bytes") and isinstance(v, (bytes, bytearray)):
            return True
        if a in ("None", "none") and v is None:
            return True
        if a == "False" and v is False:
            return True
        if a == "True" and v is True:
            return True
        if a == "any":
            return True
        if a.startswith("[") and a.endswith("]") and isinstance(v, list):
            inner = split_top(a[1:-1])
            if len(inner) == len(v) and all(type_ok(x, y) for x, y in zip(v, inner)):
                return True
        if a.startswith("(") and a.endswith(")") and isinstance(v, tuple):
            inner = split_top(a[1:-1])
            if len(inner) == len(v) and all(type_ok(x, y) for x, y in zip(v, inner)):
                return True
        if a.startswith("list[") and isinstance(v, list):
            return True
        if a.startswith("periodic[") and isinstance(v, list):
            return True
        if a == "intset" and isinstance(v, (tuple, list, set, frozenset)):
            return True
        if a == "emptydict" and isinstance(v, dict) and not v:
            return True
        if a.startswith("dict[") and isinstance(v, dict):
            return True
        if a == "file" and hasattr(v, "read") and hasattr(v, "data"):
            return True
        if a in CLASSES:
            modname, _, cls = CLASSES[a]["class"].rpartition(".")
            if isinstance(v, getattr(importlib.import_module(modname), cls)):
                return True
    return False


def short(v, n=200):
    r = repr(v)
    return r if len(r) <= n else r[:n] + "..."


class CallTimeout(BaseException):
    pass


CALL_TIMEOUT_S = float(os.environ.get("VERIF_CALL_TIMEOUT", "5"))


def _on_alarm(signum, frame):
    raise CallTimeout()


def call_with_timeout(fn, args, kwargs):
    import signal
    old = signal.signal(signal.SIGALRM, _on_alarm)
    signal.setitimer(signal.ITIMER_REAL, CALL_TIMEOUT_S)
    try:
        return fn(*args, **kwargs)
    finally:
        signal.setitimer(signal.ITIMER_REAL, 0)
        signal.signal(signal.SIGALRM, old)


def _uninstall(env, installed):
    for x in installed:
        if isinstance(x, tuple):
            setattr(x[0], x[1], x[2])
        else:
            delattr(env["self"], x)


def _same_state(a, b, depth=0):
    """Structural equality for the frame check: objects whose class has no __eq__ of its own (a deep copy of them is
    never == the original) are compared attribute by attribute."""
    if depth > 8 or type(a) is not type(b):
        return False
    if isinstance(a, (list, tuple)):
        return len(a) == len(b) and all(_same_state(x, y, depth + 1) for x, y in zip(a, b))
    if isinstance(a, dict):
        return a.keys() == b.keys() and all(_same_state(a[k], b[k], depth + 1) for k in a)
    if type(a).__eq__ is object.__eq__ and hasattr(a, "__dict__"):
        return _same_state(vars(a), vars(b), depth + 1)
    try:
        return bool(a == b)
    except Exception:
        return False


def check_call(fq, args, kwargs=None, contract=None, fn=None):
    """Run the real function on args under its contract.

    Returns dict(status='ok'|'skip'|'fail', failures=[(clause, message)], observed=...).
    """
    c = contract or CONTRACTS[fq]
    fn = fn or resolve(fq)
    kwargs = kwargs or {}
    # dynamic dispatch: what a caller runs on this receiver is the method its CLASS resolves the name to.  When a subclass
    # (now) overrides the contracted method, the contract is evaluated on the override: the base method alone is not
    # what `a == b` or `obj.method()` executes any more
    if args and "." in fq and not isinstance(args[0], type) and inspect.isfunction(fn):
        owner = fq.rsplit(".", 2)[-2]
        dyn = getattr(type(args[0]), fn.__name__, None)
        if dyn is not None and inspect.isfunction(dyn) and dyn is not fn and \
                any(k.__name__ == owner and k.__dict__.get(fn.__name__) is fn for k in type(args[0]).__mro__):
            fn = dyn
    try:
        ba = inspect.signature(fn).bind(*args, **kwargs)
    except TypeError as e:
        return {"status": "skip", "why": "arguments do not bind: %s" % e}
    explicit = set(ba.arguments)      # a typing that leaves a parameter out is about calls that leave the argument out
    ba.apply_defaults()
    env = dict(ba.arguments)
    ptypes = c.get("params") or {}
    bad = [(p, t) for p, t in ptypes.items() if p in env and not type_ok(env[p], t)]
    if bad and c.get("variants"):
        for var in c["variants"]:
            vt = var.get("params") or {}
            if all(p not in env or type_ok(env[p], t) for p, t in vt.items()) and (not vt or explicit <= set(vt)):
                bad = []
                c = dict(c)
                c.pop("variants")
                c.update(var)     # the typing variant's own clauses apply
                break
    for p, t in bad:
        return {"status": "skip", "why": "argument %s not of type %s" % (p, t)}
    def _pre_ok(cc):
        try:
            for nm, pre in named(cc.get("requires"), "pre"):
                if not ev(pre, env):
                    return "precondition %s false" % nm
        except Exception as e:  # a precondition that cannot be evaluated = out of domain
            return "precondition not evaluable: %r" % (e,)
        return None
    why = _pre_ok(c)
    if why is not None and c.get("variants"):
        # variants may also differ by precondition (same argument kinds, another state of the receiver)
        for var in c["variants"]:
            vt = var.get("params") or {}
            if all(p not in env or type_ok(env[p], t) for p, t in vt.items()) and (not vt or explicit <= set(vt)):
                cc = dict(c)
                cc.pop("variants")
                cc.update(var)
                if _pre_ok(cc) is None:
                    c, why = cc, None
                    break
    if why is not None:
        return {"status": "skip", "why": why}
    for nm, expr in (c.get("old") or {}).items():
        # pre-state values are copies, except names the contract uses for object IDENTITY (same_object(..., old_x))
        env[nm] = ev(expr, env) if nm in (c.get("old_by_reference") or ()) else copy.deepcopy(ev(expr, env))
    allowed = set(c.get("modifies") or [])
    before = {}
    for p, v in ba.arguments.items():
        if isinstance(v, (list, dict, set)) and p not in allowed:
            before[p] = copy.deepcopy(v)
    failures = []
    raised = None
    result = None
    # raises-conditions and case guards are about the PRE-state
    raises = c.get("raises") or {}
    pre_raise = {}
    for k, cond in raises.items():
        try:
            pre_raise[k] = bool(ev(cond, env))
        except Exception:
            pre_raise[k] = False
    pre_case = None
    if c.get("cases"):
        for i, case in enumerate(c["cases"]):
            try:
                if case.get("when") is None or ev(case["when"], env):
                    pre_case = i
                    break
            except Exception:
                continue
    del specfuns._TRACE[:]
    specfuns._TRACE_DEPTH[0] = 0
    installed = []
    if c.get("callee_events") and "self" in env:
        # event view: the callees named by the contract record (name, arguments) and then run as usual
        depth = specfuns._TRACE_DEPTH

        def _rec(name, orig):
            def w(*a, **k):
                specfuns._trace_add((name,) + tuple(a) + tuple(k.values()))   # only calls made by the function itself
                depth[0] += 1
                try:
                    return orig(*a, **k)
                finally:
                    depth[0] -= 1
            return w
        for cfq, evn in c["callee_events"].items():
            mname = cfq.rsplit(".", 1)[-1]
            with_recv = isinstance(evn, dict) and evn.get("with_receiver")
            evn = evn["name"] if isinstance(evn, dict) else evn
            if with_recv:
                # a method of OTHER objects (the entries' containers ...): patched on its class for the duration of
                # the call, the receiver is part of the record
                cls = resolve(cfq.rsplit(".", 1)[0])
                orig = cls.__dict__[mname]

                def _mk(name, orig):
                    def w(self_, *a, **k):
                        specfuns._trace_add((name, self_) + tuple(a) + tuple(k.values()))
                        depth[0] += 1
                        try:
                            return orig(self_, *a, **k)
                        finally:
                            depth[0] -= 1
                    return w
                setattr(cls, mname, _mk(evn, orig))
                installed.append((cls, mname, orig))
            else:
                setattr(env["self"], mname, _rec(evn, getattr(env["self"], mname)))
                installed.append(mname)
    try:
        result = call_with_timeout(fn, ba.args, ba.kwargs)
    except CallTimeout:
        _uninstall(env, installed)
        installed = []
        return {"status": "fail", "observed": "no return within %gs" % CALL_TIMEOUT_S, "timeout": True,
                "failures": [("termination", "the call did not return within %gs (non-termination?)" % CALL_TIMEOUT_S)]}
    except RecursionError as e:
        raised = e
    except Exception as e:  # noqa
        raised = e
    _uninstall(env, installed)
    if raised is not None:
        name = type(raised).__name__
        full = type(raised).__module__ + "." + name
        key = None
        for k in raises:
            if k == name or k == full:
                key = k
        if key is None:
            failures.append(("raises/no-unexpected-exception", "%s: %s" % (name, raised)))
        else:
            ok = pre_raise.get(key, False)
            if not ok:
                failures.append(("raises/%s-only-when-specified" % key, "%s raised: %s" % (name, raised)))
        observed = "raised %s" % name
    else:
        observed = short(result)
        for k, cond in raises.items():
            must = pre_raise.get(k, False)
            if must:
                failures.append(("raises/%s-not-missed" % k, "returned %s instead of raising %s" % (short(result), k)))
        if not failures:
            env["result"] = result
            cases = c.get("cases")
            sel = c
            tag = "post"
            if cases:
                sel = None
                if pre_case is not None:
                    sel = cases[pre_case]
                    tag = "post/case%d" % pre_case
                if sel is None:
                    failures.append(("post/cases-complete", "no case applies"))
            if sel is not None:
                rt = sel.get("returns", c.get("returns", "None"))
                if not (type_ok(result, rt) if rt != "None" else result is None):
                    failures.append((tag + "/result-type", "returned %s, declared %s" % (short(result), rt)))
                else:
                    posts = named(sel.get("ensures"), "ensures")
                    if sel.get("emits") is not None:
                        posts = posts + [("emits-exactly-these-events-in-this-order", "trace_events() == (%s)" % sel["emits"])]
                    for nm, e in posts:
                        try:
                            ok = ev(e, env)
                        except Exception as ex:
                            ok = False
                            failures.append(("%s/%s" % (tag, nm), "not evaluable on result %s: %r" % (short(result), ex)))
                            continue
                        if not ok:
                            failures.append(("%s/%s" % (tag, nm), "result %s" % short(result)))
    if not failures and raised is None and (c.get("pure") or not c.get("modifies")) and not c.get("callee_events") \
            and not c.get("trace") and not c.get("emits") and not any(cs.get("emits") for cs in (c.get("cases") or [])):
        # an observer (empty frame): asked again with the same arguments it must answer the same -- a memo, a position
        # remembered on the object or a list reversed in place shows here
        try:
            again = call_with_timeout(fn, ba.args, ba.kwargs)
            same = (again == result) and type(again) is type(result)
        except Exception as ex:  # noqa
            again, same = "raised %r" % (ex,), False
        fresh_claimed = any("is_fresh(result" in e for _n, e in named(c.get("ensures"), "ensures"))
        if not same:
            failures.append(("frame/same-arguments-same-result", "first call returned %s, the same call again %s"
                             % (short(result), short(again))))
        elif fresh_claimed and again is result and not isinstance(result, (int, float, str, bytes, bool, tuple, type(None))):
            failures.append(("post/fresh-result", "the contract promises a result allocated by the call, but two calls "
                                                  "returned the same object %s" % short(result)))
        else:
            # ... and however the arguments are passed (a wrapper that keys a memo on the positional tuple shows here)
            try:
                kw = dict(ba.arguments)
                params = inspect.signature(fn).parameters
                if all(p.kind in (p.POSITIONAL_OR_KEYWORD, p.KEYWORD_ONLY) for p in params.values()) and "self" not in kw:
                    bykw = call_with_timeout(fn, (), kw)
                    if not ((bykw == result) and type(bykw) is type(result)):
                        failures.append(("frame/same-arguments-same-result", "positional call returned %s, the same "
                                         "arguments by keyword %s" % (short(result), short(bykw))))
            except Exception as ex:  # noqa
                failures.append(("frame/same-arguments-same-result", "the same arguments by keyword raised %r" % (ex,)))
    for p, v in before.items():
        if ba.arguments[p] != v and not _same_state(ba.arguments[p], v):
            failures.append(("frame/writes-outside-modifies", "argument %s changed from %s to %s"
                             % (p, short(v), short(ba.arguments[p]))))
    return {"status": "fail" if failures else "ok", "failures": failures, "observed": observed}


def jsonable(v):
    if v is None or isinstance(v, (bool, int, float, str)):
        return v
    if isinstance(v, (bytes, bytearray)):
        return {"__bytes__": list(v)}
    if isinstance(v, tuple):
        return {"__tuple__": [jsonable(x) for x in v]}
    if isinstance(v, list):
        return [jsonable(x) for x in v]
    if isinstance(v, dict):
        return {"__dict__": [[jsonable(k), jsonable(x)] for k, x in v.items()]}
    return {"__repr__": repr(v)}


def unjson(v):
    if isinstance(v, list):
        return [unjson(x) for x in v]
    if isinstance(v, dict):
        if "__bytes__" in v:
            return bytes(v["__bytes__"])
        if "__tuple__" in v:
            return tuple(unjson(x) for x in v["__tuple__"])
        if "__dict__" in v:
            return dict((unjson(k), unjson(x)) for k, x in v["__dict__"])
        if "__class__" in v:
            from bounded import factories
            return factories.build(v)
        if "__repr__" in v:
            raise ValueError("cannot rebuild %s" % v["__repr__"])
    return v
