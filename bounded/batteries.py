"""Input batteries for the run-time contract layer (bounded stand-ins, replay search).

Every battery is an *enumeration* up to a stated bound wherever the domain is a
product of small finite sets; the bound is reported in the evidence.  Argument
tuples are positional.
"""
import itertools
import random

LETTERS = "CDEFGAB"
REG = {}


def battery(name):
    def d(f):
        REG[name] = f
        return f
    return d


def acc_strings(maxlen):
    for n in range(maxlen + 1):
        for t in itertools.product("#b", repeat=n):
            yield "".join(t)


def all_names(maxlen):
    return [l + a for l in LETTERS for a in acc_strings(maxlen)]


def canon_names(maxacc):
    out = []
    for l in LETTERS:
        out.append(l)
        for k in range(1, maxacc + 1):
            out.append(l + "#" * k)
            out.append(l + "b" * k)
    return out


GARBAGE = ["H", "c", "h", "C-", "Cx", "C#x", "Cb!", "#", "b", "##", "bb", "1", " C", "C ", "CC", "C#C", "Cbb#x",
           "c#", "é", "C♯", "0", "-", "C-4", "Do", "x" * 5, "B" * 3, "Ab#b#b#x"]


def bound(tier, q, t):
    return q if tier == "quick" else t


@battery("names")
def b_names(tier, rnd):
    n = bound(tier, 6, 9)
    return {"rule": "7 letters x every '#'/'b' string of length <= %d (all orderings)" % n,
            "exhaustive_upto": n, "cases": [(x,) for x in all_names(n)]}


@battery("strings")
def b_strings(tier, rnd):
    n = bound(tier, 6, 9)
    cases = [(x,) for x in all_names(n)] + [(g,) for g in GARBAGE]
    # garbage mutations of valid names: one foreign character at every position
    for x in all_names(3):
        for pos in range(len(x) + 1):
            for ch in "xB-1 ":
                cases.append((x[:pos] + ch + x[pos:],))
    return {"rule": "names as in 'names' (length <= %d) + %d malformed strings + every single-character "
                    "insertion of x/B/-/1/space into names of <= 3 accidentals" % (n, len(GARBAGE)),
            "exhaustive_upto": n, "cases": cases}


@battery("name_pairs")
def b_name_pairs(tier, rnd):
    n = bound(tier, 3, 4)
    ns = all_names(n)
    return {"rule": "all ordered pairs of names with <= %d accidentals (all orderings)" % n,
            "exhaustive_upto": n, "cases": [(a, b) for a in ns for b in ns]}


@battery("int_style")
def b_int_style(tier, rnd):
    ints = list(range(-30, 43)) + [100, -100, 10 ** 9, -10 ** 9]
    styles = ["#", "b", "", "x", "##", "bb", "B", "#b", "♯"]
    return {"rule": "integers -30..42 and 4 large ones x 9 accidental styles", "cases":
            [(i, s) for i in ints for s in styles]}
