"""Input batteries for the run-time contract layer (bounded stand-ins, replay search).

Every battery is an *enumeration* up to a stated bound wherever the domain is a
product of small finite sets; the bound is reported in the evidence.  Argument
tuples are positional.
"""
import itertools
import random

LETTERS = "CDEFGAB"
REG = {}


def battery(name):
    def d(f):
        REG[name] = f
        return f
    return d


def acc_strings(maxlen):
    for n in range(maxlen + 1):
        for t in itertools.product("#b", repeat=n):
            yield "".join(t)


def all_names(maxlen):
    return [l + a for l in LETTERS for a in acc_strings(maxlen)]


def canon_names(maxacc):
    out = []
    for l in LETTERS:
        out.append(l)
        for k in range(1, maxacc + 1):
            out.append(l + "#" * k)
            out.append(l + "b" * k)
    return out


GARBAGE = ["H", "c", "h", "C-", "Cx", "C#x", "Cb!", "#", "b", "##", "bb", "1", " C", "C ", "CC", "C#C", "Cbb#x",
           "c#", "é", "C♯", "0", "-", "C-4", "Do", "x" * 5, "B" * 3, "Ab#b#b#x",
           # characters that mean something to a formatting layer an error message may pass through
           "C%", "C%s", "%", "C%d", "100%", "C%23", "C{}", "{0}", "C\\", "C'", 'C"', "C\x00#"]


def bound(tier, q, t):
    return q if tier == "quick" else t


def long_names(tier):
    """names with many accidentals: homogeneous runs up to 40 (thorough 120) and a few mixed long ones"""
    top = 40 if tier == "quick" else 120
    out = []
    for l in LETTERS:
        for k in list(range(7, 27)) + [30, 36, top]:
            out.append(l + "#" * k)
            out.append(l + "b" * k)
        out.append(l + "#b" * 9)
        out.append(l + "b" * 14 + "#" * 3)
        out.append(l + "#" * 25 + "b" * 2)
    return out


@battery("names")
def b_names(tier, rnd):
    n = bound(tier, 6, 9)
    return {"rule": "7 letters x every '#'/'b' string of length <= %d (all orderings) + long names (runs of 7..26, 30, 36, "
                    "40 equal accidentals and mixed long ones)" % n,
            "exhaustive_upto": n, "cases": [(x,) for x in all_names(n) + long_names(tier)]}


@battery("strings")
def b_strings(tier, rnd):
    n = bound(tier, 6, 9)
    cases = [(x,) for x in all_names(n) + long_names(tier)] + [(g,) for g in GARBAGE]
    # every name with <= 2 accidentals wrapped in / followed by characters that text-level shortcuts mishandle
    for x in all_names(2):
        for suf in ("\n", " ", "\t", "\r\n", "\x00", "\u266f", "B", "-4", "#\n"):
            cases.append((x + suf,))
        for pre in ("\n", " ", "\t"):
            cases.append((pre + x,))
    # garbage mutations of valid names: one foreign character at every position
    for x in all_names(3):
        for pos in range(len(x) + 1):
            for ch in "xB-1 ":
                cases.append((x[:pos] + ch + x[pos:],))
    # every string up to length 4 (5 in the thorough tier) over a small alphabet: all orders of letters and accidentals
    import itertools
    for k in range(1, bound(tier, 4, 5) + 1):
        for t in itertools.product("CGb#x-", repeat=k):
            cases.append(("".join(t),))
    return {"rule": "every string of length <= 4 (thorough: 5) over {C,G,b,#,x,-}; "
                    "names as in 'names' (length <= %d, + long ones) + %d malformed strings + every single-character "
                    "insertion of x/B/-/1/space into names of <= 3 accidentals + names of <= 2 accidentals followed or "
                    "preceded by newline/space/tab/NUL/non-ASCII/extra letters" % (n, len(GARBAGE)),
            "exhaustive_upto": n, "cases": cases}


@battery("name_pairs")
def b_name_pairs(tier, rnd):
    n = bound(tier, 3, 4)
    ns = all_names(n)
    return {"rule": "all ordered pairs of names with <= %d accidentals (all orderings)" % n,
            "exhaustive_upto": n, "cases": [(a, b) for a in ns for b in ns]}


@battery("int_style")
def b_int_style(tier, rnd):
    ints = list(range(-30, 43)) + [100, -100, 10 ** 9, -10 ** 9]
    styles = ["#", "b", "", "x", "##", "bb", "B", "#b", "♯"]
    return {"rule": "integers -30..42 and 4 large ones x 9 accidental styles", "cases":
            [(i, s) for i in ints for s in styles]}


@battery("name_pairs_flag")
def b_name_pairs_flag(tier, rnd):
    n = bound(tier, 2, 3)
    ns = all_names(n)
    return {"rule": "all ordered pairs of names with <= %d accidentals x {True, False}" % n,
            "exhaustive_upto": n, "cases": [(a, b, f) for a in ns for b in ns for f in (True, False)]}


KEYS30 = ['Cb', 'ab', 'Gb', 'eb', 'Db', 'bb', 'Ab', 'f', 'Eb', 'c', 'Bb', 'g', 'F', 'd', 'C', 'a', 'G', 'e',
          'D', 'b', 'A', 'f#', 'E', 'c#', 'B', 'g#', 'F#', 'd#', 'C#', 'a#']


@battery("keys30")
def b_keys30(tier, rnd):
    return {"rule": "the 30 keys", "exhaustive_upto": 30, "cases": [(k,) for k in KEYS30]}


@battery("key_note_step")
def b_key_note_step(tier, rnd):
    ns = all_names(2) + ["H", "x", "c"]
    return {"rule": "30 keys x names with <= 2 accidentals (+3 malformed) x steps -8..14",
            "cases": [(k, n, s) for k in KEYS30 for n in ns for s in range(-8, 15)]}


@battery("note_key")
def b_note_key(tier, rnd):
    ns = all_names(2) + ["H", "x", "c"]
    return {"rule": "names with <= 2 accidentals (+3 malformed) x 30 keys",
            "cases": [(n, k) for k in KEYS30 for n in ns]}


@battery("aug_dim")
def b_aug_dim(tier, rnd):
    n = bound(tier, 4, 6)
    return {"rule": "names with <= %d accidentals x 7 natural letters x targets 0..11" % n,
            "exhaustive_upto": n,
            "cases": [(a, l, t) for a in all_names(n) for l in LETTERS for t in range(12)]}


@battery("key_strings")
def b_key_strings(tier, rnd):
    extra = ["", "H", "C##", "cb", "Fb", "fb", "B#", "e#", "C ", " C", "c #", "CB", "Ab ", "AB", "ab#", "G-", "1",
             "Cmaj", "c minor", "gb", "db", "a b", "E#", "Dbb"] + all_names(2) + [n.lower() for n in all_names(2)]
    seen, cases = set(), []
    for k in KEYS30 + extra:
        if k not in seen:
            seen.add(k)
            cases.append((k,))
    return {"rule": "the 30 keys + every name with <= 2 accidentals in upper and lower case + 24 malformed strings",
            "cases": cases}


@battery("small_ints")
def b_small_ints(tier, rnd):
    return {"rule": "integers -40..40 and +-10^9", "cases": [(i,) for i in list(range(-40, 41)) + [10 ** 9, -10 ** 9]]}


@battery("major15")
def b_major15(tier, rnd):
    return {"rule": "the 15 major keys", "exhaustive_upto": 15, "cases": [(k,) for k in KEYS30[0::2]]}


@battery("key_init")
def b_key_init(tier, rnd):
    from mingus.core.keys import Key
    ks = [c[0] for c in b_key_strings(tier, rnd)["cases"] if c[0]]
    return {"rule": "Key.__init__ on a blank instance x (30 keys + names in both cases + malformed strings)",
            "cases": [(Key.__new__(Key), k) for k in ks]}


@battery("unison_notes")
def b_unison_notes(tier, rnd):
    from contracts.core_keys import KEYS30
    texts = list(KEYS30) + all_names(2) + ["H", "c", "C-4", "#C", " C", "Cm", "?", "c##"]
    return {"rule": "30 keys + every name with <= 2 accidentals + 8 malformed texts, key argument omitted and None",
            "cases": [(t,) for t in texts] + [(t, None) for t in texts]}


@battery("lists")
def b_lists(tier, rnd):
    cases = [([],), (["C"],), (["C", "E"],), (["C", "E", "G"],), ([1, 2, 3, 4, 5],), (["a"] * 4 + ["b"],)]
    for n in range(0, 9):
        cases.append(([rnd.choice(all_names(1)) for _ in range(n)],))
    return {"rule": "lists of length 0..8 of names, ints and repeated elements", "cases": cases}


def interval_shorthands(maxacc):
    out = []
    for d in "1234567":
        for k in range(0, maxacc + 1):
            out.append("#" * k + d)
            if k:
                out.append("b" * k + d)
    return out


@battery("name_shorthand_dir")
def b_name_shorthand_dir(tier, rnd):
    n = bound(tier, 3, 4)
    shs = interval_shorthands(3) + ["#b3", "b#5", "b#b2", "8", "0", "x", "#", "b", "#x", "bb9", "33", "3#"]
    names = all_names(n) + ["H", "c", "Cx"]
    return {"rule": "names with <= %d accidentals (+3 malformed) x shorthands (<= 3 homogeneous accidentals + degree "
                    "1..7, mixed prefixes, bad degrees) x {up, down}" % n,
            "cases": [(a, s, u) for a in names for s in shs for u in (True, False)]}


@battery("canon_name_shorthand")
def b_canon_name_shorthand(tier, rnd):
    return {"rule": "35 canonical names (<= 2 accidentals) x 35 shorthands (<= 2 accidentals + degree)",
            "exhaustive_upto": 2, "cases": [(a, s) for a in canon_names(2) for s in interval_shorthands(2)]}


@battery("canon_pairs")
def b_canon_pairs(tier, rnd):
    ns = canon_names(2)
    return {"rule": "all ordered pairs of the 35 canonical names (<= 2 accidentals)", "exhaustive_upto": 2,
            "cases": [(a, b) for a in ns for b in ns]}


@battery("names4")
def b_names4(tier, rnd):
    n = bound(tier, 4, 6)
    return {"rule": "7 letters x every '#'/'b' string of length <= %d (all orderings)" % n,
            "exhaustive_upto": n, "cases": [(x,) for x in all_names(n)]}


@battery("unit")
def b_unit(tier, rnd):
    return {"rule": "the single call with no arguments", "cases": [()]}


def _shorthands():
    import sys
    from contracts.specfuns import SHORTHAND_STEPS
    return sorted(SHORTHAND_STEPS)


@battery("shorthand_root")
def b_shorthand_root(tier, rnd):
    n = bound(tier, 2, 3)
    return {"rule": "every chord shorthand of the spec vocabulary x every name with <= %d accidentals" % n,
            "exhaustive_upto": n, "cases": [(s, r) for s in _shorthands() for r in all_names(n)]}


@battery("shorthand_pairs_root")
def b_shorthand_pairs_root(tier, rnd):
    shs = _shorthands()
    return {"rule": "all ordered pairs of chord shorthands x 35 canonical roots",
            "cases": [(a, b, r) for a in shs for b in shs for r in canon_names(2)]}


@battery("chord_shorthand_strings")
def b_chord_shorthand_strings(tier, rnd):
    shs = _shorthands()
    cases = []
    roots = canon_names(2) + ["C#b", "Eb#", "F###", "Gbbb"]
    for r in roots:
        for s in shs:
            cases.append((r + s,))
    # alias spellings
    def variants(s):
        out = set()
        for a in ("min", "mi", "-"):
            if "m" in s:
                out.add(s.replace("m", a))
        for a in ("maj", "ma"):
            if "M" in s:
                out.add(s.replace("M", a))
        return out
    for r in ("C", "F#", "Bb", "Abb", "E##"):
        for s in shs:
            for v in variants(s):
                cases.append((r + v,))
    # slash chords: every suffix x basses (valid and invalid)
    basses = canon_names(1) + ["C##", "Dbb", "H", "x", "c", "1", "Gx"]
    for r in ("C", "Eb", "F#"):
        for s in shs:
            for b in basses:
                cases.append((r + s + "/" + b,))
    # polychords
    small = ["", "m", "7", "M7", "dim", "sus4", "m7b5", "6/9", "m/M7", "9", "5", "13"]
    for r1 in ("C", "Eb", "F#", "Bbb"):
        for s1 in small:
            for r2 in ("C", "G", "Db", "A#"):
                for s2 in small:
                    cases.append((r1 + s1 + "|" + r2 + s2,))
    cases.append(("C|G|D",))
    cases.append(("Am|C|Em7",))
    # special and malformed
    for x in ["NC", "N.C.", "H", "H7", "c", "cm", "1", "x7", " C", "Cxyz", "Cm8", "CM77", "Csus5", "C7b55", "Cadd2",
              "Cdim9", "C7#", "Cb5", "C#m#", "C/", "C|", "CmM", "Cmajor", "Cminor", "Cmaj", "Cmin", "C-", "C-7", "Cma7",
              "Cmi7", "Cmin7b5", "Cm7-5", "C7/H", "Cxx/E", "Cxx/H", "Cxx|G", "C|Gxx", "C|H"]:
        cases.append((x,))
    cases.append((["C", "Am7", "G7/B", "NC"],))
    cases.append(([],))
    cases.append((["C", "Hm"],))
    cases.append((["Cxx"],))
    return {"rule": "39 roots x every shorthand; alias spellings (min/mi/-/maj/ma) of every shorthand on 5 roots; "
                    "3 roots x every shorthand x 28 basses (valid/invalid); 48x48 polychords; NC; lists; 38 malformed",
            "cases": cases}


# ---------------------------------------------------------------- scales
def _scale_objects(cls, tier):
    from mingus.core import scales
    from contracts.core_scales import KEY_TONICS_MAJOR, KEY_TONICS_MINOR
    K = getattr(scales, cls)
    octs = (1, 2, 3) if tier == "quick" else (1, 2, 3, 5, 8)
    out = []
    if cls == "Chromatic":
        for k in KEYS30:
            for n in octs:
                out.append(K(k, n))
        return out
    if cls == "Diatonic":
        import itertools
        for t in canon_names(2):
            for r in range(0, 4):
                for sem in itertools.combinations(range(1, 8), r):
                    out.append(K(t, sem, 2))
        return out
    if cls in ("Major", "HarmonicMajor"):
        tonics = KEY_TONICS_MAJOR
    elif cls in ("NaturalMinor", "HarmonicMinor", "MelodicMinor", "Bachian", "MinorNeapolitan"):
        tonics = KEY_TONICS_MINOR
    else:
        tonics = all_names(3 if tier == "quick" else 4)
    for t in tonics:
        for n in octs:
            out.append(K(t, n))
    return out


def get(name):
    if name in REG:
        return REG[name]
    if name.startswith("scale:"):
        cls = name.split(":", 1)[1]

        def f(tier, rnd):
            return {"rule": "instances of %s on every tonic valid for it (any-tonic classes: all names with <= 3 "
                            "accidentals) x octave counts" % cls,
                    "cases": [(o,) for o in _scale_objects(cls, tier)]}
        return f
    raise KeyError(name)


@battery("scale_ctor")
def b_scale_ctor(tier, rnd):
    from contracts.core_scales import KEY_TONICS_MAJOR, KEY_TONICS_MINOR, PATTERN
    cases = []
    for cls in PATTERN:
        if cls in ("MelodicMinor", "MinorNeapolitan", "Chromatic"):
            continue
        if cls in ("Major", "HarmonicMajor"):
            tonics = KEY_TONICS_MAJOR
        elif cls in ("NaturalMinor", "HarmonicMinor", "Bachian"):
            tonics = KEY_TONICS_MINOR
        else:
            tonics = canon_names(2)
        for t in tonics:
            for n in (1, 2, 3):
                cases.append((cls, t, n))
    return {"rule": "14 reversible classes x valid tonics (any-tonic classes: 35 canonical names) x octaves 1..3",
            "cases": cases}


@battery("scale_ctor_k")
def b_scale_ctor_k(tier, rnd):
    from contracts.core_scales import KEY_TONICS_MAJOR, KEY_TONICS_MINOR, PATTERN
    cases = []
    for cls in PATTERN:
        if cls == "Chromatic":
            continue
        if cls in ("Major", "HarmonicMajor"):
            tonics = KEY_TONICS_MAJOR
        elif cls in ("NaturalMinor", "HarmonicMinor", "Bachian", "MelodicMinor", "MinorNeapolitan"):
            tonics = KEY_TONICS_MINOR
        else:
            tonics = canon_names(1)
        for t in tonics:
            for n in (1, 2):
                for k in range(1, len(PATTERN[cls]) * n + 1):
                    cases.append((cls, t, n, k))
    return {"rule": "16 classes x valid tonics x octaves 1..2 x every degree", "cases": cases}


@battery("note_sets")
def b_note_sets(tier, rnd):
    import itertools
    from contracts.specfuns import scale_sets, key_of_signature
    single = canon_names(1)
    cases = [([],)]
    for r in (1, 2) if tier == "quick" else (1, 2, 3):
        for c in itertools.combinations(single, r):
            cases.append((list(c),))
    # every scale's own ascending / descending set, and those sets minus one note, plus one foreign note
    for n in range(-7, 8):
        for name, (asc, desc) in sorted(scale_sets(key_of_signature(n, False), key_of_signature(n, True)).items()):
            for st in (asc, desc):
                l = sorted(st)
                cases.append((l,))
                for i in range(len(l)):
                    cases.append((l[:i] + l[i + 1:],))
                cases.append((l + [rnd.choice(single)],))
    for _ in range(300 if tier == "quick" else 3000):
        k = rnd.randint(3, 6)
        cases.append((rnd.sample(canon_names(2), k),))
    cases.append((["A", "Bb", "E", "F#", "G"],))
    return {"rule": "all subsets of size <= 2 (thorough: 3) of the 21 names with <= 1 accidental; every scale's own "
                    "ascending/descending note set, each minus one note and plus one foreign note (15 key pairs x 7 "
                    "classes); seeded random sets of 3-6 names with <= 2 accidentals", "cases": cases}


NUMBERS = [0, 1, 2, 3, 4, 5, 6, 7, 8, 12, 16, 24, 32, 63, 64, 65, 128, 256, 1024, 2 ** 40, 2 ** 40 + 1, 2 ** 2000,
           2 ** 2000 + 2, 3 * 2 ** 70, -1, -2, -4, -8, -3,
           0.5, 0.25, 1.0, 2.0, 4.0, 8.0, 3.5, 1.5, 2.5, 6.0, 0.1, -0.5, -4.0, 1e300, 1e-300, float("inf"),
           float("-inf"), float("nan"), 4.000001, 3.999999, 16.0, 2.0 ** 60, True, False]
# integers that are NOT powers of two but round to one as a float (and their neighbours that are)
NUMBERS += [2 ** k + d for k in (52, 53, 54, 60, 63, 64, 100, 1023, 1024, 1025) for d in (-1, 0, 1)] + \
           [2 ** 64 + 2 ** 10, 3 * 2 ** 1023, 2 ** 53 + 2, -(2 ** 53) - 1, 10 ** 30, 2.0 ** 53, 2.0 ** 1023]


@battery("numbers")
def b_numbers(tier, rnd):
    return {"rule": "ints incl. powers of two up to 2^2000 and neighbours, negatives, zero; floats incl. fractions, "
                    "inf, nan, tiny/huge, near-misses; bools", "cases": [(x,) for x in NUMBERS]}


@battery("meters")
def b_meters(tier, rnd):
    counts = list(range(-3, 14)) + [15, 18, 21, 100, 2 ** 70]
    return {"rule": "counts -3..13 and a few larger x the 'numbers' battery as beat unit",
            "cases": [((c, u),) for c in counts for u in NUMBERS]}


VBASES = [0.25, 0.5, 1, 2, 4, 8, 16, 32, 64, 128]


def _vocab():
    from mingus.core import value as V
    out = []
    for b in VBASES:
        for n in range(5):
            out.append(V.dots(b, n))
        out += [V.triplet(b), V.quintuplet(b), V.septuplet(b)]
    return out


@battery("value_one")
def b_value_one(tier, rnd):
    return {"rule": "the constructed vocabulary (10 bases x dots 0..4, triplet, quintuplet, septuplet) + odd values",
            "cases": [(v,) for v in _vocab() + [3, 5, 7, 0.1, 1000.0, 1e-9]]}


@battery("value_flag")
def b_value_flag(tier, rnd):
    return {"rule": "vocabulary x {True, False}", "cases": [(v, f) for v in _vocab() for f in (True, False)]}


@battery("value_ratio")
def b_value_ratio(tier, rnd):
    return {"rule": "10 bases x ratios a:b for a,b in 1..9", "cases":
            [(v, a, b) for v in VBASES for a in range(1, 10) for b in range(1, 10)]}


@battery("value_dots")
def b_value_dots(tier, rnd):
    return {"rule": "10 bases (+ triplets) x dots 0..4", "cases": [(v, n) for v in VBASES + [3, 6, 12] for n in range(5)]}


@battery("value_pairs")
def b_value_pairs(tier, rnd):
    vs = _vocab()
    return {"rule": "all ordered pairs of the constructed vocabulary", "cases": [(a, b) for a in vs for b in vs]}


@battery("value_pairs_pos")
def b_value_pairs_pos(tier, rnd):
    return b_value_pairs(tier, rnd)


@battery("value_near")
def b_value_near(tier, rnd):
    cases = []
    for b in VBASES:
        for x in (b, b / 1.5, b * 3 / 2.0, b * 5 / 4.0, b * 7 / 4.0):
            for f in (0.99, 0.9901, 0.995, 0.999, 1.0, 1.001, 1.005, 1.0099, 1.01):
                cases.append((x * f,))
    return {"rule": "undotted, single-dotted and tuplet (3:2, 5:4, 7:4) values of the 10 bases x 9 perturbation factors within +-1%",
            "cases": cases}


@battery("base_dots")
def b_base_dots(tier, rnd):
    return {"rule": "10 bases x dots 0..4", "exhaustive_upto": 50, "cases": [(b, n) for b in VBASES for n in range(5)]}


@battery("base_kind")
def b_base_kind(tier, rnd):
    return {"rule": "10 bases x {3, 5, 7}", "exhaustive_upto": 30, "cases": [(b, k) for b in VBASES for k in (3, 5, 7)]}


# ---------------------------------------------------------------- Note objects
def _notes(maxacc, octaves):
    from mingus.containers.note import Note
    return [Note(n, o) for n in all_names(maxacc) for o in octaves]


@battery("notes")
def b_notes(tier, rnd):
    return {"rule": "Note objects: names with <= 2 accidentals (all orderings) x octaves 0..9",
            "cases": [(n,) for n in _notes(2, range(10))]}


@battery("notes_many_accidentals")
def b_notes_many_accidentals(tier, rnd):
    return {"rule": "Note objects: names with <= 4 accidentals (all orderings of # and b) x octaves {0, 4, 9}",
            "cases": [(n,) for n in _notes(4, (0, 4, 9))]}


@battery("note_pairs")
def b_note_pairs(tier, rnd):
    ns1 = _notes(2, (0, 3, 4, 9))
    return {"rule": "ordered pairs of Notes: names with <= 2 accidentals x octaves {0,3,4,9} against names with <= 1 "
                    "accidental x octaves {0,2,3,4,5,9}",
            "cases": [(a, b) for a in ns1 for b in _notes(1, (0, 2, 3, 4, 5, 9))]}


@battery("note_int")
def b_note_int(tier, rnd):
    from mingus.containers.note import Note
    ints = list(range(-3, 20)) + [126, 127, 128, 129, 255, -128, 1000]
    return {"rule": "Notes (C-4, Bb-0, F##-9) x integers -3..19 and around 127/128",
            "cases": [(Note(n, o), i) for (n, o) in (("C", 4), ("Bb", 0), ("F##", 9)) for i in ints]}


@battery("note_setnote")
def b_note_setnote(tier, rnd):
    from mingus.containers.note import Note
    names = all_names(2) + ["H", "c", "Cx", "C#x", "x", "1", "C%", "100%", "C%s", "%d", "C{}", "C\n", "C#\n", ""]
    return {"rule": "set_note on a fresh Note x (names with <= 2 accidentals + malformed) x octaves {0,4,9} x "
                    "dynamics {} / None", "cases": [(Note(), n, o, d) for n in names for o in (0, 4, 9) for d in ({}, None)]}


@battery("note_init")
def b_note_init(tier, rnd):
    from mingus.containers.note import Note
    names = all_names(2) + ["H", "c", "Cx", "C#x", "x", "1", "C%", "100%", "C%s", "%d", "C{}", "C\n", "C#\n", ""]
    return {"rule": "Note.__init__ on a blank instance x names x octaves {0,4,9}",
            "cases": [(Note.__new__(Note), n, o) for n in names for o in (0, 4, 9)]}


@battery("note_transpose")
def b_note_transpose(tier, rnd):
    from mingus.containers.note import Note
    octs = (0, 1, 4, 8) if tier == "quick" else range(0, 10)
    return {"rule": "Notes on 35 canonical names x octaves x 35 shorthands x {up, down}",
            "cases": [(Note(n, o), s, u) for n in canon_names(2) for o in octs for s in interval_shorthands(2)
                      for u in (True, False)]}


@battery("note_shorthand")
def b_note_shorthand(tier, rnd):
    from mingus.containers.note import Note
    octs = (1, 4, 8)
    return {"rule": "Notes on 35 canonical names x octaves {1,4,8} x 35 shorthands",
            "cases": [(Note(n, o), s) for n in canon_names(2) for o in octs for s in interval_shorthands(2)]}


# ---------------------------------------------------------------- MIDI track encoders
def _tracks():
    from mingus.midi.midi_track import MidiTrack
    out = []
    for dt in (b"\x00", b"\x48", b"\x81\x00", b"\xff\xff\xff\x7f", b""):
        t = MidiTrack()
        t.delta_time = dt
        out.append(t)
    return out


INT28 = sorted(set([0, 1, 2, 63, 64, 100, 126, 127, 128, 129, 255, 256, 1000, 8191, 8192, 16382, 16383, 16384, 16385,
                    2097150, 2097151, 2097152, 2097153, 2 ** 24, 2 ** 28 - 2, 2 ** 28 - 1] +
                   [128 ** k + d for k in (1, 2, 3) for d in range(-3, 4)]))


@battery("track_int28")
def b_track_int28(tier, rnd):
    extra = [rnd.randrange(0, 2 ** 28) for _ in range(2000 if tier == "quick" else 200000)]
    return {"rule": "a MidiTrack x boundary neighbourhoods of 128^k, extremes, and seeded values in 0..2^28-1",
            "cases": [(t, v) for t in _tracks()[:1] for v in INT28 + extra]}


@battery("track_names")
def b_track_names(tier, rnd):
    import copy
    names = ["", "a", "Untitled", "Lead guitar (left)", "x" * 127, "y" * 128, "z" * 129, "n" * 255, "m" * 256, "k" * 300,
             "w" * 16383, "v" * 16384, "u" * 20000, "caf\u00e9", "\u266f", "tab\there", "nul\x00in", "\x7f"]
    return {"rule": "5 pending delta times x names of length 0..20000 around 127/128, 255/256, 16383/16384, "
                    "control characters, and non-ASCII names (refused)",
            "cases": [(copy.deepcopy(t), n) for t in _tracks() for n in names]}


@battery("track_blank_midi")
def b_track_blank_midi(tier, rnd):
    from mingus.midi.midi_track import MidiTrack
    T = MidiTrack
    bpms = [4, 5, 30, 60, 119, 120, 121, 240, 999, 1000, 60000000] + [rnd.randrange(4, 2000) for _ in range(40)]
    return {"rule": "MidiTrack.__init__ on a blank instance: tempo omitted, or 51 tempi in 4..60000000",
            "cases": [(T.__new__(T),)] + [(T.__new__(T), b) for b in bpms]}


@battery("track_event")
def b_track_event(tier, rnd):
    vals = (-1, 0, 1, 9, 15, 16, 127, 128)
    return {"rule": "5 pending delta times x event_type/channel/param values around their bounds x param2 in {None, ...}",
            "cases": [(t, e, c, p1, p2) for t in _tracks() for e in (-1, 0, 8, 9, 15, 16) for c in (-1, 0, 5, 15, 16)
                      for p1 in (-1, 0, 64, 127, 128) for p2 in (None, -1, 0, 127, 128)]}


@battery("track_3ints")
def b_track_3ints(tier, rnd):
    v = (-1, 0, 1, 60, 127, 128)
    return {"rule": "5 pending delta times x channel {-1,0,9,15,16} x two data bytes around their bounds",
            "cases": [(t, c, a, b) for t in _tracks() for c in (-1, 0, 9, 15, 16) for a in v for b in v]}


@battery("track_2ints")
def b_track_2ints(tier, rnd):
    return {"rule": "5 pending delta times x channel x program around their bounds",
            "cases": [(t, c, a) for t in _tracks() for c in (-1, 0, 9, 15, 16) for a in (-1, 0, 1, 60, 127, 128)]}


@battery("track_bpm")
def b_track_bpm(tier, rnd):
    bpms = list(range(1, 1001)) + [4000, 60000000, 59999999, 30000001]
    return {"rule": "bpm 1..1000 (1..3 do not fit three bytes: refused) and extremes", "cases": [(t, b) for t in _tracks()[:2] for b in bpms]}


@battery("track_only")
def b_track_only(tier, rnd):
    from mingus.midi.midi_track import MidiTrack
    ts = _tracks()
    t = MidiTrack()
    t.track_data = bytes(range(256)) * 300
    ts.append(t)
    t2 = MidiTrack()
    t2.track_data = b""
    ts.append(t2)
    return {"rule": "tracks with empty, default and 76800-byte data", "cases": [(t,) for t in ts]}


@battery("track_key")
def b_track_key(tier, rnd):
    return {"rule": "5 pending delta times x 30 keys", "cases": [(t, k) for t in _tracks() for k in KEYS30]}


@battery("track_meter")
def b_track_meter(tier, rnd):
    return {"rule": "counts 0..255 (sample) x beat units 1..128",
            "cases": [(t, (n, d)) for t in _tracks()[:2] for n in (0, 1, 2, 3, 4, 5, 6, 7, 9, 12, 255)
                      for d in (1, 2, 4, 8, 16, 32, 64, 128)]}


@battery("log_domain")
def b_log_domain(tier, rnd):
    cases = []
    for b in (2, 128):
        k = 0
        while b ** k < 2 ** 28:
            for d in range(-1024, 1025) if tier == "quick" else range(-65536, 65537):
                v = b ** k + d
                if 1 <= v < 2 ** 28:
                    cases.append((v, b))
            k += 1
        for _ in range(20000 if tier == "quick" else 2000000):
            cases.append((rnd.randrange(1, 2 ** 28), b))
    return {"rule": "every power of the base below 2^28 with its +-1024 (thorough: +-65536) neighbourhood, plus seeded values",
            "cases": cases}


@battery("bpms")
def b_bpms(tier, rnd):
    return {"rule": "bpm 4..1000", "exhaustive_upto": 1000, "cases": [(b,) for b in range(4, 1001)]}


def _mfile():
    from mingus.midi.midi_file_in import MidiFile
    return MidiFile()


@battery("byte_strings")
def b_byte_strings(tier, rnd):
    cases = [(_mfile(), bytes([a])) for a in range(256)]
    cases += [(_mfile(), bytes([a, b])) for a in range(0, 256, 5) for b in range(256)]
    for n in (3, 4):
        for _ in range(3000):
            cases.append((_mfile(), bytes(rnd.randrange(256) for _ in range(n))))
        cases.append((_mfile(), b"\x00" * n))
        cases.append((_mfile(), b"\xff" * n))
    return {"rule": "all 1-byte strings, 13k 2-byte strings, seeded 3- and 4-byte strings with the extremes", "cases": cases}


def _vlq(n):
    out = [n & 0x7F]
    n >>= 7
    while n:
        out.append((n & 0x7F) | 0x80)
        n >>= 7
    return bytes(reversed(out))


@battery("vlq_files")
def b_vlq_files(tier, rnd):
    import io
    vals = INT28 + [rnd.randrange(0, 2 ** 28) for _ in range(3000)]
    cases = []
    for v in vals:
        for pre in (b"", b"\x01\x02"):
            f = io.BytesIO(pre + _vlq(v) + b"\x90\x3c\x40\x00")
            f.read(len(pre))
            cases.append((_mfile(), GhostFile(f), True))
    return {"rule": "files positioned at the standard encoding of boundary and seeded values 0..2^28-1 (at offset 0 and 2)",
            "cases": cases}


class GhostFile(object):
    """a real binary file object exposing .data / .pos so that the contract's ghost view can be evaluated"""

    def __init__(self, f):
        self._f = f
        self.data = f.getvalue()

    @property
    def pos(self):
        return self._f.tell()

    def read(self, n=-1):
        return self._f.read(n)


@battery("track_header_files")
def b_track_header_files(tier, rnd):
    import io
    cases = []
    for tag in (b"MTrk", b"MThd", b"mtrk", b"MTrK", b"\x00\x00\x00\x00", b"RIFF"):
        for size in (0, 1, 255, 256, 65535, 65536, 2 ** 24, 2 ** 32 - 1, rnd.randrange(2 ** 32)):
            f = io.BytesIO(b"\x00" + tag + size.to_bytes(4, "big") + b"\x00\xff\x2f\x00")
            f.read(1)
            cases.append((_mfile(), GhostFile(f)))
    return {"rule": "6 tags (one valid) x 9 chunk sizes incl. extremes, file positioned at offset 1", "cases": cases}


# ---------------------------------------------------------------- sequencer (recording subclass = the ghost trace)
def _rec_sequencer():
    from mingus.midi.sequencer import Sequencer
    from contracts import specfuns

    class Rec(Sequencer):
        def play_event(self, note, channel, velocity):
            specfuns._trace_add(("play_event", note, channel, velocity))

        def stop_event(self, note, channel):
            specfuns._trace_add(("stop_event", note, channel))

        def cc_event(self, channel, control, value):
            specfuns._trace_add(("cc_event", channel, control, value))

        def instr_event(self, channel, instr, bank):
            specfuns._trace_add(("instr_event", channel, instr, bank))

        def sleep(self, seconds):
            specfuns._trace_add(("sleep", seconds))

        def notify_listeners(self, msg_type, params):
            specfuns._trace_add(("notify", msg_type, params))
    return Rec()


@battery("seq_blank")
def b_seq_blank(tier, rnd):
    from mingus.midi.sequencer import Sequencer
    return {"rule": "Sequencer.__init__ on three blank instances", "cases": [(Sequencer.__new__(Sequencer),) for _ in range(3)]}


@battery("seq_attach")
def b_seq_attach(tier, rnd):
    from mingus.midi.sequencer import Sequencer
    from mingus.midi.sequencer_observer import SequencerObserver
    cases = []
    for k in range(0, 5):
        for j in range(-1, k):
            s = Sequencer()
            obs = [SequencerObserver() for _ in range(k)]
            s.listeners = list(obs)
            cases.append((s, obs[j] if j >= 0 else SequencerObserver()))
    return {"rule": "0..4 distinct observers attached already x the argument a new observer or any of those attached",
            "cases": cases}


@battery("seq_cc")
def b_seq_cc(tier, rnd):
    v = (-2, -1, 0, 1, 64, 127, 128, 129, 1000)
    return {"rule": "channels {0, 9, 15} x control x value over {-2,-1,0,1,64,127,128,129,1000}",
            "cases": [(_rec_sequencer(), ch, c, x) for ch in (0, 9, 15) for c in v for x in v]}


@battery("seq_instr")
def b_seq_instr(tier, rnd):
    return {"rule": "channels x programs x banks", "cases": [(_rec_sequencer(), ch, i, b) for ch in (0, 9, 15)
                                                                for i in (0, 1, 40, 127) for b in (0, 1, 5)]}


def _seq_notes():
    from mingus.containers.note import Note
    out = []
    for n in all_names(1):
        for o in (0, 4, 8):
            x = Note(n, o)
            x.channel, x.velocity = (o * 3) % 16, (17 * o + 5) % 128
            out.append(x)
    return out


@battery("seq_note")
def b_seq_note(tier, rnd):
    return {"rule": "Notes (<= 1 accidental x octaves 0,4,8, own channel/velocity) x argument channel/velocity",
            "cases": [(_rec_sequencer(), n, c, v) for n in _seq_notes() for c in (1, 7) for v in (100, 3)]}


@battery("seq_note_stop")
def b_seq_note_stop(tier, rnd):
    return {"rule": "Notes (<= 1 accidental x octaves 0,4,8, own channel) x argument channel",
            "cases": [(_rec_sequencer(), n, c) for n in _seq_notes() for c in (1, 7)]}


@battery("seq_cc2")
def b_seq_cc2(tier, rnd):
    v = (-2, -1, 0, 1, 64, 127, 128, 129, 1000)
    return {"rule": "channels {0, 9, 15} x value over {-2,-1,0,1,64,127,128,129,1000}",
            "cases": [(_rec_sequencer(), ch, x) for ch in (0, 9, 15) for x in v]}


def _rec_observer():
    from mingus.midi.sequencer_observer import SequencerObserver
    from contracts import specfuns
    names = ["play_int_note_event", "stop_int_note_event", "cc_event", "instr_event", "sleep", "play_Note", "stop_Note",
             "play_NoteContainer", "stop_NoteContainer", "play_Bar", "play_Bars", "play_Track", "play_Tracks",
             "play_Composition"]

    class Rec(SequencerObserver):
        pass
    for nm in names:
        def mk(nm):
            def f(self, *a):
                specfuns._trace_add(("observer." + nm, self) + tuple(a))
            return f
        setattr(Rec, nm, mk(nm))
    return Rec()


@battery("observer_msgs")
def b_observer_msgs(tier, rnd):
    keys = ["bank", "bar", "bars", "bpm", "channel", "channels", "composition", "control", "instr", "note", "notes", "s",
            "track", "tracks", "value", "velocity"]
    cases = []
    for m in range(-1, 16):
        params = dict((k, (i + 1) * 7 + m) for i, k in enumerate(keys))
        cases.append((_rec_observer(), m, params))
    return {"rule": "message numbers -1..15 with all parameter keys present and distinct values", "cases": cases}


# ---------------------------------------------------------------- tunings
def _tunings(tier):
    from mingus.extra import tunings
    out = []
    for i in tunings._known.values():
        for t in i[1].values():
            out.append(t)
    out.append(tunings.StringTuning("test", "one string", ["A-3"]))
    out.append(tunings.StringTuning("test", "courses", [["E-3", "E-4"], "A-3", ["D-4", "D-5"]]))
    return out


@battery("tuning_note")
def b_tuning_note(tier, rnd):
    from mingus.containers.note import Note
    notes = [Note().from_int(i) for i in (range(0, 128, 3) if tier == "quick" else range(128))] + \
            [Note("Cb", 4), Note("B#", 3), Note("Ebb", 2), Note("F##", 5)]
    return {"rule": "all registered tunings (+2 synthetic) x notes 0..127 (step 3 in quick) + 4 exotic spellings x maxfret {0, 5, 24}",
            "cases": [(t, n, m) for t in _tunings(tier) for n in notes for m in (0, 5, 24)]}


@battery("tuning_string_fret")
def b_tuning_string_fret(tier, rnd):
    return {"rule": "all registered tunings x strings -1..6 x frets {-1,0,1,12,24,25} x maxfret {12, 24}",
            "cases": [(t, s, f, m) for t in _tunings(tier) for s in range(-1, 7) for f in (-1, 0, 1, 12, 24, 25)
                      for m in (12, 24)]}


@battery("tuning_only")
def b_tuning_only(tier, rnd):
    return {"rule": "all registered tunings (+2 synthetic)", "cases": [(t,) for t in _tunings(tier)]}


@battery("ly_notes")
def b_ly_notes(tier, rnd):
    from mingus.containers.note import Note
    return {"rule": "Notes: names with <= 3 accidentals (all orderings) x octaves 0..9 x process_octaves x standalone",
            "cases": [(Note(n, o), p, s) for n in all_names(3) for o in range(10) for p in (True, False)
                      for s in (True, False)]}


NUMS = ["I", "II", "III", "IV", "V", "VI", "VII"]


@battery("numeral_int")
def b_numeral_int(tier, rnd):
    return {"rule": "7 numerals x skip counts -15..15", "cases": [(n, k) for n in NUMS for k in range(-15, 16)]}


@battery("numeral_pairs_int")
def b_numeral_pairs_int(tier, rnd):
    return {"rule": "49 numeral pairs x intervals -3..14", "cases": [(a, b, i) for a in NUMS for b in NUMS for i in range(-3, 15)]}


@battery("chord_lists")
def b_chord_lists(tier, rnd):
    ns = canon_names(1)
    cases = []
    for n in range(1, 8):
        for _ in range(40):
            cases.append(([rnd.choice(ns) for _ in range(n)],))
    return {"rule": "seeded lists of 1..7 names (40 per length)", "cases": cases}


@battery("bar_meter")
def b_bar_meter(tier, rnd):
    from mingus.containers.bar import Bar
    return {"rule": "a Bar x meters (count 0..13) x beat units from the 'numbers' battery (ints only)",
            "cases": [(Bar(), (c, u)) for c in range(0, 14) for u in NUMBERS if isinstance(u, int) and not isinstance(u, bool)]}


@battery("bars_filled")
def b_bars_filled(tier, rnd):
    from mingus.containers.bar import Bar
    out = []
    for meter in ((4, 4), (3, 4), (6, 8), (2, 2), (5, 4), (0, 0), (12, 8)):
        for v in (1, 2, 4, 8, 16, 3, 6, 12, 1.5, 5):
            b = Bar("C", meter)
            out.append((b,))
            for _ in range(24):
                if not b.place_notes("C", v):
                    break
                import copy
                out.append((copy.deepcopy(b),))
    return {"rule": "bars in 7 meters filled step by step with each of 10 values (every intermediate state)", "cases": out}


@battery("bar_pairs")
def b_bar_pairs(tier, rnd):
    from mingus.containers.bar import Bar
    import itertools
    items = [None, "C", "B#", "Db", "C#", "E"]
    octs = {"B#": 3}

    def make(entries):
        b = Bar("C", (4, 4))
        for it, v in entries:
            if it is None:
                b.place_rest(v)
            else:
                from mingus.containers.note import Note
                b.place_notes(Note(it, octs.get(it, 4)), v)
        return b
    seqs = [[]] + [[(i, v)] for i in items for v in (4, 8)] + \
           [[(i, 4), (j, v)] for i in items[:4] for j in items[:4] for v in (4, 2)]
    cases = [(make(a), make(b)) for a in seqs for b in seqs]
    return {"rule": "every ordered pair of %d bars of 0..2 entries (rests, one-note containers incl. the enharmonic twins "
                    "B#-3 / C-4 and Db / C#, values 2, 4, 8)" % len(seqs), "cases": cases}


@battery("track_pairs")
def b_track_pairs(tier, rnd):
    from mingus.containers.bar import Bar
    from mingus.containers.track import Track
    from mingus.containers.note import Note

    def bar(entries):
        b = Bar("C", (4, 4))
        for it, o, v in entries:
            if it is None:
                b.place_rest(v)
            else:
                b.place_notes(Note(it, o), v)
        return b

    def track(bars):
        t = Track()
        for b in bars:
            t.add_bar(bar(b))
        return t
    bars = [[], [(None, 4, 4)], [("C", 4, 4)], [("B#", 3, 4)], [("C", 4, 8)], [("C", 4, 4), ("E", 4, 4)], [("C", 4, 4), (None, 4, 4)]]
    tracks = [[]] + [[b] for b in bars] + [[a, b] for a in bars[:5] for b in bars[:5]]
    cases = [(track(a), track(b)) for a in tracks for b in tracks]
    return {"rule": "every ordered pair of %d tracks of 0..2 bars (empty bars, rests, one or two entries, the enharmonic twins "
                    "B#-3 / C-4, values 4 and 8)" % len(tracks), "cases": cases}


@battery("comp_pairs")
def b_comp_pairs(tier, rnd):
    from mingus.containers.composition import Composition
    tr = b_track_pairs(tier, rnd)["cases"]
    tracks = [a for a, b in tr[::33]][:12]       # the first member of every 33rd pair: 12 different tracks
    import copy
    lists = [[]] + [[t] for t in tracks] + [[a, b] for a in tracks[:4] for b in tracks[:4]]

    def comp(ts):
        c = Composition()
        for t in ts:
            c.add_track(copy.deepcopy(t))
        return c
    cases = [(comp(a), comp(b)) for a in lists for b in lists]
    return {"rule": "every ordered pair of %d compositions of 0..2 tracks taken from the track_pairs battery" % len(lists),
            "cases": cases}


@battery("tiny_chords")
def b_tiny_chords(tier, rnd):
    ns = all_names(1)
    cases = [([], f, False, False) for f in (True, False)]
    cases += [([a], f, False, False) for a in ns for f in (True, False)]
    cases += [([a, b], f, False, False) for a in ns for b in ns for f in (True, False)]
    return {"rule": "the empty chord, 21 single notes, 441 pairs x both forms", "cases": cases}


@battery("nc_add")
def b_nc_add(tier, rnd):
    from mingus.containers.note import Note
    from mingus.containers.note_container import NoteContainer
    names = [n for n in all_names(1) if n not in ("Cb", "B#")]
    starts = [[], ["C"], ["A"], ["C", "G"], ["E", "G"], [["C", 2], ["C", 6]]]
    cases = []
    for st in starts:
        for n in names:
            cases.append((NoteContainer(list(st)), n))
            for o in (3, 4, 5):
                cases.append((NoteContainer(list(st)), Note(n, o)))
    return {"rule": "6 start containers (0..2 notes) x 19 names as bare names and as Note objects in octaves 3..5",
            "cases": cases}


@battery("instr_note")
def b_instr_note(tier, rnd):
    from mingus.containers.note import Note
    from mingus.containers import instrument as I
    instrs = [I.Instrument(), I.Piano(), I.Guitar(), I.MidiInstrument()]
    return {"rule": "4 instruments x notes 0..127 + exotic spellings", "cases":
            [(i, Note().from_int(k)) for i in instrs for k in range(0, 128)] +
            [(i, Note(n, o)) for i in instrs for n in ("Cb", "B#", "E##") for o in (0, 3, 8)]}


@battery("numeral_tuples")
def b_numeral_tuples(tier, rnd):
    return {"rule": "7 numerals x accidental counts -14..8 x 6 suffixes",
            "cases": [((r, a, s),) for r in NUMS for a in range(-14, 9) for s in ("", "7", "m", "dim7", "M7", "dom7")]}


@battery("track_note")
def b_track_note(tier, rnd):
    from mingus.containers.note import Note
    cases = []
    for t_i in range(3):
        for n in all_names(1):
            for o in (-2, -1, 0, 4, 8, 9, 10):
                for (ch, vel) in ((0, 0), (9, 64), (15, 127), (3, 128), (3, -1)):
                    t = _tracks()[t_i]
                    t.track_data = b"\x00\xff\x51\x03\x07\xa1\x20" * t_i
                    x = Note(n, max(o, 0))
                    x.octave = o
                    x.channel, x.velocity = ch, vel
                    cases.append((t, x))
                    if o in (0, 4) and vel in (0, 64, 127):      # the same with a pending instrument change
                        t2 = _tracks()[t_i]
                        t2.change_instrument, t2.instrument = True, (len(n) * 37 + ch) % 128
                        cases.append((t2, x))
    return {"rule": "3 tracks (different pending delta / existing data) x 21 names x octaves -2..10 x 5 channel/velocity pairs "
                    "incl. out-of-range; in-range cases also with a pending instrument change", "cases": cases}


@battery("track_3ints_b")
def b_track_3ints_b(tier, rnd):
    vals = [-1, 0, 1, 15, 16, 127, 128]
    return {"rule": "5 pending delta times x channel x program x bank over boundary values",
            "cases": [(t, a, b, c) for t in _tracks() for a in vals for b in vals for c in (0, 1, 127, 128)]}


@battery("track_nc")
def b_track_nc(tier, rnd):
    from mingus.containers.note import Note
    from mingus.containers.note_container import NoteContainer
    cases = []
    names = all_names(1)
    for t_i in range(3):
        for k in range(0, 6):
            for _ in range(12):
                nc = NoteContainer()
                for j in range(k):
                    x = Note(rnd.choice(names), rnd.randint(0, 8))
                    x.channel, x.velocity = rnd.randint(0, 15), rnd.randint(0, 127)
                    nc.notes.append(x)
                t = _tracks()[t_i]
                cases.append((t, nc))
    return {"rule": "3 pending delta times x containers of 0..5 seeded notes (unsorted on purpose: the writer must keep the "
                    "container's order)", "cases": cases}


def _seq_ncs(rnd):
    from mingus.containers.note_container import NoteContainer
    out = [None]
    ns = _seq_notes()
    for k in range(0, 5):
        for _ in range(8):
            nc = NoteContainer()
            nc.notes = [rnd.choice(ns) for _ in range(k)]
            out.append(nc)
    return out


@battery("seq_nc")
def b_seq_nc(tier, rnd):
    return {"rule": "None and containers of 0..4 seeded notes (own channel/velocity) x argument channel/velocity",
            "cases": [(_rec_sequencer(), nc, c, v) for nc in _seq_ncs(rnd) for c in (1, 7) for v in (100, 3)]}


@battery("seq_nc_stop")
def b_seq_nc_stop(tier, rnd):
    return {"rule": "None and containers of 0..4 seeded notes x argument channel",
            "cases": [(_rec_sequencer(), nc, c) for nc in _seq_ncs(rnd) for c in (1, 7)]}


@battery("bar_place")
def b_bar_place(tier, rnd):
    import copy
    from mingus.containers.bar import Bar
    from mingus.containers.note_container import NoteContainer
    cases = []
    for (b,) in b_bars_filled(tier, rnd)["cases"][::3]:
        for v in (1, 2, 4, 8, 16, 3, 6, 1.5, 5, 12):
            for content in (None, NoteContainer(["C", "E"]), "F#", "Bbb", []):
                cases.append((copy.deepcopy(b), copy.copy(content), v))
    return {"rule": "every third intermediate state of the 'bars_filled' battery x 10 values x {rest, container, two bare names, an empty list}",
            "cases": cases}


@battery("bar_rest")
def b_bar_rest(tier, rnd):
    import copy
    cases = []
    for (b,) in b_bars_filled(tier, rnd)["cases"][::2]:
        for v in (1, 2, 4, 8, 16, 3, 6, 1.5, 5, 12, 32, 64):
            cases.append((copy.deepcopy(b), v))
    return {"rule": "every second intermediate state of the 'bars_filled' battery x 12 values", "cases": cases}


@battery("bar_plus")
def b_bar_plus(tier, rnd):
    import copy
    from mingus.containers.note_container import NoteContainer
    cases = []
    for (b,) in b_bars_filled(tier, rnd)["cases"]:
        cases.append((copy.deepcopy(b), NoteContainer(["C", "E"])))
    return {"rule": "every intermediate state of the 'bars_filled' battery (all its meters, incl. the free (0,0) one) + a container",
            "cases": cases}


def _midi_bars(rnd, n):
    """seeded bars of rests, empty containers, containers (some with a tempo) over mixed values, keys and meters"""
    from mingus.containers.bar import Bar
    from mingus.containers.note import Note
    from mingus.containers.note_container import NoteContainer
    from contracts.core_keys import KEYS30
    out = []
    for i in range(n):
        b = Bar(rnd.choice(KEYS30), rnd.choice([(4, 4), (3, 4), (6, 8), (5, 4), (2, 2), (0, 0)]))
        for _ in range(rnd.choice([0, 1, 2, 3, 4, 6])):
            kind = rnd.choice(["rest", "rest", "empty", "nc", "nc", "nc", "tempo"])
            v = rnd.choice([1, 2, 4, 8, 16, 32, 3, 6, 12, 1.5, 5, 7, 64, 128])
            if kind == "rest":
                c = None
            else:
                c = NoteContainer()
                for _j in range(0 if kind == "empty" else rnd.choice([1, 1, 2, 3])):
                    x = Note(rnd.choice(["C", "F#", "Bb", "E", "Ab"]), rnd.randint(1, 7))
                    x.channel, x.velocity = rnd.randint(0, 15), rnd.randint(0, 127)
                    c.notes.append(x)
                if kind == "tempo":
                    c.bpm = rnd.choice([30, 60, 120, 121, 240, 999])
            b.bar.append([b.current_beat, v, c])
            b.current_beat += 1.0 / v
        out.append(b)
    return out


@battery("track_bar")
def b_track_bar(tier, rnd):
    cases = []
    for b in _midi_bars(rnd, 120 if tier == "quick" else 1500):
        t = _tracks()[rnd.randint(0, 2)]
        t.delay = rnd.choice([0, 0, 72, 288, 1000])
        cases.append((t, b))
    return {"rule": "seeded bars (0..6 entries: rests, empty containers, containers of 1..3 notes, containers with a tempo; "
                    "binary, dotted and tuplet values; 30 keys x 6 meters) x 3 tracks x 5 pending delays", "cases": cases}


@battery("track_track")
def b_track_track(tier, rnd):
    from mingus.containers.track import Track
    cases = []
    for _ in range(60 if tier == "quick" else 600):
        tr = Track()
        tr.bars = _midi_bars(rnd, rnd.choice([0, 1, 2, 3, 5]))
        t = _tracks()[rnd.randint(0, 2)]
        t.delay = rnd.choice([0, 0, 72, 288])
        cases.append((t, tr))
    return {"rule": "seeded tracks of 0..5 seeded bars (see track_bar), no instrument number, x 3 tracks x 4 pending delays",
            "cases": cases}


@battery("scale_pairs")
def b_scale_pairs(tier, rnd):
    import mingus.core.scales as S
    classes = [S.Ionian, S.Dorian, S.Phrygian, S.Lydian, S.Mixolydian, S.Aeolian, S.Locrian, S.Major, S.HarmonicMajor,
               S.NaturalMinor, S.HarmonicMinor, S.MelodicMinor, S.Bachian, S.MinorNeapolitan, S.Chromatic, S.WholeTone,
               S.Octatonic]
    tonics = {"maj": ["C", "G", "Eb", "F#"], "min": ["a", "e", "c", "f#"]}

    def tonic_for(c, i):
        if c in (S.Major, S.HarmonicMajor):
            return tonics["maj"][i]
        if c in (S.NaturalMinor, S.HarmonicMinor, S.MelodicMinor, S.Bachian, S.MinorNeapolitan):
            return tonics["min"][i]
        if c is S.Chromatic:
            return tonics["maj"][i]
        return tonics["min"][i].upper()
    cases = []
    for i in range(4 if tier == "quick" else 4):
        for a in classes:
            for b in classes:
                for (oa, ob) in ((1, 1), (1, 2), (2, 2)):
                    try:
                        cases.append((a(tonic_for(a, i), oa), b(tonic_for(b, i), ob)))
                    except Exception:
                        pass
    # Diatonic scales whose semitone positions are written in different ways (tuple, list, other order, repeated): equal
    # exactly when their note lists are
    for tonic in ("C", "F#", "Eb"):
        forms = [(3, 7), (7, 3), [3, 7], (3, 7, 3), (2, 6), (1, 5)]
        objs = []
        for f in forms:
            try:
                objs.append(S.Diatonic(tonic, f))
            except Exception:
                pass
        objs.append(S.Ionian(tonic))
        for a in objs:
            for b in objs:
                cases.append((a, b))
    return {"rule": "every ordered pair of the 17 scale classes on 4 related tonics x octave counts (1,1) (1,2) (2,2): "
                    "same class, relatives, and the classes that share one of their two lists (melodic minor / Bachian / "
                    "natural minor); Diatonic scales with the semitone positions written in 6 ways (+ Ionian) on 3 tonics",
            "cases": cases}


@battery("midifile")
def b_midifile(tier, rnd):
    from mingus.midi.midi_file_out import MidiFile
    from mingus.midi.midi_track import MidiTrack
    from mingus.containers.note import Note

    def track(kind):
        t = MidiTrack()
        if kind == "reset":
            t.reset()
        elif kind == "note":
            t.play_Note(Note("C", 4))
            t.set_deltatime(72)
            t.stop_Note(Note("C", 4))
        elif kind == "long":
            for i in range(40):
                t.play_Note(Note("E", 3))
        return t
    import itertools
    cases = []
    for k in range(0, 4):
        for kinds in itertools.product(["reset", "fresh", "note", "long"], repeat=k):
            cases.append((MidiFile([track(x) for x in kinds]),))
    return {"rule": "files of 0..3 tracks, each reset (no data), fresh, one note or 40 events: all 85 combinations",
            "cases": cases}


@battery("midifile_blank")
def b_midifile_blank(tier, rnd):
    from mingus.midi.midi_file_out import MidiFile
    from mingus.midi.midi_track import MidiTrack
    from mingus.containers.note import Note
    import itertools

    def track(kind):
        t = MidiTrack()
        if kind == "reset":
            t.reset()
        elif kind == "note":
            t.play_Note(Note("C", 4))
        return t
    cases = [(MidiFile.__new__(MidiFile),)]
    for k in range(0, 4):
        for kinds in itertools.product(["reset", "fresh", "note"], repeat=k):
            cases.append((MidiFile.__new__(MidiFile), [track(x) for x in kinds]))
    return {"rule": "MidiFile.__init__ on a blank instance: tracks omitted, or lists of 0..3 tracks each reset, fresh or with "
                    "one note (all 40 combinations)", "cases": cases}


@battery("two_bytes")
def b_two_bytes(tier, rnd):
    his = list(range(256))
    los = [0, 1, 72, 96, 127, 128, 255] + [rnd.randrange(256) for _ in range(3)]
    return {"rule": "every first byte x 10 second bytes (both time-division kinds)",
            "cases": [(_mfile(), bytes([h, lo])) for h in his for lo in los]}


@battery("file_header_files")
def b_file_header_files(tier, rnd):
    import io
    cases = []
    for tag in (b"MThd", b"MTrk", b"mthd", b"MThD", b"RIFF", b"\x00\x00\x00\x00"):
        for size in (0, 5, 6):
            for fmt in (0, 1, 2, 3, 255, 256, 65535):
                for ntr in (0, 1, 2, 17, 65535):
                    for div in (72, 96, 480, 0x7fff, 0x8000, 0xE728, 0xffff):
                        f = io.BytesIO(b"\x00" + tag + size.to_bytes(4, "big") + fmt.to_bytes(2, "big") +
                                       ntr.to_bytes(2, "big") + div.to_bytes(2, "big") + b"MTrk\x00\x00\x00\x04\x00\xff\x2f\x00")
                        f.read(1)
                        cases.append((_mfile(), GhostFile(f)))
    return {"rule": "6 tags (one valid) x header sizes 0, 5, 6 x 7 format numbers x 5 track counts x 7 time divisions "
                    "(ticks and frames-per-second), file positioned at offset 1", "cases": cases}


@battery("event_files")
def b_event_files(tier, rnd):
    import io
    cases = []
    tails = [bytes([rnd.randrange(256) for _ in range(8)]) for _ in range(3)] + [b"\x00" * 8, b"\x7f" * 8]
    for ec in list(range(0x70, 0x100, 1)):
        for t in tails:
            f = io.BytesIO(b"\x00" + bytes([ec]) + t + b"\x00" * 300)
            f.read(1)
            cases.append((_mfile(), GhostFile(f)))
    # meta events with 1-, 2- and 3-byte lengths
    for meta in (0x03, 0x2f, 0x51, 0x58, 0x59, 0x7f):
        for length in (0, 1, 3, 127, 128, 200, 16383, 16384, 20000):
            vl = []
            n = length
            vl.append(n & 0x7f)
            n >>= 7
            while n:
                vl.append((n & 0x7f) | 0x80)
                n >>= 7
            body = bytes([rnd.randrange(256) for _ in range(length)])
            f = io.BytesIO(b"\x00\xff" + bytes([meta]) + bytes(reversed(vl)) + body + b"\x00\xff\x2f\x00\x00\x00")
            f.read(1)
            cases.append((_mfile(), GhostFile(f)))
    return {"rule": "every status byte 0x70..0xff x 5 tails; meta events of 6 kinds x 9 data lengths (1- to 3-byte length "
                    "fields), file positioned at offset 1", "cases": cases}


@battery("numeral_strings")
def b_numeral_strings(tier, rnd):
    import itertools
    cases = [("",)]
    for k in range(1, bound(tier, 5, 6) + 1):
        for t in itertools.product("#bIvVm7", repeat=k):
            cases.append(("".join(t),))
    for s in ("I", "bIM7", "#ivdim7", "VIIdim", "bbIII7", "Idom7", "viio", "b#bVx#I", "im", "##", "7", "Vsus4", "vi7b5"):
        cases.append((s,))
    return {"rule": "every string of length <= 5 (thorough: 6) over {#,b,I,v,V,m,7} + documented numerals",
            "exhaustive_upto": 5, "cases": cases}


@battery("nc_merge")
def b_nc_merge(tier, rnd):
    from mingus.containers.note_container import NoteContainer
    sets = [[], ["C"], ["A"], ["C", "E", "G"], ["E", "G"], [["C", 2], ["C", 6]], ["B#", "Db"], ["C", "E", "G", "B", "D"]]
    cases = []
    for a in sets:
        for b in sets:
            cases.append((NoteContainer(list(a)), NoteContainer(list(b))))
    return {"rule": "8 x 8 ordered pairs of containers holding 0..5 notes (empty receiver, empty argument, overlapping and "
                    "disjoint pitch sets, enharmonic spellings)", "cases": cases}


@battery("ly_containers")
def b_ly_containers(tier, rnd):
    from mingus.containers.note import Note
    from mingus.containers.note_container import NoteContainer
    names = all_names(2)
    cases = [(None, None, True), (None, None, False)]
    for k in (0, 1, 2, 3):
        for _ in range(1 if k == 0 else 60):
            nc = NoteContainer()
            nc.notes = [Note(rnd.choice(names), rnd.randint(0, 8)) for _j in range(k)]
            for s in (True, False):
                cases.append((nc, None, s))
    return {"rule": "rest; containers of 0..3 seeded notes (names with <= 2 accidentals, octaves 0..8, any order) x standalone; "
                    "only the 4-note bound of the contract's expression limits the size", "cases": cases}


@battery("track_add")
def b_track_add(tier, rnd):
    import copy
    from mingus.containers.track import Track
    from mingus.containers.bar import Bar
    from mingus.containers.note_container import NoteContainer
    tracks = [Track()]
    for meter in ((4, 4), (3, 4), (6, 8), (0, 0), (1, 1024)):
        for fill in ((), (4,), (2, 4), (2, 2), (1,), (4, 4, 4), (8, 8, 8, 8, 8, 8), (3, 3, 3), (1024,)):
            t = Track()
            b = Bar("G", meter)
            for v in fill:
                b.place_notes("C", v)
            t.bars = [Bar("F", (2, 4)), b] if len(fill) % 2 else [b]
            tracks.append(t)
    cases = []
    for t in tracks:
        for v in (1, 2, 4, 8, 3, 1.5, 0.5, 1024, 16):
            for item in (None, NoteContainer(["C", "E"])):
                cases.append((copy.deepcopy(t), item, v))
    return {"rule": "46 tracks (empty; 5 meters x 9 fill states of the last bar, with and without a bar before it) x 9 values "
                    "x {rest, container}", "cases": cases}


@battery("nc_remove")
def b_nc_remove(tier, rnd):
    from mingus.containers.note import Note
    from mingus.containers.note_container import NoteContainer
    sets = [[], ["C"], [["C", 3], ["C", 5]], ["C", "E", "G"], [["E", 2], ["C", 4], ["E", 4], ["E", 6]], ["B#", "Db", "C#"],
            [["C", 4], ["B#", 3]], ["C", "E", "G", "B", "D"]]
    cases = []
    for st in sets:
        for nm in ("C", "E", "B#", "Db", "C#", "F", "X"):
            for o in (-1, 3, 4, 5):
                cases.append((NoteContainer(list(st)), nm, o))
            for o in (3, 4):
                cases.append((NoteContainer(list(st)), Note(nm, o) if nm != "X" else Note("A", o), -1))
    return {"rule": "8 containers (0..5 notes, octave doublings, enharmonic twins) x 7 names x octaves {-1, 3, 4, 5} by name, "
                    "x octaves {3, 4} by Note", "cases": cases}


@battery("nc_contains")
def b_nc_contains(tier, rnd):
    from mingus.containers.note import Note
    from mingus.containers.note_container import NoteContainer
    sets = [[], ["C"], [["C", 3], ["C", 5]], ["C", "E", "G"], [["E", 2], ["C", 4], ["E", 4], ["E", 6]], ["B#", "Db", "C#"],
            [["C", 4], ["B#", 3]], ["C", "E", "G", "B", "D"]]
    cases = []
    for st in sets:
        for nm in ("C", "E", "B#", "Db", "C#", "F", "Cb", "Fbb", "D##"):
            for o in (2, 3, 4, 5, 6):
                cases.append((NoteContainer(list(st)), Note(nm, o)))
    return {"rule": "8 containers (0..5 notes, octave doublings, enharmonic twins) x 9 spellings x octaves 2..6", "cases": cases}


@battery("nc_interval_note")
def b_nc_interval_note(tier, rnd):
    from mingus.containers.note import Note
    from mingus.containers.note_container import NoteContainer
    cases = []
    for nm in ("C", "F#", "Bb", "E##", "Gbb", "B", "Cb", "B#"):
        for o in (0, 3, 4, 8):
            for sh in ("1", "b2", "2", "3", "b3", "4", "#4", "5", "b6", "6", "b7", "7", "bb3", "##1"):
                for up in (True, False):
                    n = Note(nm, o)
                    n.channel, n.velocity = (o * 5) % 16, (o * 31 + 7) % 128
                    cases.append((NoteContainer(["F", "A"]) if (o + len(sh)) % 2 else NoteContainer(), n, sh, up))
    return {"rule": "8 start names x octaves {0,3,4,8} (own channel/velocity) x 14 shorthands x up/down, into an empty or a "
                    "filled receiver", "cases": cases}


@battery("nc_remove_many")
def b_nc_remove_many(tier, rnd):
    from mingus.containers.note import Note
    from mingus.containers.note_container import NoteContainer
    sets = [[], ["C"], [["C", 3], ["C", 5]], ["C", "E", "G"], [["E", 2], ["C", 4], ["E", 4], ["E", 6]], ["B#", "Db", "C#"],
            [["C", 4], ["B#", 3]], ["C", "E", "G", "B", "D"]]
    cases = []
    for st in sets:
        for nm in ("C", "E", "B#", "Db", "F"):
            cases.append((NoteContainer(list(st)), nm))
            cases.append((NoteContainer(list(st)), Note(nm, 4)))
            for nm2 in ("C", "G", "C#", "A"):
                cases.append((NoteContainer(list(st)), [nm, nm2]))
    return {"rule": "8 containers (0..5 notes, octave doublings, enharmonic twins) x {a name, a Note, a list of two names}",
            "cases": cases}


@battery("track_add_bar")
def b_track_add_bar(tier, rnd):
    from mingus.containers.track import Track
    from mingus.containers.bar import Bar
    cases = []
    for n in (0, 1, 2, 5):
        for meter in ((4, 4), (3, 4), (0, 0)):
            t = Track()
            for i in range(n):
                t.bars.append(Bar("C", (4, 4)))
            b = Bar("G", meter)
            cases.append((t, b))
            t2 = Track()
            t2.bars = [b] * n      # the same bar object already in the track: it is still appended
            cases.append((t2, b))
    return {"rule": "tracks of 0, 1, 2, 5 bars x 3 meters of the new bar, incl. a bar object the track already holds", "cases": cases}


@battery("comp_add_track")
def b_comp_add_track(tier, rnd):
    from mingus.containers.composition import Composition
    from mingus.containers.track import Track
    from mingus.containers.bar import Bar
    cases = []
    for n in (0, 1, 3):
        for kind in ("new", "equal", "same", "bar"):
            c = Composition()
            ts = [Track() for _ in range(n)]
            for t in ts:
                c.add_track(t)
            x = Track() if kind in ("new", "equal") else (ts[0] if ts and kind == "same" else Bar() if kind == "bar" else Track())
            if kind == "new":
                x.add_bar(Bar("D", (3, 4)))
            cases.append((c, x))
    return {"rule": "compositions of 0, 1, 3 tracks x {a new track, a track equal to one it holds, the same object again, "
                    "a Bar (refused)}", "cases": cases}


@battery("seq_bar")
def b_seq_bar(tier, rnd):
    from mingus.containers.bar import Bar
    ncs = _seq_ncs(rnd)
    cases = []
    for i in range(80 if tier == "quick" else 800):
        b = Bar("C", rnd.choice([(4, 4), (3, 4), (6, 8), (0, 0)]))
        for _ in range(rnd.choice([0, 1, 2, 3, 4, 6])):
            nc = rnd.choice(ncs)
            if nc is not None and rnd.random() < 0.3:
                import copy
                nc = copy.copy(nc)
                nc.bpm = rnd.choice([30, 60, 90, 120, 121, 240])
            v = rnd.choice([1, 2, 4, 8, 16, 3, 6, 1.5, 5, 0.5])
            b.bar.append([b.current_beat, v, nc])
            b.current_beat += 1.0 / v
        cases.append((_rec_sequencer(), b, rnd.choice([1, 9, 16]), rnd.choice([60, 120, 200, 47])))
    return {"rule": "seeded bars of 0..6 entries (rests, containers of 0..4 notes, containers with a tempo; binary, dotted, "
                    "tuplet and breve values; also unbounded meter) x 3 channels x 4 tempi", "cases": cases}


@battery("seq_track")
def b_seq_track(tier, rnd):
    from mingus.containers.track import Track
    cases = []
    bars = [c[1] for c in b_seq_bar(tier, rnd)["cases"]]
    for i in range(40 if tier == "quick" else 400):
        t = Track()
        t.bars = [rnd.choice(bars) for _ in range(rnd.choice([0, 1, 2, 3, 5]))]
        cases.append((_rec_sequencer(), t, rnd.choice([1, 9]), rnd.choice([60, 120, 200])))
    return {"rule": "seeded tracks of 0..5 bars drawn from the 'seq_bar' battery (tempo changes carry over bar lines) x 2 "
                    "channels x 3 tempi", "cases": cases}


def _nc_pool(rnd):
    from mingus.containers.note_container import NoteContainer
    sets = [[], ["C"], ["C", "G"], ["C", "F"], ["C", "E", "G"], ["C", "F", "G"], ["C", "E", "F#"], ["C", "Db"],
            [["C", 4], ["G", 4], ["C", 5]], ["B#", "Fb"], ["C", "E", "G", "B"], ["C", "D", "E", "F", "G"]]
    for _ in range(30):
        sets.append([rnd.choice(all_names(2)) for _j in range(rnd.choice([2, 3, 4]))])
    out = []
    for st in sets:
        nc = NoteContainer()
        from mingus.containers.note import Note
        nc.notes = [Note(x, 4) if isinstance(x, str) else Note(x[0], x[1]) for x in st]     # any order, any spelling
        out.append(nc)
    return out


@battery("nc_flag")
def b_nc_flag(tier, rnd):
    return {"rule": "42 containers (0..5 notes: fifths, fourths, thirds, seconds, octave doublings, enharmonic twins, seeded "
                    "spellings, unsorted) x include_fourths", "cases": [(nc, f) for nc in _nc_pool(rnd) for f in (True, False)]}


@battery("nc_only")
def b_nc_only(tier, rnd):
    return {"rule": "42 containers as in 'nc_flag'", "cases": [(nc,) for nc in _nc_pool(rnd)]}


def _distinct_ncs(rnd):
    from mingus.containers.note import Note
    from mingus.containers.note_container import NoteContainer
    out = []
    for st in ([], ["C"], ["C", "E", "G"], ["Bb", "D#", "F##"], [["B", 3], ["C", 4]], [["Cb", 4], ["B#", 4]], ["Ebb", "G", "Bbb", "Db"]):
        nc = NoteContainer()
        nc.notes = [Note(x, 4) if isinstance(x, str) else Note(x[0], x[1]) for x in st]
        out.append(nc)
    return out


@battery("nc_transpose")
def b_nc_transpose(tier, rnd):
    import copy
    shs = [a + d for a in ("", "b", "#", "bb", "##") for d in "1234567"]
    return {"rule": "7 containers of 0..4 distinct notes (plain, accidentals, B/C boundary, enharmonic twins) x 35 shorthands x "
                    "up/down", "cases": [(copy.deepcopy(nc), sh, up) for nc in _distinct_ncs(rnd) for sh in shs for up in (True, False)]}


@battery("nc_only_distinct")
def b_nc_only_distinct(tier, rnd):
    return {"rule": "7 containers of 0..4 distinct notes", "cases": [(nc,) for nc in _distinct_ncs(rnd)]}


def _lift_bars(rnd):
    from mingus.containers.bar import Bar
    out = []
    for fill in ([], ["C"], [None], ["C", None, "Em"], [None, None], ["G7", "C", "F", "Dm"], ["C", "C"]):
        b = Bar("C", (0, 0))
        for x in fill:
            if x is None:
                b.place_rest(4)
            else:
                from mingus.containers.note_container import NoteContainer
                b.place_notes(NoteContainer().from_chord(x), 4)
        out.append(b)
    return out


@battery("bar_lift_tr")
def b_bar_lift_tr(tier, rnd):
    import copy
    shs = [a + d for a in ("", "b", "#") for d in "1234567"]
    return {"rule": "7 bars (empty, notes, rests, mixed, repeated chord) x 21 shorthands x up/down",
            "cases": [(copy.deepcopy(b), sh, up) for b in _lift_bars(rnd) for sh in shs for up in (True, False)]}


@battery("bar_lift")
def b_bar_lift(tier, rnd):
    return {"rule": "7 bars (empty, notes, rests, mixed, repeated chord)", "cases": [(b,) for b in _lift_bars(rnd)]}


def _lift_tracks(rnd):
    import copy
    from mingus.containers.track import Track
    bars = _lift_bars(rnd)
    out = []
    for idx in ([], [1], [2], [1, 3], [3, 3], [0, 5, 1], [1, 1]):
        t = Track()
        t.bars = [copy.deepcopy(bars[i]) for i in idx]
        out.append(t)
    same = Track()
    b = copy.deepcopy(bars[3])
    same.bars = [b, copy.deepcopy(bars[1])]
    out.append(same)
    return out


@battery("track_lift_tr")
def b_track_lift_tr(tier, rnd):
    import copy
    shs = [a + d for a in ("", "b", "#") for d in "1234567"]
    return {"rule": "8 tracks of 0..3 bars x 21 shorthands x up/down",
            "cases": [(copy.deepcopy(t), sh, up) for t in _lift_tracks(rnd) for sh in shs for up in (True, False)]}


@battery("track_lift")
def b_track_lift(tier, rnd):
    return {"rule": "8 tracks of 0..3 bars", "cases": [(t,) for t in _lift_tracks(rnd)]}


@battery("fingerings")
def b_fingerings(tier, rnd):
    import itertools
    cases = []
    for k in range(1, 5):
        for f in itertools.product((0, 1, 2, 3, 5), repeat=k):
            if any(f):
                cases.append((list(f),))
    for _ in range(300):
        f = [rnd.choice([0, 0, 1, 2, 3, 4, 7, 12, 24]) for _j in range(rnd.choice([5, 6, 7]))]
        if any(f):
            cases.append((f,))
    return {"rule": "every fingering of 1..4 strings over frets {0,1,2,3,5} with a pressed string; 300 seeded ones of 5..7 strings",
            "exhaustive_upto": 4, "cases": cases}


@battery("small_ints_wide")
def b_small_ints_wide(tier, rnd):
    return {"rule": "every width -5..400", "cases": [(n,) for n in range(-5, 401)]}


@battery("comps")
def b_comps(tier, rnd):
    from mingus.containers.composition import Composition
    from mingus.containers.track import Track
    out = []
    for n in (0, 1, 2, 4):
        c = Composition()
        for _ in range(n):
            c.add_track(Track())
        out.append((c,))
    return {"rule": "compositions of 0, 1, 2, 4 tracks", "cases": out}


@battery("track_blank")
def b_track_blank(tier, rnd):
    from mingus.containers.track import Track
    return {"rule": "Track.__init__ on blank instances, instrument None or omitted",
            "cases": [(Track.__new__(Track), None), (Track.__new__(Track),), (Track.__new__(Track), None)]}


@battery("comp_blank")
def b_comp_blank(tier, rnd):
    from mingus.containers.composition import Composition
    return {"rule": "Composition.__init__ on three blank instances",
            "cases": [(Composition.__new__(Composition),) for _ in range(3)]}


def _index_cases(objs, n_of, extra=()):
    cases = []
    for o in objs:
        n = n_of(o)
        for i in range(-n - 1, n + 1):
            cases.append((o, i) + tuple(extra))
    return cases


@battery("track_index")
def b_track_index(tier, rnd):
    return {"rule": "8 tracks of 0..3 bars x every index incl. one out of range on each side",
            "cases": _index_cases(_lift_tracks(rnd), lambda t: len(t.bars))}


@battery("track_setitem")
def b_track_setitem(tier, rnd):
    import copy
    from mingus.containers.bar import Bar
    cases = []
    for t in _lift_tracks(rnd):
        for i in range(-len(t.bars) - 1, len(t.bars) + 1):
            cases.append((copy.deepcopy(t), i, Bar("G", (3, 4))))
            cases.append((copy.deepcopy(t), i, 7))
    return {"rule": "8 tracks of 0..3 bars x every index incl. one out of range on each side x {a Bar, the int 7}",
            "cases": cases}


def _comps_with_tracks():
    from mingus.containers.composition import Composition
    from mingus.containers.track import Track
    out = []
    for n in (0, 1, 2, 3, 4):
        c = Composition()
        for _ in range(n):
            c.add_track(Track())
        out.append(c)
    return out


@battery("comp_index")
def b_comp_index(tier, rnd):
    return {"rule": "compositions of 0..4 tracks x every index incl. one out of range on each side",
            "cases": _index_cases(_comps_with_tracks(), lambda c: len(c.tracks))}


@battery("comp_setitem")
def b_comp_setitem(tier, rnd):
    from mingus.containers.track import Track
    cases = []
    for c in _comps_with_tracks():
        for i in range(-len(c.tracks) - 1, len(c.tracks) + 1):
            import copy
            cases.append((copy.deepcopy(c), i, Track()))
    return {"rule": "compositions of 0..4 tracks x every index incl. one out of range on each side x a new Track",
            "cases": cases}


@battery("nc_index")
def b_nc_index(tier, rnd):
    return {"rule": "42 containers as in 'nc_flag' x every index incl. one out of range on each side",
            "cases": _index_cases(_nc_pool(rnd), lambda nc: len(nc.notes))}


@battery("nc_blank")
def b_nc_blank(tier, rnd):
    from mingus.containers.note_container import NoteContainer
    N = NoteContainer
    return {"rule": "NoteContainer.__init__ on blank instances: notes None, omitted, or one bare name (<= 2 accidentals)",
            "cases": [(N.__new__(N), None), (N.__new__(N),)] + [(N.__new__(N), n) for n in all_names(2)]}


@battery("track_integrity")
def b_track_integrity(tier, rnd):
    from mingus.containers.track import Track
    from mingus.containers.bar import Bar
    cases = []
    for fills in ([], [4], [2], [4, 4], [4, 2], [2, 4], [4, 4, 4], [4, 3, 4], [4, 4, 0], [0, 4, 4], [3], [4, 4, 4, 1]):
        t = Track()
        for k in fills:
            b = Bar("C", (4, 4))
            for _ in range(k):
                b.place_notes("C", 4)
            t.add_bar(b)
        cases.append((t,))
    for meter in ((0, 0), (3, 4), (6, 8)):
        t = Track()
        for k in (3, 3, 1):
            b = Bar("C", meter)
            for _ in range(k):
                b.place_notes("E", 4)
            t.add_bar(b)
        cases.append((t,))
    return {"rule": "15 tracks of 0..4 bars in 4/4, free time, 3/4, 6/8: full, partly filled and empty bars in every position",
            "cases": cases}


@battery("comp_strings")
def b_comp_strings(tier, rnd):
    from mingus.containers.composition import Composition
    strs = ["", "Untitled", "a b", "Ünï", "x" * 50]
    return {"rule": "5 x 5 strings", "cases": [(Composition(), a, b) for a in strs for b in strs]}


@battery("key_pairs")
def b_key_pairs(tier, rnd):
    from mingus.core.keys import Key
    ks = KEYS30
    return {"rule": "all ordered pairs of the 30 keys", "cases": [(Key(a), Key(b)) for a in ks for b in ks]}


@battery("track_files")
def b_track_files(tier, rnd):
    import io
    cases = []
    for k in (0, 1, 2):
        for _ in range(40 if k else 3):
            body = b""
            for _i in range(k):
                st = rnd.choice([0x80, 0x8f, 0x90, 0x9a, 0xa3, 0xb0, 0xbf, 0xe0, 0xef])
                body += bytes([rnd.randrange(128), st, rnd.randrange(128), rnd.choice([0, 0, 1, 64, 127])])
            f = io.BytesIO(b"\x00MTrk" + (4 * k).to_bytes(4, "big") + body + b"\x00\xff\x2f\x00\x00\x00\x00\x00")
            f.read(1)
            cases.append((_mfile(), GhostFile(f)))
    return {"rule": "track chunks of 0, 1, 2 two-parameter channel events (9 status bytes, seeded data, velocity 0 included) "
                    "with one-byte delta times, file positioned at offset 1", "cases": cases}


@battery("bar_at")
def b_bar_at(tier, rnd):
    import copy
    from mingus.containers.note_container import NoteContainer
    cases = []
    for b in _lift_bars(rnd):
        if any(e[2] is None for e in b.bar):
            continue
        for at in (0.0, 0.25, 0.5, 0.75, 1.0, 0.3):
            cases.append((copy.deepcopy(b), NoteContainer(["B", "D"]), at))
    return {"rule": "bars without rests from the 'bar_lift' family x 6 beats (hit and miss) x one container", "cases": cases}


@battery("bar_init")
def b_bar_init(tier, rnd):
    from mingus.containers.bar import Bar
    from contracts.core_keys import KEYS30
    meters = [(4, 4), (3, 4), (6, 8), (0, 0), (12, 8), (5, 16), (1, 1), (7, 3), (4, 0), (0, 4), (4, 5), (2, 64), (9, 128)]
    keys = list(KEYS30) + ["H", "c##", "C-4", "Cm", "cb", "X#", "?"]
    return {"rule": "Bar.__init__ on a blank instance x (30 keys + 7 unknown keys) x 13 meters (valid, free, invalid units)",
            "cases": [(Bar.__new__(Bar), k, m) for k in keys for m in meters]}


@battery("bar_getitem")
def b_bar_getitem(tier, rnd):
    cases = []
    for b in _lift_bars(rnd):
        for i in range(-len(b.bar) - 1, len(b.bar) + 1):
            cases.append((b, i))
    return {"rule": "the 'bar_lift' family x every index incl. one out of range on each side", "cases": cases}


@battery("bar_setitem")
def b_bar_setitem(tier, rnd):
    import copy
    from mingus.containers.note_container import NoteContainer
    cases = []
    for b in _lift_bars(rnd):
        if any(e[2] is None for e in b.bar):
            continue
        for i in range(-len(b.bar) - 1, len(b.bar) + 1):
            cases.append((copy.deepcopy(b), i, NoteContainer(["B", "D"])))
        for i in range(len(b.bar)):
            for names in (["E", "G"], ["G", "C"], ["E##", "F"], ["E", "D##"], ["Cb", "B#"]):
                cases.append((copy.deepcopy(b), i, list(names)))
    return {"rule": "bars without rests from the 'bar_lift' family x every index incl. one out of range on each side x a "
                    "container; every index in range x five lists of two names (ascending, wrapping, enharmonic)", "cases": cases}


@battery("nc_pairs")
def b_nc_pairs(tier, rnd):
    pool = _nc_pool(rnd)[:22]
    from mingus.containers.note_container import NoteContainer
    from mingus.containers.note import Note
    extra = []
    for st in ([("C#", 4)], [("Db", 4)], [("B#", 4)], [("C", 5)], [("C#", 4), ("E", 4)], [("Db", 4), ("Fb", 4)]):
        nc = NoteContainer()
        nc.notes = [Note(n, o) for n, o in st]
        extra.append(nc)
    pool = pool + extra
    cases = [(a, b) for a in pool for b in pool] + [(a, None) for a in pool[:5]]
    return {"rule": "all ordered pairs of 28 containers (incl. the same pitches under other spellings: C#/Db, B#-4/C-5) and "
                    "comparison with None", "cases": cases}


@battery("guitar_nc")
def b_guitar_nc(tier, rnd):
    from mingus.containers.note import Note
    from mingus.containers.note_container import NoteContainer
    from mingus.containers import instrument as I
    g2 = I.Guitar()
    g2.set_range((Note("C", 2), Note("C", 7)))
    cases = []
    for inst in (I.Guitar(), g2):
        for k in (0, 1, 2, 3, 5, 6, 6, 7, 7, 8, 12):
            for _ in range(6):
                nc = NoteContainer()
                nc.notes = [Note(rnd.choice(["C", "B#", "Cb", "F#", "A", "E", "D", "G"]), rnd.choice([3, 4, 5, 6] if _ % 2 else [1, 3, 4, 6, 8]))
                            for _j in range(k)]
                cases.append((inst, nc))
    return {"rule": "2 guitars (class range, custom range) x containers of 0..12 notes (both sides of six), all inside the range "
                    "or with strays", "cases": cases}


@battery("instr_nc")
def b_instr_nc(tier, rnd):
    from mingus.containers.note import Note
    from mingus.containers.note_container import NoteContainer
    from mingus.containers import instrument as I
    instrs = [I.Instrument(), I.Piano(), I.MidiInstrument()]
    g = I.Instrument()
    g.set_range((Note("C", 3), Note("C", 6)))
    instrs.append(g)
    cases = []
    for inst in instrs:
        for _ in range(60):
            nc = NoteContainer()
            nc.notes = [Note(rnd.choice(["C", "B#", "Cb", "F#", "A", "E"]), rnd.choice([0, 2, 3, 5, 6, 8, 9])) for _j in range(rnd.choice([0, 1, 2, 3, 4]))]
            cases.append((inst, nc))
        for n in (Note("B#", 2), Note("C", 3), Note("Cb", 3), Note("C", 6), Note("B#", 5), Note("C#", 6), Note("C", 9)):
            cases.append((inst, n))
    return {"rule": "4 instruments (one with a narrow custom range) x 60 seeded containers of 0..4 notes in any order, with the out-of-"
                    "range note in any position, + single notes around the range ends (B#/Cb spellings)", "cases": cases}
