"""A small, independent reader of the MusicXML (score-partwise) subset written by mingus.extra.musicxml.

Uses xml.etree (expat) only; shares no code with the library.  `parse(text)` raises
xml.etree.ElementTree.ParseError when the text is not well-formed XML and MxmlError when the document is not a
score-partwise document.  Numbers are returned as the *text* found (stripped); the caller converts them
(`num()` gives an exact Fraction for any XML decimal such as '16.0').

    parse(text) -> {
      'title': str | None, 'creators': [(type, text)],
      'part_list': [{'id', 'name', 'instruments': [{'id', 'name'}], 'midi': [{'id','channel','program'}]}],
      'parts': [{'id', 'measures': [{
            'number': str | None,
            'attributes': [{'divisions','fifths','mode','beats','beat_type','clef'}],   # one dict per <attributes>
            'notes': [{'rest': bool, 'step','alter','octave', 'chord': bool, 'dots': int, 'duration': str | None,
                       'durations': int, 'type': str | None, 'time_modification': (actual, normal) | None}]}]}]}
"""
from fractions import Fraction
import xml.etree.ElementTree as ET

ParseError = ET.ParseError


class MxmlError(Exception):
    pass


def _text(el, path, strip=True):
    if el is None:
        return None
    c = el.find(path)
    if c is None:
        return None
    t = c.text if c.text is not None else ""
    return t.strip() if strip else t


def num(text):
    """exact value of an XML decimal / integer literal"""
    if text is None:
        raise MxmlError("missing number")
    t = text.strip()
    try:
        return Fraction(t)
    except (ValueError, ZeroDivisionError):
        raise MxmlError("not a number: %r" % (text,))


def parse(text):
    root = ET.fromstring(text)
    if root.tag != "score-partwise":
        raise MxmlError("root element is %r" % root.tag)
    out = {"title": _text(root, "movement-title", strip=False), "creators": [], "part_list": [], "parts": [],
           "n_part_lists": len(root.findall("part-list"))}
    for c in root.findall("identification/creator"):
        out["creators"].append((c.get("type"), c.text if c.text is not None else ""))
    for sp in root.findall("part-list/score-part"):
        out["part_list"].append({
            "id": sp.get("id"),
            "name": _text(sp, "part-name", strip=False),
            "instruments": [{"id": si.get("id"), "name": _text(si, "instrument-name", strip=False)}
                            for si in sp.findall("score-instrument")],
            "midi": [{"id": mi.get("id"), "channel": _text(mi, "midi-channel"), "program": _text(mi, "midi-program")}
                     for mi in sp.findall("midi-instrument")]})
    for p in root.findall("part"):
        part = {"id": p.get("id"), "measures": []}
        for child in p:
            if child.tag != "measure":
                raise MxmlError("unexpected <%s> in <part>" % child.tag)
            m = {"number": child.get("number"), "attributes": [], "notes": []}
            for e in child:
                if e.tag == "attributes":
                    clef = e.find("clef")
                    m["attributes"].append({
                        "divisions": _text(e, "divisions"), "fifths": _text(e, "key/fifths"),
                        "mode": _text(e, "key/mode"), "beats": _text(e, "time/beats"),
                        "beat_type": _text(e, "time/beat-type"),
                        "n_keys": len(e.findall("key")), "n_times": len(e.findall("time")),
                        "clef": None if clef is None else (_text(clef, "sign"), _text(clef, "line"))})
                elif e.tag == "note":
                    pitch = e.find("pitch")
                    tm = e.find("time-modification")
                    m["notes"].append({
                        "rest": e.find("rest") is not None,
                        "has_pitch": pitch is not None,
                        "n_pitch": len(e.findall("pitch")),
                        "step": _text(pitch, "step"), "alter": _text(pitch, "alter"), "octave": _text(pitch, "octave"),
                        "chord": e.find("chord") is not None,
                        "dots": len(e.findall("dot")),
                        "duration": _text(e, "duration"),
                        "durations": len(e.findall("duration")),
                        "type": _text(e, "type"),
                        "time_modification": None if tm is None else (_text(tm, "actual-notes"),
                                                                       _text(tm, "normal-notes"))})
                else:
                    raise MxmlError("unexpected <%s> in <measure>" % e.tag)
            part["measures"].append(m)
        out["parts"].append(part)
    return out
