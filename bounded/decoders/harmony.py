"""Independent model of note spelling, chord structures, chord names, keys and roman numerals.

Oracle for the bounded drivers C07 / C08.  Nothing in here imports the library: every table is written down from
music theory and from the *documentation* (doc strings) of mingus.core.chords / progressions, all arithmetic is
plain (non-modular) interval arithmetic on (letter, accidental) pairs.
"""
LETTERS = "CDEFGAB"
BASE = {"C": 0, "D": 2, "E": 4, "F": 5, "G": 7, "A": 9, "B": 11}


# ---------------------------------------------------------------- notes
def is_name(s):
    return isinstance(s, str) and len(s) >= 1 and s[0] in BASE and all(c in "#b" for c in s[1:])


def net(name):
    return name[1:].count("#") - name[1:].count("b")


def pc(name):
    return (BASE[name[0]] + net(name)) % 12


def mk(letter, a):
    return letter + ("#" * a if a >= 0 else "b" * (-a))


def shift(name, k):
    """same letter, k semitones higher (canonical accidentals)"""
    return mk(name[0], net(name) + k)


def natdist(l1, l2):
    """semitones from natural letter l1 up to natural letter l2 (0 for the same letter)"""
    return (BASE[l2] - BASE[l1]) % 12


def above(name, degree, semis):
    """the note `degree` letters above `name` (1 = same letter, 2 = next letter ...) sounding `semis` semitones
    higher.  More than six accidentals are respelled the other way round (12 semitones), as the library documents."""
    l2 = LETTERS[(LETTERS.index(name[0]) + degree - 1) % 7]
    a = net(name) + semis - natdist(name[0], l2)
    while a > 6:
        a -= 12
    while a < -6:
        a += 12
    return mk(l2, a)


def names(max_acc):
    out = []
    for l in LETTERS:
        out.append(l)
        for k in range(1, max_acc + 1):
            out.append(l + "#" * k)
            out.append(l + "b" * k)
    return out


# ---------------------------------------------------------------- intervals (two-note answer of determine)
NUMBER = ["unison", "second", "third", "fourth", "fifth", "sixth", "seventh"]
MAJOR = [0, 2, 4, 5, 7, 9, 11]


def interval_number(a, b):
    return (LETTERS.index(b[0]) - LETTERS.index(a[0])) % 7


def interval_true_offset(a, b):
    """(number 0..6, signed semitone offset from the major/perfect interval) without any modular wrap"""
    n = interval_number(a, b)
    semis = natdist(a[0], b[0]) + net(b) - net(a)
    return n, semis - MAJOR[n]


def interval_name(a, b):
    """long interval name, or None where the true size leaves 0..11 semitones (the name is then a matter of taste)"""
    n, off = interval_true_offset(a, b)
    if n == 0:
        q = "major" if off == 0 else "augmented" if off > 0 else "minor" if off == -1 else "diminished"
        return q + " unison"
    if not 0 <= MAJOR[n] + off <= 11:
        return None
    if off == 0:
        q = "perfect" if n in (3, 4) else "major"
    elif off > 0:
        q = "augmented"
    elif off == -1:
        q = "minor"
    else:
        q = "diminished"
    return q + " " + NUMBER[n]


# ---------------------------------------------------------------- chord structures
# structure = list of (degree, semitones above the root); ninths/elevenths/thirteenths as 2nd/4th/6th letters
_T = {
    "1": (1, 0), "b2": (2, 1), "2": (2, 2), "#2": (2, 3), "b3": (3, 3), "3": (3, 4), "4": (4, 5), "#4": (4, 6),
    "b5": (5, 6), "5": (5, 7), "#5": (5, 8), "6": (6, 9), "bb7": (7, 9), "b7": (7, 10), "7": (7, 11),
}


def _s(text):
    return tuple(_T[t] for t in text.split())


STRUCT = {
    "minor triad": _s("1 b3 5"),
    "major triad": _s("1 3 5"),
    "diminished triad": _s("1 b3 b5"),
    "augmented triad": _s("1 3 #5"),
    "augmented minor seventh": _s("1 3 #5 b7"),
    "augmented major seventh": _s("1 3 #5 7"),
    "suspended seventh": _s("1 4 5 b7"),
    "suspended fourth triad": _s("1 4 5"),
    "suspended second triad": _s("1 2 5"),
    "eleventh": _s("1 5 b7 4"),
    "suspended fourth ninth": _s("1 4 5 b2"),
    "minor seventh": _s("1 b3 5 b7"),
    "major seventh": _s("1 3 5 7"),
    "dominant seventh": _s("1 3 5 b7"),
    "half diminished seventh": _s("1 b3 b5 b7"),
    "diminished seventh": _s("1 b3 b5 bb7"),
    "minor/major seventh": _s("1 b3 5 7"),
    "minor sixth": _s("1 b3 5 6"),
    "major sixth": _s("1 3 5 6"),
    "dominant sixth": _s("1 3 5 6 b7"),
    "sixth ninth": _s("1 3 5 6 2"),
    "dominant ninth": _s("1 3 5 b7 2"),
    "dominant flat ninth": _s("1 3 5 b7 b2"),
    "dominant sharp ninth": _s("1 3 5 b7 #2"),
    "major ninth": _s("1 3 5 7 2"),
    "minor ninth": _s("1 b3 5 b7 2"),
    "lydian dominant seventh": _s("1 3 5 b7 #4"),
    "minor eleventh": _s("1 b3 5 b7 4"),
    "major thirteenth": _s("1 3 5 7 2 6"),
    "minor thirteenth": _s("1 b3 5 b7 2 6"),
    "dominant thirteenth": _s("1 3 5 b7 2 6"),
    "dominant flat five": _s("1 3 b5 b7"),
    "hendrix chord": _s("1 3 5 b7 b3"),
    "perfect fifth": _s("1 5"),
}

# documented shorthand -> description (doc string of chords.from_shorthand + the module's list of builders)
SHORTHAND = {
    "m": "minor triad", "M": "major triad", "": "major triad", "dim": "diminished triad",
    "aug": "augmented triad", "+": "augmented triad",
    "7#5": "augmented minor seventh", "M7+5": "augmented minor seventh", "m7+": "augmented minor seventh",
    "M7+": "augmented major seventh", "7+": "augmented major seventh",
    "sus47": "suspended seventh", "7sus4": "suspended seventh",
    "sus4": "suspended fourth triad", "sus": "suspended fourth triad", "sus2": "suspended second triad",
    "11": "eleventh", "add11": "eleventh",
    "sus4b9": "suspended fourth ninth", "susb9": "suspended fourth ninth",
    "m7": "minor seventh", "M7": "major seventh", "7": "dominant seventh", "dom7": "dominant seventh",
    "m7b5": "half diminished seventh", "dim7": "diminished seventh",
    "m/M7": "minor/major seventh", "mM7": "minor/major seventh",
    "m6": "minor sixth", "M6": "major sixth", "6": "major sixth",
    "6/7": "dominant sixth", "67": "dominant sixth", "6/9": "sixth ninth", "69": "sixth ninth",
    "9": "dominant ninth", "add9": "dominant ninth", "7b9": "dominant flat ninth", "7#9": "dominant sharp ninth",
    "M9": "major ninth", "m9": "minor ninth", "7#11": "lydian dominant seventh", "m11": "minor eleventh",
    "M13": "major thirteenth", "m13": "minor thirteenth", "13": "dominant thirteenth", "add13": "dominant thirteenth",
    "7b5": "dominant flat five", "hendrix": "hendrix chord", "7b12": "hendrix chord", "5": "perfect fifth",
}

# names the recogniser can produce that the documentation does not list; known to the model so that a library
# that learns to build / describe them is not reported
EXTRA_STRUCT = {"major eleventh": _s("1 3 5 7 2 4")}
EXTRA_SHORTHAND = {"M11": "major eleventh"}

ORDINALS = ["", "first", "second", "third", "fourth", "fifth", "sixth"]


def structure_of_description(desc):
    return STRUCT.get(desc) or EXTRA_STRUCT.get(desc)


def structure_of_shorthand(suffix):
    d = SHORTHAND.get(suffix)
    if d is None:
        d = EXTRA_SHORTHAND.get(suffix)
    return None if d is None else structure_of_description(d)


def build(root, structure):
    return [above(root, d, s) for (d, s) in structure]


def build_shorthand(root, suffix):
    st = structure_of_shorthand(suffix)
    return None if st is None else build(root, st)


def split_name(name):
    """'C#m7' -> ('C#', 'm7'); None if it does not start with a note name"""
    if not name or name[0] not in BASE:
        return None
    i = 1
    while i < len(name) and name[i] in "#b":
        i += 1
    return name[:i], name[i:]


def parse_long(text):
    """'C# minor seventh, second inversion' -> ('C#', 'minor seventh', 2); None if not of that form"""
    if not isinstance(text, str) or " " not in text:
        return None
    root, rest = text.split(" ", 1)
    if not is_name(root):
        return None
    inv = 0
    if ", " in rest:
        rest, tail = rest.split(", ", 1)
        w = tail.split(" ")
        if len(w) != 2 or w[1] != "inversion" or w[0] not in ORDINALS[1:]:
            return None
        inv = ORDINALS.index(w[0])
    return root, rest, inv


# ---------------------------------------------------------------- keys
MAJOR_STEPS = (2, 2, 1, 2, 2, 2, 1)
MINOR_STEPS = (2, 1, 2, 2, 1, 2, 2)


def major_keys():
    up, down = ["C"], ["C"]
    for _ in range(7):
        up.append(above(up[-1], 5, 7))
        down.append(above(down[-1], 4, 5))
    return list(reversed(down[1:])) + up


def minor_keys():
    return [(lambda n: n[0].lower() + n[1:])(above(k, 6, 9)) for k in major_keys()]


def all_keys():
    return major_keys() + minor_keys()


_KEY_NOTES = {}
_DENOTE = {}


def key_notes(key):
    if key not in _KEY_NOTES:
        _KEY_NOTES[key] = tuple(_key_notes(key))
    return list(_KEY_NOTES[key])


def _key_notes(key):
    tonic = key[0].upper() + key[1:]
    steps = MINOR_STEPS if key[0].islower() else MAJOR_STEPS
    out, semis = [tonic], 0
    for d in range(1, 7):
        semis += steps[d - 1]
        out.append(above(tonic, d + 1, semis))
    return out


def diatonic(key, degree, size):
    """stack of `size` thirds on the degree (0..6) inside the key's notes"""
    ns = key_notes(key)
    return [ns[(degree + 2 * i) % 7] for i in range(size)]


# ---------------------------------------------------------------- roman numerals
NUMERALS = ["I", "II", "III", "IV", "V", "VI", "VII"]
FUNCTIONS = ["tonic", "supertonic", "mediant", "subdominant", "dominant", "submediant", "subtonic"]


def prefix(acc):
    return "#" * acc if acc >= 0 else "b" * (-acc)


def parse_numeral(s):
    """'bbVIIdim7' -> (-2, 'VII', 'dim7'); the numeral keeps its case"""
    i = 0
    while i < len(s) and s[i] in "#b":
        i += 1
    j = i
    while j < len(s) and s[j] in "IViv":
        j += 1
    return s[:i].count("#") - s[:i].count("b"), s[i:j], s[j:]


def denote_numeral(s, key):
    """chord denoted by a numeral string in a key; None if the numeral or the suffix is not known"""
    if (s, key) not in _DENOTE:
        d = _denote_numeral(s, key)
        _DENOTE[(s, key)] = None if d is None else tuple(d)
    d = _DENOTE[(s, key)]
    return None if d is None else list(d)


def _denote_numeral(s, key):
    acc, roman, suffix = parse_numeral(s)
    if roman.upper() not in NUMERALS:
        return None
    deg = NUMERALS.index(roman.upper())
    if suffix == "":
        ch = diatonic(key, deg, 3)
    elif suffix == "7":
        ch = diatonic(key, deg, 4)
    else:
        ch = build_shorthand(key_notes(key)[deg], suffix)
        if ch is None:
            return None
    return [shift(n, acc) for n in ch]
