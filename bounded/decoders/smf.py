"""Independent Standard MIDI File reader / writer used as oracle by the bounded drivers C16 and C17.

Written from the SMF 1.0 specification only; imports nothing from mingus.

    smf = parse(data)                      # strict; raises SMFError(clause, message) on any ill-formedness
    smf.format, smf.ntrks, smf.division, smf.tracks  (list of Track; Track.events list of Event)
    Event: tick (absolute), delta, kind in {"note_on","note_off","poly_pressure","control","program",
           "channel_pressure","pitch_bend","meta","sysex"}, channel, a, b (data bytes), meta_type, data
    vlq(n)                                 # the standard variable-length encoding of 0 <= n < 2**28
    read_vlq(data, pos, end) -> (value, newpos)
    build(format, division, tracks)        # independent writer (tracks = list of lists of (delta, bytes-of-event))

`clause` of an SMFError names what is wrong: "header", "track-count", "chunk-length", "end-of-track",
"delta-time", "event".
"""
import struct


class SMFError(Exception):
    def __init__(self, clause, message):
        Exception.__init__(self, "%s: %s" % (clause, message))
        self.clause = clause
        self.message = message


def vlq(n):
    """standard variable-length quantity: 7 bits per byte, most significant group first, bit 7 set on all but the
    last byte; the shortest such form"""
    if not (isinstance(n, int) and 0 <= n < (1 << 28)):
        raise ValueError("not representable as a MIDI variable-length quantity: %r" % (n,))
    groups = [n & 0x7F]
    n >>= 7
    while n:
        groups.append((n & 0x7F) | 0x80)
        n >>= 7
    return bytes(reversed(groups))


def read_vlq(data, pos, end=None):
    """-> (value, position after it); at most 4 bytes, must end inside data[:end]"""
    if end is None:
        end = len(data)
    value = 0
    for i in range(4):
        if pos >= end:
            raise SMFError("delta-time", "variable-length quantity runs past the end of the chunk at byte %d" % pos)
        b = data[pos]
        pos += 1
        value = (value << 7) | (b & 0x7F)
        if not b & 0x80:
            return value, pos
    raise SMFError("delta-time", "variable-length quantity longer than 4 bytes at byte %d" % (pos - 4))


class Event(object):
    __slots__ = ("tick", "delta", "kind", "channel", "a", "b", "meta_type", "data", "offset")

    def __init__(self, tick, delta, kind, channel=None, a=None, b=None, meta_type=None, data=None, offset=None):
        self.tick, self.delta, self.kind, self.channel = tick, delta, kind, channel
        self.a, self.b, self.meta_type, self.data, self.offset = a, b, meta_type, data, offset

    def __repr__(self):
        if self.kind == "meta":
            return "<%d +%d meta %02x %s>" % (self.tick, self.delta, self.meta_type, self.data.hex())
        if self.kind == "sysex":
            return "<%d +%d sysex %s>" % (self.tick, self.delta, self.data.hex())
        return "<%d +%d %s ch%d %r %r>" % (self.tick, self.delta, self.kind, self.channel, self.a, self.b)


class Track(object):
    def __init__(self, events, declared_length, offset):
        self.events, self.declared_length, self.offset = events, declared_length, offset

    def metas(self, meta_type):
        return [e for e in self.events if e.kind == "meta" and e.meta_type == meta_type]

    def of(self, kind):
        return [e for e in self.events if e.kind == kind]


class SMF(object):
    def __init__(self, fmt, ntrks, division, header_length, tracks):
        self.format, self.ntrks, self.division, self.header_length, self.tracks = \
            fmt, ntrks, division, header_length, tracks


_CHANNEL = {0x8: ("note_off", 2), 0x9: ("note_on", 2), 0xA: ("poly_pressure", 2), 0xB: ("control", 2),
            0xC: ("program", 1), 0xD: ("channel_pressure", 1), 0xE: ("pitch_bend", 2)}

# meta events with a length fixed by the specification
_META_LEN = {0x00: (0, 2), 0x20: (1,), 0x21: (1,), 0x2F: (0,), 0x51: (3,), 0x54: (5,), 0x58: (4,), 0x59: (2,)}


def _parse_track(data, start, end, index):
    pos = start
    tick = 0
    events = []
    running = None
    ended = False
    while pos < end:
        if ended:
            raise SMFError("end-of-track", "track %d: %d byte(s) follow the end-of-track event" % (index, end - pos))
        at = pos
        delta, pos = read_vlq(data, pos, end)
        tick += delta
        if pos >= end:
            raise SMFError("event", "track %d: delta time at byte %d is not followed by an event" % (index, at))
        status = data[pos]
        if status & 0x80:
            pos += 1
        else:
            if running is None:
                raise SMFError("event", "track %d: data byte 0x%02x at byte %d where a status byte is required"
                               % (index, status, pos))
            status = running
        if status == 0xFF:
            running = None
            if pos >= end:
                raise SMFError("event", "track %d: meta event truncated at byte %d" % (index, pos))
            mtype = data[pos]
            pos += 1
            if mtype & 0x80:
                raise SMFError("event", "track %d: meta type 0x%02x >= 0x80 at byte %d" % (index, mtype, pos - 1))
            try:
                length, pos = read_vlq(data, pos, end)
            except SMFError as e:
                raise SMFError("event", "track %d: meta length: %s" % (index, e.message))
            if pos + length > end:
                raise SMFError("event", "track %d: meta event 0x%02x of length %d at byte %d runs past the chunk"
                               % (index, mtype, length, at))
            payload = bytes(data[pos:pos + length])
            pos += length
            if mtype in _META_LEN and length not in _META_LEN[mtype]:
                raise SMFError("event", "track %d: meta event 0x%02x has length %d, the format requires %s"
                               % (index, mtype, length, "/".join(map(str, _META_LEN[mtype]))))
            if mtype == 0x51 and int.from_bytes(payload, "big") == 0:
                raise SMFError("event", "track %d: tempo of 0 microseconds per quarter" % index)
            if mtype == 0x58 and payload[0] == 0:
                raise SMFError("event", "track %d: time signature with numerator 0" % index)
            if mtype == 0x59:
                sf = payload[0] - 256 if payload[0] > 127 else payload[0]
                if not -7 <= sf <= 7 or payload[1] not in (0, 1):
                    raise SMFError("event", "track %d: key signature sf=%d mi=%d outside -7..7 / 0..1"
                                   % (index, sf, payload[1]))
            events.append(Event(tick, delta, "meta", meta_type=mtype, data=payload, offset=at))
            if mtype == 0x2F:
                ended = True
        elif status in (0xF0, 0xF7):
            running = None
            try:
                length, pos = read_vlq(data, pos, end)
            except SMFError as e:
                raise SMFError("event", "track %d: sysex length: %s" % (index, e.message))
            if pos + length > end:
                raise SMFError("event", "track %d: sysex event at byte %d runs past the chunk" % (index, at))
            events.append(Event(tick, delta, "sysex", data=bytes(data[pos:pos + length]), a=status, offset=at))
            pos += length
        elif status >= 0xF0:
            raise SMFError("event", "track %d: status byte 0x%02x at byte %d is not allowed in a file"
                           % (index, status, at))
        else:
            running = status
            kind, n = _CHANNEL[status >> 4]
            if pos + n > end:
                raise SMFError("event", "track %d: %s event at byte %d runs past the chunk" % (index, kind, at))
            params = data[pos:pos + n]
            pos += n
            for p in params:
                if p & 0x80:
                    raise SMFError("event", "track %d: %s event at byte %d has data byte 0x%02x >= 0x80"
                                   % (index, kind, at, p))
            events.append(Event(tick, delta, kind, channel=status & 0x0F, a=params[0],
                                b=params[1] if n == 2 else None, offset=at))
    if not ended:
        raise SMFError("end-of-track", "track %d does not end in an end-of-track event (FF 2F 00)" % index)
    return events


def parse(data):
    data = bytes(data)
    if len(data) < 14:
        raise SMFError("header", "file of %d bytes is shorter than a header chunk" % len(data))
    if data[0:4] != b"MThd":
        raise SMFError("header", "file does not start with MThd: %r" % data[0:4])
    hlen = struct.unpack(">I", data[4:8])[0]
    if hlen != 6:
        raise SMFError("header", "header length %d, expected 6" % hlen)
    fmt, ntrks, division = struct.unpack(">HHH", data[8:14])
    if fmt not in (0, 1, 2):
        raise SMFError("header", "format %d" % fmt)
    if division == 0:
        raise SMFError("header", "division 0")
    pos = 14
    tracks = []
    while pos < len(data):
        if pos + 8 > len(data):
            raise SMFError("chunk-length", "%d stray byte(s) after the last chunk" % (len(data) - pos))
        tag = data[pos:pos + 4]
        length = struct.unpack(">I", data[pos + 4:pos + 8])[0]
        if tag == b"MThd":
            raise SMFError("header", "second header chunk at byte %d" % pos)
        if tag != b"MTrk":
            raise SMFError("chunk-length", "chunk tag %r at byte %d (a length field that does not match its "
                                           "content makes the next tag land here)" % (tag, pos))
        body = pos + 8
        if body + length > len(data):
            raise SMFError("chunk-length", "track %d declares %d bytes but only %d remain"
                           % (len(tracks), length, len(data) - body))
        events = _parse_track(data, body, body + length, len(tracks))
        tracks.append(Track(events, length, pos))
        pos = body + length
    if ntrks != len(tracks):
        raise SMFError("track-count", "header declares %d track(s), %d track chunk(s) follow" % (ntrks, len(tracks)))
    if fmt == 0 and ntrks != 1:
        raise SMFError("track-count", "format 0 with %d tracks" % ntrks)
    return SMF(fmt, ntrks, division, hlen, tracks)


# ---------------------------------------------------------------- independent writer (for reader-side tests)
def meta(mtype, payload):
    return b"\xff" + bytes([mtype]) + vlq(len(payload)) + bytes(payload)


def build(fmt, division, tracks, end_of_track=True):
    """tracks: list of lists of (delta, event-bytes-without-delta)"""
    out = b"MThd" + struct.pack(">IHHH", 6, fmt, len(tracks), division)
    for evs in tracks:
        body = b"".join(vlq(d) + e for d, e in evs)
        if end_of_track:
            body += b"\x00\xff\x2f\x00"
        out += b"MTrk" + struct.pack(">I", len(body)) + body
    return out
