"""A small, independent reader of the LilyPond subset written by mingus.extra.lilypond.

It is written from the LilyPond notation reference (absolute octave entry, Dutch note names, `\\times n/m { }`,
`\\key pitch \\mode`, `\\time n/m`, `\\header { field = "string" }`), not from the exporter, and it shares no code
with the library.  Anything outside the subset raises LyError.

    parse(text) -> Score(header: dict or None, blocks: [Block])

Tree nodes
    Block(items)                       `{ ... }` sequential music
    Times(num, den, items)             `\\times num/den { ... }` (or `\\tuplet den/num { ... }`): inner durations are
                                       multiplied by num/den
    Key(letter, alter, mode)           `\\key bes \\minor`  -> ('B', -1, 'minor')
    Time(num, den)                     `\\time 6/8`
    Event(pitches, base, dots)         note (1 pitch), chord (`< ... >`, >= 1 pitch) or rest (pitches is None);
                                       pitch = (letter 'A'..'G', alter -2..2, octave int) with c' = octave 4;
                                       base = Fraction denominator of the written duration as a Fraction
                                       (1, 2, 4 ... 128, Fraction(1, 2) for \\breve, Fraction(1, 4) for \\longa)
                                       or None when no duration is written; dots = number of '.'
"""
from fractions import Fraction

__all__ = ["parse", "LyError", "Score", "Block", "Times", "Key", "Time", "Event", "flatten"]


class LyError(Exception):
    pass


class Score(object):
    def __init__(self, header, blocks):
        self.header, self.blocks = header, blocks


class Block(object):
    def __init__(self, items):
        self.items = items

    def __repr__(self):
        return "Block(%r)" % (self.items,)


class Times(object):
    def __init__(self, num, den, items):
        self.num, self.den, self.items = num, den, items

    def __repr__(self):
        return "Times(%d/%d, %r)" % (self.num, self.den, self.items)


class Key(object):
    def __init__(self, letter, alter, mode):
        self.letter, self.alter, self.mode = letter, alter, mode

    def __repr__(self):
        return "Key(%s%+d %s)" % (self.letter, self.alter, self.mode)


class Time(object):
    def __init__(self, num, den):
        self.num, self.den = num, den

    def __repr__(self):
        return "Time(%d/%d)" % (self.num, self.den)


class Event(object):
    def __init__(self, pitches, base, dots, chord):
        self.pitches, self.base, self.dots, self.chord = pitches, base, dots, chord

    def __repr__(self):
        return "Event(%r, %r, %r)" % (self.pitches, self.base, self.dots)


# Dutch note names (LilyPond default language "nederlands"), semitone alterations only.
NOTE_NAMES = {}
for _i, _l in enumerate("cdefgab"):
    for _suffix, _alter in (("", 0), ("is", 1), ("isis", 2), ("es", -1), ("eses", -2)):
        NOTE_NAMES[_l + _suffix] = (_l.upper(), _alter)
# the contracted forms that LilyPond also defines
NOTE_NAMES.update({"es": ("E", -1), "eses": ("E", -2), "as": ("A", -1), "ases": ("A", -2)})

MODES = ("major", "minor", "ionian", "dorian", "phrygian", "lydian", "mixolydian", "aeolian", "locrian")
DURATION_NUMBERS = (1, 2, 4, 8, 16, 32, 64, 128)
LETTERS = "abcdefghijklmnopqrstuvwxyz"


class _P(object):
    def __init__(self, text):
        self.s, self.i = text, 0

    def err(self, msg):
        raise LyError("%s at offset %d: ...%r" % (msg, self.i, self.s[max(0, self.i - 15):self.i + 25]))

    def ws(self):
        s = self.s
        while self.i < len(s) and s[self.i] in " \t\r\n":
            self.i += 1

    def eof(self):
        self.ws()
        return self.i >= len(self.s)

    def peek(self):
        self.ws()
        return self.s[self.i] if self.i < len(self.s) else ""

    def expect(self, ch):
        if self.peek() != ch:
            self.err("expected %r" % ch)
        self.i += 1

    def word(self):
        """letters directly at the cursor (no whitespace skipped)"""
        j = self.i
        while j < len(self.s) and self.s[j] in LETTERS + LETTERS.upper():
            j += 1
        w = self.s[self.i:j]
        self.i = j
        return w

    def integer(self):
        j = self.i
        while j < len(self.s) and self.s[j] in "0123456789":
            j += 1
        if j == self.i:
            self.err("expected an integer")
        v = int(self.s[self.i:j])
        self.i = j
        return v

    def command(self):
        """`\\name` at the cursor -> name"""
        if self.i >= len(self.s) or self.s[self.i] != "\\":
            self.err("expected a command")
        self.i += 1
        w = self.word()
        if not w:
            self.err("empty command name")
        return w

    def fraction(self):
        self.ws()
        n = self.integer()
        if self.i >= len(self.s) or self.s[self.i] != "/":
            self.err("expected '/'")
        self.i += 1
        d = self.integer()
        return n, d

    def string(self):
        self.expect('"')
        out = []
        s = self.s
        while True:
            if self.i >= len(s):
                self.err("unterminated string")
            ch = s[self.i]
            if ch == '"':
                self.i += 1
                return "".join(out)
            if ch == "\\":
                if self.i + 1 >= len(s):
                    self.err("unterminated string")
                nx = s[self.i + 1]
                out.append({"n": "\n", "t": "\t"}.get(nx, nx))   # \" -> ", \\ -> \
                self.i += 2
                continue
            out.append(ch)
            self.i += 1

    # ---- grammar
    def score(self):
        header = None
        blocks = []
        while not self.eof():
            ch = self.peek()
            if ch == "\\":
                save = self.i
                name = self.command()
                if name == "version":
                    self.ws()
                    self.string()
                    continue
                if name != "header":
                    self.i = save
                    self.err("unexpected top-level command \\%s" % name)
                if header is not None:
                    self.err("second \\header")
                header = self.header()
            elif ch == "{":
                blocks.append(self.block())
            else:
                self.err("unexpected top-level text")
        return Score(header, blocks)

    def header(self):
        self.expect("{")
        fields = {}
        while True:
            ch = self.peek()
            if ch == "}":
                self.i += 1
                return fields
            name = self.word()
            if not name:
                self.err("expected a header field name")
            self.expect("=")
            self.ws()
            val = self.string()
            if name in fields:
                self.err("header field %s given twice" % name)
            fields[name] = val

    def block(self):
        self.expect("{")
        return Block(self.items())

    def items(self):
        """items up to and including the closing brace"""
        out = []
        while True:
            ch = self.peek()
            if ch == "":
                self.err("missing '}'")
            if ch == "}":
                self.i += 1
                return out
            if ch == "{":
                out.append(self.block())
            elif ch == "\\":
                name = self.command()
                if name == "time":
                    n, d = self.fraction()
                    if n < 1 or d not in DURATION_NUMBERS:
                        self.err("bad time signature %d/%d" % (n, d))
                    out.append(Time(n, d))
                elif name == "key":
                    self.ws()
                    w = self.word()
                    if w not in NOTE_NAMES:
                        self.err("unknown note name %r in \\key" % w)
                    if self.i < len(self.s) and self.s[self.i] in "',":
                        self.err("octave mark in \\key")
                    self.ws()
                    mode = self.command()
                    if mode not in MODES:
                        self.err("unknown mode \\%s" % mode)
                    out.append(Key(NOTE_NAMES[w][0], NOTE_NAMES[w][1], mode))
                elif name == "times":
                    n, d = self.fraction()
                    if n < 1 or d < 1:
                        self.err("bad \\times fraction")
                    self.expect("{")
                    out.append(Times(n, d, self.items()))
                elif name == "tuplet":
                    # modern spelling: \tuplet 3/2 { } == \times 2/3 { }
                    n, d = self.fraction()
                    if n < 1 or d < 1:
                        self.err("bad \\tuplet fraction")
                    self.expect("{")
                    out.append(Times(d, n, self.items()))
                else:
                    self.err("command \\%s is not in the subset" % name)
            elif ch == "<":
                self.i += 1
                ps = []
                while True:
                    c2 = self.peek()
                    if c2 == ">":
                        self.i += 1
                        break
                    ps.append(self.pitch())
                if not ps:
                    self.err("empty chord")
                base, dots = self.duration()
                out.append(Event(ps, base, dots, True))
            elif ch in LETTERS:
                save = self.i
                w = self.word()
                if w == "r":
                    base, dots = self.duration()
                    out.append(Event(None, base, dots, False))
                else:
                    self.i = save
                    p = self.pitch()
                    base, dots = self.duration()
                    out.append(Event([p], base, dots, False))
            else:
                self.err("unexpected character %r" % ch)

    def pitch(self):
        self.ws()
        w = self.word()
        if w not in NOTE_NAMES:
            self.err("unknown note name %r" % w)
        letter, alter = NOTE_NAMES[w]
        s = self.s
        up = down = 0
        while self.i < len(s) and s[self.i] == "'":
            up += 1
            self.i += 1
        while self.i < len(s) and s[self.i] == ",":
            down += 1
            self.i += 1
        if up and down:
            self.err("mixed octave marks")
        if self.i < len(s) and s[self.i] == "'":
            self.err("mixed octave marks")
        # absolute octave entry: c is the C below middle C (octave 3); c' is middle C (octave 4)
        return (letter, alter, 3 + up - down)

    def duration(self):
        """optional duration directly attached to the note/chord/rest"""
        s = self.s
        base = None
        if self.i < len(s) and s[self.i] in "0123456789":
            n = self.integer()
            if n not in DURATION_NUMBERS:
                self.err("bad duration %d" % n)
            base = Fraction(n)
        elif self.i < len(s) and s[self.i] == "\\":
            save = self.i
            name = self.command()
            if name == "breve":
                base = Fraction(1, 2)
            elif name == "longa":
                base = Fraction(1, 4)
            elif name == "maxima":
                base = Fraction(1, 8)
            else:
                self.i = save
                self.err("command \\%s attached to a note" % name)
        dots = 0
        while self.i < len(s) and s[self.i] == ".":
            if base is None:
                self.err("dot without a duration")
            dots += 1
            self.i += 1
        if self.i < len(s) and s[self.i] not in " \t\r\n}>{":
            self.err("junk after a note")
        return base, dots


def parse(text):
    if not isinstance(text, str):
        raise LyError("not a string: %r" % (text,))
    return _P(text).score()


def flatten(items, factor=Fraction(1)):
    """Walk the items of one bar-level block.

    Returns (events, keys, times): events = [(Event, factor)] in order, factor = product of the enclosing
    \\times fractions; keys / times = [(Key|Time, number of events that precede it)].  Nested plain blocks are
    not allowed at this level (LyError)."""
    events, keys, times = [], [], []

    def walk(its, f):
        for it in its:
            if isinstance(it, Event):
                events.append((it, f))
            elif isinstance(it, Times):
                walk(it.items, f * Fraction(it.num, it.den))
            elif isinstance(it, Key):
                keys.append((it, len(events)))
            elif isinstance(it, Time):
                times.append((it, len(events)))
            else:
                raise LyError("nested block inside a bar: %r" % (it,))
    walk(items, factor)
    return events, keys, times
