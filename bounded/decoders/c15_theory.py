"""C15 helper: the fixed query universe over the public theory API (mingus.core.*), a canonical state form for
arbitrary values / objects, and the child-process entry point that runs `history -> battery` in a cold interpreter.

Nothing here computes an *expected musical value*: the oracle of C15 is equality of observations taken in
different interpreter states (cold / warm / after arbitrary histories), so only inputs are enumerated here.
No side effects at import time (mingus is imported lazily).
"""
import copy
import hashlib
import importlib
import inspect
import itertools
import json
import random

CORE_MODULES = ("notes", "intervals", "keys", "chords", "progressions", "scales", "meter", "value")

NAT = list("CDEFGAB")
NOTES = ["C", "D", "E", "F", "G", "A", "B", "C#", "Eb", "F#", "Ab", "Bb", "B#", "Cb", "E#", "Fb", "Gb", "D#",
         "A#", "Db", "G#", "Bbb", "F##", "Ebb", "C##"]
MAJ = ["Cb", "Gb", "Db", "Ab", "Eb", "Bb", "F", "C", "G", "D", "A", "E", "B", "F#", "C#"]
MIN = ["ab", "eb", "bb", "f", "c", "g", "d", "a", "e", "b", "f#", "c#", "g#", "d#", "a#"]
KEYS = MAJ + MIN
BADKEYS = ["H", "Fb", "x"]
SOMEKEYS = ["C", "G", "F#", "Eb", "a", "eb", "c#", "Cb"]
IVALS = ["1", "b2", "2", "b3", "3", "4", "#4", "b5", "5", "b6", "6", "bb7", "b7", "7", "##4", "x", "9"]
CHORDS = [[], ["C"], ["C", "G"], ["C", "E", "G"], ["A", "C", "E"], ["E", "G", "C"], ["C", "E", "A"], ["B", "D", "F"],
          ["C", "F", "G"], ["C", "E", "G#"], ["F#", "A#", "C#"], ["C", "E", "G", "B"], ["C", "E", "G", "Bb"],
          ["C", "Eb", "Gb", "Bbb"], ["A", "C", "E", "G"], ["E", "G", "B", "C"], ["G", "B", "D", "F"],
          ["C", "E", "G", "A"], ["C", "F", "G", "Bb"], ["G", "B", "D", "F", "A"], ["C", "E", "G", "B", "D"],
          ["C", "Eb", "G", "Bb", "D"], ["C", "E", "G", "Bb", "Eb"], ["D", "F#", "A", "C", "E"],
          ["C", "E", "G", "A", "D"], ["C", "E", "G", "B", "D", "F"], ["C", "E", "G", "Bb", "D", "A"],
          ["C", "Eb", "G", "Bb", "D", "F"], ["C", "E", "G", "B", "D", "F", "A"], ["C", "Eb", "G", "Bb", "D", "F", "A"],
          ["F", "A", "C", "E", "G", "B", "D", "F"], ["C", "E", "G", "X"], ["C", "E"]]
NUMERALS = ["I", "II", "III", "IV", "V", "VI", "VII"]
PROGS = [["I", "IV", "V", "I"], ["ii7", "V7", "I"], ["VIIdim7", "Im", "IVM7"], ["bIIIm7", "#IVdim", "VM"],
         ["VI", "II", "V7", "I7"], ["Idom7"], ["III", "VI7", "bVIIm"]]
SUFFIXES = ["", "7", "m", "M", "M7", "m7", "dim", "dim7", "dom7", "m7b5", "sus4", "6", "nope"]
METERS = [(4, 4), (3, 4), (6, 8), (5, 4), (7, 8), (2, 2), (0, 0), (9, 8), (12, 8), (3, 3), (1, 1), (4, 0), (13, 16)]
VALUES = [0.25, 0.5, 1, 2, 4, 8, 16, 32, 64, 128, 3, 6, 12, 24, 5, 10, 7, 14, 1.5, 2.6666666666666665,
          2.2857142857142856, 1000]
MEMO_NAMES = ["triads", "sevenths", "tonic", "tonic7", "supertonic", "supertonic7", "mediant", "mediant7",
              "subdominant", "subdominant7", "dominant", "dominant7", "submediant", "submediant7", "subtonic",
              "subtonic7", "I", "I7", "ii", "II", "ii7", "II7", "iii", "III", "iii7", "III7", "IV", "IV7", "V",
              "V7", "vi", "VI", "vi7", "VI7", "vii", "VII", "vii7", "VII7"]


def _pairs(xs, n):
    return [(a, b) for a in xs[:n] for b in xs[:n]]


def _args_for(mod, name, params):
    """representative argument tuples of one public function, chosen from its parameter names; None = unknown"""
    P = tuple(params)
    if mod == "notes":
        if P == ("note",):
            return [(n,) for n in NOTES + ["H", "c", "C#b", "Cb#b", "B####", "Dbbbbb"]]
        if P == ("note1", "note2"):
            return _pairs(NOTES, 14)
        if P == ("note_int", "accidentals"):
            return [(i, a) for i in range(-1, 13) for a in "#b"] + [(3, "x")]
    if mod == "intervals":
        if P == ("note",):
            return [(n,) for n in NOTES]
        if P == ("note", "key"):
            return [(n, k) for n in NAT for k in KEYS] + [("C#", "D"), ("H", "C"), ("C", "H"), ("Eb", "Bb")]
        if name == "interval":
            return [(k, n, i) for k in KEYS for n in ("C", "E", "G#", "Bb") for i in (0, 2, 4, 6, 9)]
        if name == "get_interval":
            return [(n, i, k) for n in NOTES[:12] for i in range(12) for k in ("C", "G", "F", "Eb")]
        if name == "from_shorthand":
            return [(n, i, up) for n in NOTES[:14] for i in IVALS for up in (True, False)]
        if name == "determine":
            return [(a, b, s) for (a, b) in _pairs(NOTES, 21) for s in (False, True)]
        if name == "augment_or_diminish_until_the_interval_is_right":
            return [(a, b, i) for (a, b) in _pairs(NOTES, 9) for i in (0, 1, 4, 6, 7, 11)]
        if name == "invert":
            return [([a, b],) for (a, b) in _pairs(NOTES, 8)] + [(["C", "E", "G"],), ([],)]
        if P == ("note1", "note2"):
            return _pairs(NOTES, 14)
        if P == ("note1", "note2", "include_fourths"):
            return [(a, b, f) for (a, b) in _pairs(NOTES, 12) for f in (True, False)]
    if mod == "keys":
        if P == ("key",):
            return [(k,) for k in KEYS + BADKEYS]
        if P == ("accidentals",):
            return [(i,) for i in range(-8, 9)]
    if mod == "chords":
        if P == ("note",):
            return [(n,) for n in NOTES[:18]]
        if P == ("key",):
            return [(k,) for k in KEYS + BADKEYS[:1]]
        if P == ("note", "key"):
            return [(n, k) for n in NAT for k in KEYS[::2]] + [("C#", "D"), ("H", "C")]
        if P == ("chord",):
            return [(c,) for c in CHORDS]
        if name == "from_shorthand":
            import mingus.core.chords as ch
            sf = sorted(ch.chord_shorthand.keys())
            out = [(r + s,) for r in ("C", "F#", "Bb") for s in sf]
            out += [(s,) for s in ("Amin7", "Cmaj7", "A-7", "Am/G", "C/E", "C/H", "Dm|G", "Am|Dm|G", "NC", "N.C.",
                                   "Cm/M7", "C6/9", "C6/7", "Hm", "Cfoo", "")]
            out += [(["Am", "C7", "Dm|G"],), ("Dm", "G"), ("Dm", ["G", "B", "D"]), ("C", ["C", "E", "G"])]
            return out
        if name == "int_desc":
            return [(i,) for i in range(0, 6)]
        if name == "determine_polychords":
            return [(c, s) for c in CHORDS for s in (False, True)]
        if name.startswith("determine"):
            flags = [(False, False, False), (True, False, False), (True, True, False), (False, False, True),
                     (True, True, True), (False, True, False)]
            return [(c,) + f for c in CHORDS for f in flags]
    if mod == "progressions":
        if name == "to_chords":
            out = [(p + n + s, k) for p in ("", "b", "#", "bb") for n in NUMERALS for s in SUFFIXES[:10]
                   for k in ("C", "F#", "eb")]
            out += [(n + s, k) for n in NUMERALS for s in ("", "7") for k in KEYS]
            out += [(p, k) for p in PROGS for k in SOMEKEYS] + [("X", "C"), (["I", "foo"], "C"), ("Inope", "C")]
            return out
        if name == "determine":
            cs = [c for c in CHORDS if 3 <= len(c) <= 5 and "X" not in c]
            out = [(c, k, s) for c in cs for k in ("C", "G", "F", "Eb", "A") for s in (False, True)]
            out += [([["C", "E", "G"], ["G", "B", "D"]], "C", True), ([["F", "A", "C"], ["G", "B", "D", "F"]], "C", False)]
            return out
        if name == "parse_string":
            return [(p + n + s,) for p in ("", "b", "#", "bb", "#b") for n in NUMERALS + ["", "iv", "Vi"] for s in SUFFIXES]
        if name == "tuple_to_string":
            return [((n, a, s),) for n in ("I", "IV", "VII") for a in range(-9, 10) for s in ("", "7", "dim")]
        if name == "substitute":
            return [(p, i, d) for p in PROGS for i in range(len(p)) for d in (0, 1, 2)]
        if name.startswith("substitute_"):
            return [(p, i, f) for p in PROGS for i in range(len(p)) for f in (False, True)]
        if name == "interval_diff":
            return [(a, b, i) for a in NUMERALS for b in NUMERALS for i in (1, 3, 8, 9)]
        if name == "skip":
            return [(n, c) for n in NUMERALS for c in range(0, 9)] + [("X", 1)]
    if mod == "scales":
        if name == "determine":
            return [(ns,) for ns in (["A", "Bb", "E", "F#", "G"], ["C", "D", "E"], ["C", "E", "G", "B"], [],
                                     ["F#", "G#", "A#"], ["C", "Db"], ["Eb", "F", "G", "Ab"])]
    if mod == "meter":
        if P == ("meter",):
            return [(m,) for m in METERS]
        if P == ("duration",):
            return [(d,) for d in (1, 2, 3, 4, 6, 8, 16, 32, 64, 128, 0, 5, 256)]
    if mod == "value":
        if P == ("value1", "value2"):
            return [(a, b) for a in VALUES[2:12] for b in VALUES[2:12]]
        if P == ("value",):
            return [(v,) for v in VALUES]
        if P == ("value", "nr"):
            return [(v, n) for v in VALUES[:12] for n in (0, 1, 2, 3)]
        if P == ("value", "in_fourths"):
            return [(v, f) for v in VALUES[:12] for f in (True, False)]
        if P == ("value", "rat1", "rat2"):
            return [(v, a, b) for v in VALUES[2:9] for (a, b) in ((3, 2), (5, 4), (7, 4), (7, 8), (2, 3))]
    return None


def _scale_queries():
    import mingus.core.scales as sc
    out = []
    names = sorted(n for n, c in vars(sc).items()
                   if inspect.isclass(c) and c.__module__ == sc.__name__ and not n.startswith("_"))
    for n in names:
        if n == "Chromatic":
            cargs = [(k, o) for k in KEYS for o in (1, 2)]
        elif n == "Diatonic":
            cargs = [(t, s, o) for t in ("C", "F#", "Bb", "E") for s in ((3, 7), (2, 6), (1, 4)) for o in (1, 2)]
        else:
            cargs = [(t, o) for t in ("C", "G", "F#", "Bb", "Eb", "A", "Cb", "e") for o in (1, 2, 3)]
        for ca in cargs:
            out.append(("scales", n, ca, "ascending", ()))
            out.append(("scales", n, ca, "descending", ()))
            out.append(("scales", n, ca, "__str__", ()))
            if ca[-1] == 1:
                out.append(("scales", n, ca, "name", ()))
                out.append(("scales", n, ca, "__len__", ()))
                for d in (1, 3, 6, 7, 0, 9):
                    for di in ("a", "d"):
                        out.append(("scales", n, ca, "degree", (d, di)))
    out += [("keys", "Key", (k,), a, ()) for k in KEYS + ["H"] for a in ("name", "signature", "mode")]
    return out


_UNIVERSE = None
UNCOVERED = []


def universe():
    """the fixed battery: every public function of mingus.core.* x representative arguments, and every public
    class x constructor arguments x query methods.  Entries: (mod, func, args) or (mod, cls, cargs, method, margs)."""
    global _UNIVERSE
    if _UNIVERSE is not None:
        return _UNIVERSE
    out = []
    del UNCOVERED[:]
    for m in CORE_MODULES:
        mod = importlib.import_module("mingus.core." + m)
        for n in sorted(vars(mod)):
            f = vars(mod)[n]
            if n.startswith("_") or not inspect.isfunction(f) or f.__module__ != mod.__name__:
                continue
            al = _args_for(m, n, list(inspect.signature(f).parameters))
            if al is None:
                UNCOVERED.append("%s.%s%s" % (m, n, inspect.signature(f)))
                continue
            for a in al:
                out.append((m, n, tuple(a)))
    out += _scale_queries()
    _UNIVERSE = out
    return out


def public_functions():
    res = []
    for m in CORE_MODULES:
        mod = importlib.import_module("mingus.core." + m)
        for n in sorted(vars(mod)):
            f = vars(mod)[n]
            if not n.startswith("_") and inspect.isfunction(f) and f.__module__ == mod.__name__:
                res.append((m, n))
    return res


# ---------------------------------------------------------------- canonical form of values and object states
_ATOM = (type(None), bool, int, float, str, bytes, complex)


def class_defaults(cls):
    """non-callable, non-dunder, non-descriptor attributes defined on the class and its bases"""
    d = {}
    for k in reversed(cls.__mro__):
        if k is object:
            continue
        for a, v in vars(k).items():
            if a.startswith("__") or callable(v) or isinstance(v, (property, staticmethod, classmethod)):
                continue
            d[a] = v
    return d


def canon(x, _seen=None):
    """order-preserving, comparable, identity-free description of a value (walks lists, dicts, tuples, sets and
    the attributes - class defaults overlaid by instance attributes - of arbitrary objects)"""
    if isinstance(x, _ATOM):
        return repr(x) if isinstance(x, float) else x
    if _seen is None:
        _seen = set()
    if id(x) in _seen:
        return ("CYCLE",)
    _seen = _seen | {id(x)}
    if isinstance(x, list):
        return ("L",) + tuple(canon(e, _seen) for e in x)
    if isinstance(x, tuple):
        return ("T",) + tuple(canon(e, _seen) for e in x)
    if isinstance(x, dict):
        return ("D",) + tuple(sorted(((repr(k), canon(v, _seen)) for k, v in x.items()), key=lambda t: t[0]))
    if isinstance(x, (set, frozenset)):
        return ("S",) + tuple(sorted(repr(e) for e in x))
    if inspect.isfunction(x) or inspect.ismethod(x) or inspect.isbuiltin(x) or inspect.isclass(x) or inspect.ismodule(x):
        return ("F", getattr(x, "__qualname__", getattr(x, "__name__", "?")))
    if hasattr(x, "__dict__"):
        st = dict(class_defaults(type(x)))
        st.update(vars(x))
        return ("O", type(x).__name__) + tuple((a, canon(st[a], _seen)) for a in sorted(st))
    return ("R", type(x).__name__, repr(x))


def state_attrs(x):
    """attribute -> canon, for diffing two states of one object"""
    st = dict(class_defaults(type(x)))
    st.update(vars(x))
    return dict((a, canon(v)) for a, v in st.items())


def show(v):
    s = repr(v)
    if len(s) > 240:
        s = s[:240] + "...#%d:%s" % (len(s), hashlib.md5(s.encode("utf8", "replace")).hexdigest()[:10])
    return s


# ---------------------------------------------------------------- evaluation of one query
def call_query(q, args=None):
    """run one query on the real code with private copies of its arguments; returns the raw result"""
    mod = importlib.import_module("mingus.core." + q[0])
    if len(q) == 3:
        a = copy.deepcopy(q[2]) if args is None else args
        return getattr(mod, q[1])(*a)
    obj = getattr(mod, q[1])(*copy.deepcopy(q[2]))
    if q[3] == "__str__":
        return str(obj)
    if q[3] == "__len__":
        return len(obj)
    at = getattr(obj, q[3])
    return at(*q[4]) if callable(at) else at


def eval_query(q):
    try:
        return show(canon(call_query(q)))
    except RecursionError:
        return "EXC:RecursionError"
    except Exception as e:  # noqa
        return "EXC:" + type(e).__name__


# ---------------------------------------------------------------- container-level calls usable inside histories
def history_ops():
    from mingus.containers import Note, NoteContainer, Bar, Track
    from mingus.core import scales

    def bar_of(rnd, key):
        b = Bar(key, (4, 4))
        for _ in range(4):
            b.place_notes(NoteContainer().from_progression_shorthand(rnd.choice(["I", "V7", "ii", "bVII", "IVM7"]), key), 4)
        return b

    return [
        lambda r: NoteContainer().from_progression_shorthand(r.choice(["I", "V7", "vi", "VII7", "bII", "IIm7"]), r.choice(KEYS)),
        lambda r: NoteContainer().from_chord_shorthand(r.choice(["Am7", "C", "Dm|G", "F#dim7", "Bb13"])).determine(r.random() < .5),
        lambda r: NoteContainer(r.sample(NOTES, 3)).determine(True),
        lambda r: bar_of(r, r.choice(MAJ)).determine_progression(r.random() < .5),
        lambda r: bar_of(r, r.choice(MAJ)).determine_chords(r.random() < .5),
        lambda r: bar_of(r, r.choice(MAJ)).transpose(r.choice(["3", "b3", "5"]), r.random() < .5),
        lambda r: Track().from_chords(r.sample(["C", "Am", "Dm7", "G7", "F#dim"], 3), r.choice([1, 2])),
        lambda r: NoteContainer().from_interval_shorthand(r.choice(NOTES[:12]), r.choice(IVALS[:14]), r.random() < .5),
        lambda r: Note(r.choice(NOTES)).transpose(r.choice(IVALS[:14]), r.random() < .5),
        lambda r: scales.determine(r.sample(NOTES[:12], 4)),
        lambda r: NoteContainer(r.sample(NOTES, 4)).is_consonant(),
        lambda r: [x for x in map(str, [getattr(scales, r.choice(["Major", "HarmonicMinor", "Chromatic", "MinorNeapolitan"]))(
            r.choice(["C", "G", "Eb", "A"]))])],
    ]


def child(param_json):
    """entry point of the cold-interpreter worker: [cold history] -> battery in a given order (= base) ->
    rounds of (random history -> battery in shuffled order), every observation compared with base"""
    p = json.loads(param_json)
    U = universe()
    rnd = random.Random(p["seed"])
    ops = history_ops()
    calls = 0

    def history(lo, hi):
        h = []
        for _ in range(rnd.randint(lo, hi)):
            if rnd.random() < 0.85:
                i = rnd.randrange(len(U))
                eval_query(U[i])
                h.append(i)
            else:
                k = rnd.randrange(len(ops))
                try:
                    ops[k](rnd)
                except Exception:  # noqa
                    pass
                h.append("op%d" % k)
        return h

    cold = history(p["cold"][0], p["cold"][1]) if p.get("cold") else []
    calls += len(cold)
    order = list(range(len(U)))
    if p["order"] == "reversed":
        order.reverse()
    elif p["order"] == "shuffled":
        rnd.shuffle(order)
    base = [None] * len(U)
    for i in order:
        base[i] = eval_query(U[i])
    diffs = []
    evals = len(U)
    rounds = 0
    for _ in range(p["rounds"]):
        h = history(p["hist"][0], p["hist"][1])
        calls += len(h)
        idx = list(range(len(U)))
        rnd.shuffle(idx)
        idx = idx[:max(1, int(len(idx) * p["fraction"]))]
        for i in idx:
            got = eval_query(U[i])
            evals += 1
            if got != base[i] and len(diffs) < 25:
                diffs.append({"query": repr(U[i]), "index": i, "base": base[i], "got": got, "round": rounds,
                              "history_tail": [repr(U[j]) if isinstance(j, int) else j for j in h[-8:]]})
        rounds += 1
        if len(diffs) >= 25:
            break
    print(json.dumps({"n": len(U), "base": base, "diffs": diffs, "calls": calls, "evals": evals, "rounds": rounds,
                      "cold_history": [repr(U[j]) if isinstance(j, int) else j for j in cold[-12:]],
                      "uncovered": UNCOVERED}))
