"""Independent reader for ASCII guitar tablature (used by bounded/drivers/C20.py).

It knows nothing about how the tablature was produced; it only reads text of this general shape

     e' ||---0------10----------|----3------|
     b  ||----------------------|-----------|
     A  ||---3---------- 9------|-----------|

i.e. *string lines*: one blank, the open string in Helmholtz notation (C, = C-1, C = C-2, c = C-3, c' = C-4),
optional blanks, a double bar `||`, then a body of dashes, blanks, fret numbers and bar lines `|`.
Consecutive string lines form a *block* (one instrument, highest string on top); blocks that are only
separated by lines containing `||` (connectors) belong to the same *system*; every other line (titles,
beat marks, blank lines) is ignored.

Reading is column by column: inside a bar (delimited by the columns holding `|`), every maximal run of
digits on a string line is one fret number and runs on different strings whose column ranges overlap
are struck together (one entry).  The sounding pitch of a number is the pitch of the line's label plus the
number (pitch = 12 * octave + semitone, C-0 = 0).
"""
import re

_LINE = re.compile(r"^ (?P<label>[A-G][#b]*,*|[a-g][#b]*'*)(?P<pad> *)\|\|(?P<body>[-0-9 |]*)$")
_BASE = {"C": 0, "D": 2, "E": 4, "F": 5, "G": 7, "A": 9, "B": 11}


def helmholtz_pitch(label):
    """pitch (12*octave + semitone) of a Helmholtz label such as "E," "A" "d" "f#''" """
    letter = label[0]
    rest = label[1:]
    acc = rest.count("#") - rest.count("b")
    if letter.isupper():
        octave = 2 - rest.count(",")
    else:
        octave = 3 + rest.count("'")
    return 12 * octave + _BASE[letter.upper()] + acc


class Block(object):
    """consecutive string lines (top line first)"""

    def __init__(self):
        self.labels = []
        self.bodies = []
        self.raw = []
        self.body_col = []   # column at which the body starts

    @property
    def n_lines(self):
        return len(self.raw)

    def line_lengths(self):
        return [len(x) for x in self.raw]

    def open_pitches_bottom_up(self):
        return [helmholtz_pitch(l) for l in reversed(self.labels)]

    def bars(self):
        """list of bars; a bar is a list of entries in column order; an entry is a sorted list of
        (string index counted from the BOTTOM line, fret number)"""
        n = len(self.bodies)
        if n == 0:
            return []
        width = max(len(b) for b in self.bodies)
        bodies = [b.ljust(width) for b in self.bodies]
        # bar lines: columns where every line has '|'
        cuts = [c for c in range(width) if all(b[c] == "|" for b in bodies)]
        out = []
        start = 0
        for c in cuts:
            out.append(self._entries(bodies, start, c))
            start = c + 1
        if any(ch not in "- " for b in bodies for ch in b[start:]):
            out.append(self._entries(bodies, start, width))   # unterminated last bar
        return out

    @staticmethod
    def _entries(bodies, lo, hi):
        n = len(bodies)
        runs = []
        for li, b in enumerate(bodies):
            for m in re.finditer(r"[0-9]+", b[lo:hi]):
                runs.append((lo + m.start(), lo + m.end() - 1, n - 1 - li, int(m.group())))
        runs.sort()
        clusters = []
        for (a, z, s, f) in runs:
            if clusters and a <= clusters[-1][1]:
                clusters[-1][1] = max(clusters[-1][1], z)
                clusters[-1][2].append((s, f))
            else:
                clusters.append([a, z, [(s, f)]])
        return [sorted(c[2]) for c in clusters]

    def bar_pitches(self):
        """list of bars, each a list of entries, each the sorted list of sounding pitches"""
        opens = self.open_pitches_bottom_up()
        return [[sorted(opens[s] + f for (s, f) in e) for e in bar] for bar in self.bars()]


def read(text):
    """-> list of systems, each a list of Blocks, in reading order"""
    lines = text.replace("\r\n", "\n").split("\n")
    systems = []
    cur = None          # block being collected
    gap_all_connectors = True
    gap = 0
    for ln in lines:
        m = _LINE.match(ln)
        if m:
            if cur is None:
                cur = Block()
                if systems and gap > 0 and gap_all_connectors:
                    systems[-1].append(cur)
                else:
                    systems.append([cur])
            cur.labels.append(m.group("label"))
            cur.bodies.append(m.group("body"))
            cur.raw.append(ln)
            cur.body_col.append(m.start("body"))
        else:
            if cur is not None:
                cur = None
                gap = 0
                gap_all_connectors = True
            gap += 1
            if "||" not in ln:
                gap_all_connectors = False
    return systems
