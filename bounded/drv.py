"""Helper for the bounded drivers (bounded/drivers/<PID>.py): counts evaluations, collects failures.

A driver checks contract clauses that the VC generator cannot reach (whole histories, IEEE floats, third-party
objects) by running the REAL code on enumerated / seeded inputs.  Everything recorded here is reported in the
evidence under coverage.bounded_driver and is never counted as a discharged obligation.
"""
import json
import os
import traceback

VERIF = os.path.dirname(os.path.dirname(os.path.abspath(__file__)))


class _Known(list):
    """the known findings of one property, read from the committed known_findings.json ONLY: a driver's
    PROPOSED_FINDINGS are a development aid and are accepted at run time only with VERIF_ACCEPT_PROPOSED=1"""

    def append(self, x):
        if os.environ.get("VERIF_ACCEPT_PROPOSED") == "1":
            list.append(self, x)


class Recorder(object):
    def __init__(self, pid, tier, seed):
        self.pid, self.tier, self.seed = pid, tier, seed
        self.evaluations = 0
        self.distinct = set()
        self.failures = []
        Recorder.current = self       # (so that a run stopped by the time limit can still report what it had found)
        self.samples = []
        self.known_lines = []
        self.groups = {}
        self.assumptions = []
        with open(os.path.join(VERIF, "known_findings.json")) as f:
            self.known = _Known(k for k in json.load(f).get("findings", []) if k.get("property") == pid)

    def case(self, group, key=None):
        """count one evaluated case in a named group; key marks distinct non-trivial cases"""
        self.evaluations += 1
        g = self.groups.setdefault(group, {"evaluations": 0, "failures": 0})
        g["evaluations"] += 1
        if key is not None:
            self.distinct.add((group, key))
        if len(self.samples) < 12 and g["evaluations"] == 1:
            self.samples.append({"group": group, "case": repr(key)[:300]})

    def fail(self, group, clause, what, inputs, finding=None):
        """a failed clause.  `finding`: id of a known finding whose region covers this input (then it is reported
        as KNOWN-FINDING, not as a violation)."""
        g = self.groups.setdefault(group, {"evaluations": 0, "failures": 0})
        g["failures"] += 1
        if finding is not None:
            for k in self.known:
                if k.get("id") == finding:
                    line = "%s %s: %s" % (k.get("function", group), k["id"], k.get("what"))
                    if line not in self.known_lines:
                        self.known_lines.append(line)
                    g["known"] = g.get("known", 0) + 1
                    return
        if sum(1 for f in self.failures if f["function"] == group and f["clause"] == clause) < 3:
            self.failures.append({"function": group, "clause": clause, "what": what, "inputs": repr(inputs)[:2000]})

    def guard(self, group, clause, inputs, fn):
        """run fn(); an unexpected exception is a failure of `clause`"""
        try:
            return True, fn()
        except Exception as e:  # noqa
            self.fail(group, clause, "unexpected %s: %s" % (type(e).__name__, e), inputs)
            return False, None

    def result(self, rule, exhaustive=False):
        return {"property": self.pid, "evaluations": self.evaluations, "distinct_nontrivial": len(self.distinct),
                "rule": rule, "groups": self.groups, "failures": self.failures, "samples": self.samples,
                "known": self.known_lines, "assumptions": self.assumptions, "exhaustive": exhaustive}
