"""A fixed history run at the start of every bounded process (batteries, drivers): one pass through the public entry
points of every subsystem, so that the checks that follow run in an interpreter that has already been USED -- the state a
user's process is in.  A change that plants state in one module and reads it in another (a table edited in place by an
exporter, a memo filled by a different function, a class attribute shared between objects) then shows in the
property's own checks.  Exceptions here are swallowed: this is history, not a check."""
import os
import tempfile


def _quiet(fn):
    try:
        return fn()
    except Exception:  # noqa
        return None


def run():
    if os.environ.get("VERIF_WARMUP") == "0":
        return
    from mingus.core import notes, intervals, keys, scales, chords, progressions, value, meter
    from mingus.containers import Note, NoteContainer, Bar, Track, Composition
    from mingus.containers.instrument import Instrument, Piano, Guitar, MidiInstrument
    # theory: both directions, both forms, odd spellings, refused inputs
    for k in ("C", "a", "Gb", "d#", "Cb", "ab"):
        _quiet(lambda: keys.get_notes(k))
        _quiet(lambda: keys.get_key_signature_accidentals(k))
        _quiet(lambda: keys.Key(k))
        _quiet(lambda: chords.triads(k))
        _quiet(lambda: chords.sevenths(k))
        _quiet(lambda: progressions.to_chords(["I", "bVII7", "#ivdim7", "V7"], k))
    # the caller edits what it was handed (second request: the warm path of every memo)
    for k in ("C", "a", "Gb"):
        for fn in (keys.get_notes, keys.get_key_signature_accidentals, chords.triads, chords.sevenths):
            x = _quiet(lambda: fn(k))
            if isinstance(x, list):
                _quiet(lambda: x.reverse())
                _quiet(lambda: x.append("X"))
                if x and isinstance(x[0], list):
                    _quiet(lambda: x[0].append("X"))
        for name in ("tonic", "V", "ii7", "subdominant7"):
            y = _quiet(lambda: getattr(chords, name)(k))
            if isinstance(y, list):
                _quiet(lambda: y.append("X"))
        z = _quiet(lambda: progressions.to_chords(["I", "V", "I"], k))
        if isinstance(z, list) and z and isinstance(z[0], list):
            _quiet(lambda: z[0].append("X"))
    # the name functions of notes.py, each asked FIRST for its own half of the names (what one function has worked out
    # for a name must not be what another one answers for it)
    accs = ["", "#", "b", "##", "bb", "#b", "b#", "###", "bbb", "#bb", "b##", "####", "bbbb", "#" * 7, "b" * 8, "#" * 13,
            "b" * 14, "#b#b#", "bb#bb"]
    for letter in "CDEFGAB":
        for acc in accs:
            nm = letter + acc
            first, second = ((notes.reduce_accidentals, notes.remove_redundant_accidentals) if letter in "CDEF"
                             else (notes.remove_redundant_accidentals, notes.reduce_accidentals))
            _quiet(lambda: first(nm))
            _quiet(lambda: notes.note_to_int(nm))
            _quiet(lambda: notes.augment(nm))
            _quiet(lambda: second(nm))
            _quiet(lambda: notes.diminish(nm))
            _quiet(lambda: notes.is_valid_note(nm))
    for i in range(-2, 14):
        _quiet(lambda: notes.int_to_note(i))
        _quiet(lambda: notes.int_to_note(i, "b"))
    for bad in ("H", "G#", "", "c#m"):
        _quiet(lambda: keys.get_notes(bad))
        _quiet(lambda: chords.triads(bad))
        _quiet(lambda: intervals.determine("D", bad))
        _quiet(lambda: scales.Major(bad))
    for a, b in (("C", "E"), ("C#b", "Gbb"), ("B#", "Cb"), ("Dbb", "C"), ("C", "Dbb")):
        _quiet(lambda: intervals.determine(a, b))
        _quiet(lambda: intervals.determine(a, b, True))
        _quiet(lambda: intervals.determine(a, b, shorthand=True))
        _quiet(lambda: intervals.measure(a, b))
        _quiet(lambda: intervals.is_consonant(a, b, False))
    for n in ("C", "F#", "Bb", "E##"):
        for sh in ("3", "b7", "#4", "bb2", "#1"):
            _quiet(lambda: intervals.from_shorthand(n, sh))
            _quiet(lambda: intervals.from_shorthand(n, sh, False))
        _quiet(lambda: intervals.interval("C", n[0], -2))
        _quiet(lambda: intervals.interval("C", n[0], 3))
    for cls in (scales.Major, scales.MelodicMinor, scales.Chromatic, scales.WholeTone, scales.Octatonic, scales.Dorian):
        for t in ("C", "a", "F#"):
            s = _quiet(lambda: cls(t, 2))
            if s is not None:
                _quiet(s.ascending)
                d = _quiet(s.descending)
                _quiet(s.descending)
                if isinstance(d, list):
                    _quiet(lambda: d.reverse())        # a caller editing what it was given
                _quiet(lambda: s.degree(3, "d"))
    _quiet(lambda: scales.determine(["C", "D", "E", "F", "G", "A", "B"]))
    for sh in ("CM7", "Am7/G", "Em|CM", "C/C", "F#dim7", "Bb13", "C5", "Csus4b9"):
        c = _quiet(lambda: chords.from_shorthand(sh))
        if isinstance(c, list):
            _quiet(lambda: chords.determine(c))
            _quiet(lambda: chords.determine(c, True, True, True))
            _quiet(lambda: chords.first_inversion(c))
            _quiet(lambda: c.append("X"))
    # chord recognition of every diatonic triad and seventh of every key under every combination of its three flags, the
    # combinations taken in an order that depends on the chord (what was answered under one combination must not be what
    # is answered under another)
    combos = [(sh, ni, npoly) for sh in (False, True) for ni in (False, True) for npoly in (False, True)]
    n_ch = 0
    for k in list(keys.major_keys) + list(keys.minor_keys):
        for ch in (_quiet(lambda: chords.sevenths(k)) or []) + (_quiet(lambda: chords.triads(k)) or []):
            n_ch += 1
            order = combos[n_ch % 8:] + combos[:n_ch % 8]
            if n_ch % 2:
                order = order[::-1]
            for (sh, ni, npoly) in order:
                _quiet(lambda: chords.determine(list(ch), sh, ni, npoly))
    _quiet(lambda: progressions.substitute(["I", "IV", "V7", "VIIdim7"], 3, 2))
    _quiet(lambda: progressions.substitute_harmonic(["V7"], 0))
    # every substitution rule, where it applies and where it does not, with the caller adding to the list it got
    for fn in (progressions.substitute_harmonic, progressions.substitute_minor_for_major,
               progressions.substitute_major_for_minor, progressions.substitute_diminished_for_diminished,
               progressions.substitute_diminished_for_dominant):
        for prog in (["I"], ["IV"], ["VIm"], ["VIIdim"], ["V7"], ["IIm7"], ["bIIIM7"]):
            for ign in (False, True):
                r = _quiet(lambda: fn(list(prog), 0, ign))
                if isinstance(r, list):
                    _quiet(lambda: r.extend(["?warm-up", 7]))
    for prog in (["I", "I"], "V7", ["bVIIm7", "IIdim"]):
        r = _quiet(lambda: progressions.to_chords(prog, "Eb"))
        if isinstance(r, list):
            for ch in r:
                if isinstance(ch, list):
                    _quiet(lambda: ch.reverse())
            _quiet(lambda: r.append(["?warm-up"]))
    _quiet(lambda: progressions.determine(["C", "E", "G"], "C"))
    for v in (0.25, 0.5, 4, 8):
        _quiet(lambda: value.determine(value.triplet(v)))
        _quiet(lambda: value.determine(value.dots(v, 2)))
        _quiet(lambda: value.quintuplet(v))
        _quiet(lambda: value.septuplet(v, False))
    for m in ((4, 4), (6, 8), (0, 4), (-3, 4), (3, 5)):
        _quiet(lambda: meter.is_valid(m))
        _quiet(lambda: meter.is_compound(m))
    # containers
    a = Note("C#", 4, velocity=90, channel=3)
    b = Note("Db", 4)
    _quiet(lambda: Note("C%"))
    _quiet(lambda: Note(0))
    _quiet(lambda: a.to_hertz(415.0))
    _quiet(lambda: a.to_hertz())
    nc = NoteContainer(["C", "E", "G"])
    nc2 = NoteContainer(nc)
    _quiet(lambda: nc2.transpose("3"))
    _quiet(lambda: nc2.remove_notes(list(nc2.notes)))
    _quiet(lambda: nc + a + b)
    _quiet(lambda: nc.is_consonant(False))
    _quiet(lambda: NoteContainer().from_chord("Am7/G"))
    _quiet(lambda: NoteContainer().from_interval_shorthand("C-3", "5"))
    bar = Bar("C", (4, 4))
    for x, v in (("C", 4), (None, 4), (["E", "G"], 8), (nc, 8), ("A", 3)):
        _quiet(lambda: bar.place_notes(x, v))
    _quiet(bar.remove_last_entry)
    _quiet(lambda: bar.place_notes_at(NoteContainer("B"), 0.0))
    _quiet(lambda: bar.set_meter((3, 5)))
    tr = Track(MidiInstrument("Violin"))
    _quiet(lambda: tr.add_bar(bar))
    for x, v in (("D", 2), (None, 2), (NoteContainer(["F", "A"]), 1), ("G", 1)):
        _quiet(lambda: tr.add_notes(x, v))
    tr2 = _quiet(lambda: Track().from_chords(["C", ["Am", "F"], None, "G7", "C"], 1))
    _quiet(lambda: tr2.transpose("3"))
    _quiet(lambda: Piano().can_play_notes(["C-4", "E-9"]))
    _quiet(lambda: Guitar().can_play_notes(NoteContainer(["E", "A"])))
    i2 = Instrument()
    _quiet(lambda: i2.note_in_range("C-4"))
    _quiet(lambda: i2.set_range(("C-3", "C-6")))
    comp = Composition()
    _quiet(lambda: comp.set_title("Warm -- up <&>", "x"))
    _quiet(lambda: comp.add_track(tr))
    if tr2 is not None:
        _quiet(lambda: comp.add_track(tr2))
    _quiet(lambda: comp.add_note("E"))
    # exporters, MIDI, sequencer, tunings
    from mingus.extra import lilypond, musicxml, tablature, tunings
    _quiet(lambda: musicxml.from_Composition(comp))
    _quiet(lambda: musicxml.from_Bar(bar))
    _quiet(lambda: lilypond.from_Composition(comp))
    _quiet(lambda: lilypond.from_Bar(bar))
    t = _quiet(lambda: tunings.get_tuning("Guitar", "Standard"))
    if t is not None:
        fr = _quiet(lambda: t.find_frets(Note("A", 3)))
        if isinstance(fr, list):
            _quiet(lambda: fr.append(99))
        n = _quiet(lambda: t.get_Note(0, 5))
        if n is not None:
            _quiet(lambda: n.octave_up())
        _quiet(lambda: t.find_chord_fingering(NoteContainer().from_chord("Abm"), return_best_as_NoteContainer=True))
        _quiet(lambda: tablature.from_NoteContainer(nc, tuning=t))
        _quiet(lambda: tablature.from_Track(tr2, tuning=t))
    _quiet(lambda: tunings.get_tunings("bass", 0, 0))
    from mingus.midi import midi_file_out, midi_file_in
    from mingus.midi.midi_track import MidiTrack
    d = tempfile.mkdtemp(prefix="warm-")
    try:
        f = os.path.join(d, "w.mid")
        _quiet(lambda: midi_file_out.write_Composition(f, comp, 97, 1))
        _quiet(lambda: midi_file_in.MIDI_to_Composition(f))
        _quiet(lambda: midi_file_out.write_Bar(f, bar, 120, 0))
        _quiet(lambda: midi_file_in.MIDI_to_Composition(f))
        mt = MidiTrack()
        _quiet(lambda: mt.set_deltatime(72))
        _quiet(lambda: mt.set_key("G"))
        _quiet(mt.get_midi_data)
    finally:
        import shutil
        shutil.rmtree(d, ignore_errors=True)
    from mingus.midi.sequencer import Sequencer

    class S(Sequencer):
        def sleep(self, s):
            pass
    s = S()
    _quiet(lambda: s.play_Composition(comp, [1, 2], 200))
    _quiet(lambda: s.play_Track(tr, 1, 200))
