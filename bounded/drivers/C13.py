"""C13 bounded stand-in: Bar time accounting is exact under any placement history.

The REAL Bar is driven through placement histories and compared after every step with an exact rational model
written here (fractions.Fraction; nothing of bar.py is used to compute an expectation):

    model state : bar length L = count/unit (None for the unbounded (0,0) meter), entries [(length, value, content)]
    place v     : accepted  <=>  L is None  or  total + 1/v <= L      (exact rational arithmetic)
                  accepted -> one entry (start = old total, value v, content) appended, total += 1/v
                  refused  -> nothing changes
    '+'         : place one beat (value = the beat unit of the meter)
    remove last : drop the last entry, total -= its length
    full        : non-empty and bounded and L - total <= 1/1000

The note values are the documented vocabulary of mingus.core.value (base values, dotted, double dotted, triplets,
quintuplets, septuplets); the value handed to the Bar is the float a user obtains from value.dots/triplet/...,
its exact length is computed here from the definition (e.g. a dotted eighth is 3/16).
Float start beats are compared with the exact ones to within 1e-9 (a float cannot hold 1/3 or 1/20); the ACCEPTANCE
verdict is compared exactly, as the property demands.
"""
import random
from fractions import Fraction as Fr

from bounded.drv import Recorder

EPS = 1e-9
BASE = {"C": 0, "D": 2, "E": 4, "F": 5, "G": 7, "A": 9, "B": 11}

PROPOSED_FINDINGS = [
    dict(property="C13", id="bar-float-capacity",
         function="mingus.containers.bar.Bar.place_notes",
         clause="accepted-exactly-when-exact-total-does-not-exceed-bar-length",
         region="the placement fills the bar EXACTLY (exact total == bar length) and the bar's history contains a "
                "note length that is not a binary fraction (triplet, quintuplet, septuplet), so the float running "
                "total carries rounding error; the library refuses",
         what="place_notes tests `current_beat + 1.0/duration <= length` on the float running total: a 4/4 (and 2/2) "
              "bar refuses its 20th quintuplet sixteenth (current_beat 0.9500000000000003 although 20 x 1/20 == 1 "
              "exactly), a 12/8 bar its 36th triplet sixteenth (1.4583333333333337) and its 15th quintuplet eighth, a "
              "3/4 bar its 15th quintuplet sixteenth, a 7/8 bar its 42nd triplet thirty-second, ... (60 of the "
              "meter x single-value fills over 10 meters, and many mixed fills)",
         witness_code="from mingus.containers.bar import Bar\nfrom mingus.core import value\n"
                      "b = Bar('C', (4, 4))\n"
                      "res = [b.place_notes('C', value.quintuplet(16)) for i in range(20)]\n"
                      "observed = (res.count(True), res[-1], b.current_beat)\n"
                      "holds = all(res)\n"),
]


def power_of_two(n):
    return isinstance(n, int) and n >= 1 and n & (n - 1) == 0


def pitch(name, octave):
    return 12 * octave + BASE[name[0]] + name[1:].count("#") - name[1:].count("b")


def voiced(names, start=()):
    """pitches of bare names voiced upward from octave 4 (plain spellings only), on top of the pitches `start`"""
    out = list(start)
    for n in names:
        if not out:
            p = pitch(n, 4)
        else:
            top = max(out)
            p = top + (pitch(n, 0) - top) % 12
        if p not in out:
            out.append(p)
    return sorted(out)


# content forms: description -> (expected pitches or None for a rest)
CONTENTS = [
    ("str", "C"),
    ("note", "E", 5),
    ("list", ("C", "E", "G")),
    ("notelist", (("A", 3), ("C#", 4))),
    ("nc", (("G", 2), ("D", 3))),
    ("str", "Bb"),
    ("list", ("G", "B", "D", "F")),
    ("mixed", ("A", ("C", 5))),
    ("list", ()),           # an empty list becomes an (empty) note container like any other list
    ("nc", ()),             # an empty container stays that container
]


def content_pitches(c, start=()):
    """pitches of the note container made from content description c (added to a container holding `start`)"""
    if c is None:
        return None
    k = c[0]
    if k == "str":
        return voiced([c[1]], start)
    if k == "note":
        return sorted(set(start) | {pitch(c[1], c[2])})
    if k == "list":
        return voiced(c[1], start)
    if k in ("notelist", "nc"):
        return sorted(set(start) | set(pitch(n, o) for n, o in c[1]))
    if k == "mixed":        # bare name then explicit [name, octave]
        return sorted(set(voiced([c[1][0]], start)) | {pitch(*c[1][1])})
    raise AssertionError(c)


class BarModel(object):
    def __init__(self, meter):
        self.meter = meter
        self.L = None if meter == (0, 0) else Fr(meter[0], meter[1])
        self.entries = []     # [length, value, pitches-or-None]
        self.total = Fr(0)
        self.tainted = False  # some accepted length was not exactly representable as a float

    def copy(self):
        m = BarModel.__new__(BarModel)
        m.meter, m.L, m.total, m.tainted = self.meter, self.L, self.total, self.tainted
        m.entries = [list(e) for e in self.entries]
        return m

    def fits(self, length):
        return self.L is None or self.total + length <= self.L

    def place(self, length, value, pitches):
        self.entries.append([length, value, pitches])
        self.total += length
        if Fr(1.0 / float(value)) != length:
            self.tainted = True

    def remove_last(self):
        e = self.entries.pop()
        self.total -= e[0]

    def full(self):
        return bool(self.entries) and self.L is not None and self.L - self.total <= Fr(1, 1000)


def vocabulary(value):
    """[(label, value as the user gets it, exact length)] for the documented value vocabulary"""
    out = []
    for b in value.base_values:
        fb = Fr(b)
        out.append(("base %s" % b, b, 1 / fb))
    for b in value.base_values:
        fb = Fr(b)
        out.append(("dotted %s" % b, value.dots(b), (1 / fb) * Fr(3, 2)))
        out.append(("double-dotted %s" % b, value.dots(b, 2), (1 / fb) * Fr(7, 4)))
    for b in value.base_values:
        fb = Fr(b)
        out.append(("triplet %s" % b, value.triplet(b), 1 / (fb * Fr(3, 2))))
        out.append(("quintuplet %s" % b, value.quintuplet(b), 1 / (fb * Fr(5, 4))))
        out.append(("septuplet %s" % b, value.septuplet(b), 1 / (fb * Fr(7, 4))))
        out.append(("septuplet/8 %s" % b, value.septuplet(b, False), 1 / (fb * Fr(7, 8))))
    return out


def run(tier, seed):
    from mingus.containers.bar import Bar
    from mingus.containers.note import Note
    from mingus.containers.note_container import NoteContainer
    from mingus.containers.mt_exceptions import MeterFormatError
    from mingus.core import value

    R = Recorder("C13", tier, seed)
    for f in PROPOSED_FINDINGS:
        R.known.append(f) if f["id"] not in [k.get("id") for k in R.known] else None
    rnd = random.Random(seed)
    quick = tier == "quick"
    VOC = vocabulary(value)
    for label, v, length in VOC:
        # sanity of the input vocabulary itself (C09 checks the value arithmetic): the float is the exact value
        # rounded, so the driver is not comparing against a mis-stated length
        if abs(float(v) * float(length) - 1.0) > 1e-12:
            R.fail("value vocabulary (input)", "documented-value-vocabulary",
                   "%s: value %r is not 1/%s" % (label, v, length), label)

    G_PLACE, G_ACC, G_OBS, G_SET = "Bar.place_notes", "Bar accounting", "Bar.is_full", "Bar.set_meter"

    def real_content(c):
        if c is None:
            return None
        k = c[0]
        if k == "str":
            return c[1]
        if k == "note":
            return Note(c[1], c[2])
        if k == "list":
            return list(c[1])
        if k == "notelist":
            return [Note(n, o) for n, o in c[1]]
        if k == "nc":
            return NoteContainer([[n, o] for n, o in c[1]])
        if k == "mixed":
            return [c[1][0], list(c[1][1])]
        raise AssertionError(c)

    def entry_pitches(x):
        if x is None:
            return None
        if not isinstance(x, NoteContainer):
            return ("not a NoteContainer", repr(x))
        return [pitch(n.name, n.octave) for n in x.notes]

    def snapshot(bar):
        return ([(id(e), e[0], e[1], id(e[2]), entry_pitches(e[2])) for e in bar.bar], bar.current_beat,
                bar.length, bar.meter, len(bar))

    def light_snapshot(bar):
        return (len(bar.bar), bar.current_beat, bar.length, bar.meter, id(bar.bar[-1]) if bar.bar else None)

    def check_accounting(bar, model, hist, full):
        """start beats, values, contents, current beat, space left, length, fullness"""
        if len(bar) != len(model.entries) or len(bar.bar) != len(model.entries):
            R.fail(G_ACC, "accepted-placement-appends-one-entry", "bar has %d entries, model %d"
                   % (len(bar.bar), len(model.entries)), hist)
            return
        if full:
            acc = Fr(0)
            for i, (e, m) in enumerate(zip(bar.bar, model.entries)):
                if abs(e[0] - float(acc)) > EPS:
                    R.fail(G_ACC, "start-beat-equals-sum-of-lengths-before",
                           "entry %d starts at %r, exact %s" % (i, e[0], acc), hist)
                    break
                if e[1] != m[1]:
                    R.fail(G_ACC, "accepted-placement-appends-one-entry-with-given-value",
                           "entry %d has value %r, placed %r" % (i, e[1], m[1]), hist)
                    break
                got = entry_pitches(e[2])
                if got != m[2]:
                    R.fail(G_ACC, "none-stays-a-rest" if (m[2] is None or got is None)
                           else "strings-notes-lists-become-note-containers",
                           "entry %d holds %r (%r), expected pitches %r" % (i, e[2], got, m[2]), hist)
                    break
                acc += m[0]
        elif model.entries:
            e, m = bar.bar[-1], model.entries[-1]
            if abs(e[0] - float(model.total - m[0])) > EPS:
                R.fail(G_ACC, "start-beat-equals-sum-of-lengths-before",
                       "last entry starts at %r, exact %s" % (e[0], model.total - m[0]), hist)
            if e[1] != m[1]:
                R.fail(G_ACC, "accepted-placement-appends-one-entry-with-given-value",
                       "last entry has value %r, placed %r" % (e[1], m[1]), hist)
        if abs(bar.current_beat - float(model.total)) > EPS:
            R.fail(G_ACC, "current-beat-equals-total-length",
                   "current_beat %r, exact total %s" % (bar.current_beat, model.total), hist)
        want_len = 0.0 if model.L is None else float(model.L)
        if bar.length != want_len:
            R.fail(G_ACC, "current-beat-plus-space-left-equals-bar-length",
                   "length %r, meter %r" % (bar.length, model.meter), hist)
        sl = bar.space_left()
        if abs(bar.current_beat + sl - want_len) > EPS or abs(sl - (want_len - float(model.total))) > EPS:
            R.fail(G_ACC, "current-beat-plus-space-left-equals-bar-length",
                   "current_beat %r + space_left %r != length %r" % (bar.current_beat, sl, want_len), hist)
        # fullness
        if model.L is None or abs(float(model.L - model.total) - 0.001) > EPS:
            got = bar.is_full()
            if bool(got) != model.full():
                R.fail(G_OBS, "full-exactly-when-non-empty-and-remaining-zero",
                       "is_full() -> %r with %d entries, exact remaining %s" % (
                           got, len(model.entries), None if model.L is None else model.L - model.total), hist)

    def do_place(bar, model, how, voc, content, hist, full=True):
        """how in place/rest/plus; voc = (label, value, length).  Returns False when the run should stop, else
        'accepted' / 'refused' (the verdict of the real bar)."""
        label, v, length = voc
        before = snapshot(bar) if full else light_snapshot(bar)
        n_before = len(bar.bar)
        if how == "place":
            fn = lambda: bar.place_notes(real_content(content), v)
        elif how == "rest":
            content = None
            fn = lambda: bar.place_rest(v)
        else:
            fn = lambda: bar + real_content(content)
        ok, got = R.guard(G_PLACE, "accepted-exactly-when-exact-total-does-not-exceed-bar-length", hist, fn)
        if not ok:
            return False
        want = model.fits(length)
        if got is not True and got is not False:
            R.fail(G_PLACE, "accepted-exactly-when-exact-total-does-not-exceed-bar-length",
                   "returned %r, not a verdict" % (got,), hist)
        if how == "plus" and model.L is None and got and len(bar.bar) == n_before + 1:
            # '+' in the unbounded meter: the value of "one beat" is not fixed by the property; adopt it
            v = bar.bar[-1][1]
            ok2 = isinstance(v, (int, float)) and v > 0
            if not ok2:
                R.fail(G_PLACE, "accepted-placement-appends-one-entry-with-given-value",
                       "'+' appended value %r" % (v,), hist)
                return False
            length = 1 / Fr(v)
        if bool(got) != want:
            if want:
                finding = None
                if model.total + length == model.L and (model.tainted or Fr(1.0 / float(v)) != length):
                    finding = "bar-float-capacity"
                R.fail(G_PLACE, "accepted-exactly-when-exact-total-does-not-exceed-bar-length",
                       "%s refused at current_beat %r although the exact total %s + %s <= %s (meter %r)"
                       % (label, bar.current_beat, model.total, length, model.L, model.meter), hist,
                       finding=finding)
            else:
                R.fail(G_PLACE, "accepted-exactly-when-exact-total-does-not-exceed-bar-length"
                       if model.L is not None else "always-accepted-for-unbounded-meter",
                       "%s accepted at current_beat %r although the exact total %s + %s > %s (meter %r)"
                       % (label, bar.current_beat, model.total, length, model.L, model.meter), hist)
        if got:
            if len(bar.bar) != n_before + 1:
                R.fail(G_PLACE, "accepted-placement-appends-one-entry",
                       "accepted, entries %d -> %d" % (n_before, len(bar.bar)), hist)
                return False
            model.place(length, v, content_pitches(content))
            if not full:
                gotp = entry_pitches(bar.bar[-1][2])
                if gotp != model.entries[-1][2]:
                    R.fail(G_ACC, "none-stays-a-rest" if (content is None or gotp is None)
                           else "strings-notes-lists-become-note-containers",
                           "placed %r, entry holds %r" % (content, bar.bar[-1][2]), hist)
        else:
            after = snapshot(bar) if full else light_snapshot(bar)
            if after != before:
                R.fail(G_PLACE, "refused-placement-changes-nothing", "before %r after %r" % (before, after), hist)
                return False
        check_accounting(bar, model, hist, full)
        return "accepted" if got else "refused"

    def do_remove_last(bar, model, hist, full=True):
        ok, _ = R.guard("Bar.remove_last_entry", "current-beat-equals-total-length", hist, bar.remove_last_entry)
        if not ok:
            return False
        model.remove_last()
        check_accounting(bar, model, hist, full)
        return True

    def content_ops(bar, model, idx, c, at, hist):
        """bar[idx] = content (at False) or place_notes_at(content, start beat of entry idx) (at True)"""
        if c is not None and c[0] == "mixed":
            return      # [name, octave] pairs inside a list are a NoteContainer constructor form only
        before = snapshot(bar)
        if at:
            if c is None or model.entries[idx][2] is None:
                return  # only sounding entries take added notes
            group, clause = "Bar.place_notes_at", "adding-notes-at-a-beat-changes-only-that-entrys-content"
            beat = bar.bar[idx][0]
            ok, _ = R.guard(group, clause, hist, lambda: bar.place_notes_at(real_content(c), beat))
            want = content_pitches(c, model.entries[idx][2])
        else:
            group, clause = "Bar.__setitem__", "assigning-content-changes-only-that-entrys-content"

            def assign():
                bar[idx] = real_content(c)
            ok, _ = R.guard(group, clause, hist, assign)
            want = content_pitches(c)
        if not ok:
            return
        after = snapshot(bar)
        if after[1:] != before[1:] or len(after[0]) != len(before[0]):
            R.fail(group, clause, "bar state changed: %r -> %r" % (before[1:], after[1:]), hist)
            return
        for i, (x, y) in enumerate(zip(before[0], after[0])):
            if i == idx:
                if x[:3] != y[:3]:
                    R.fail(group, clause, "entry %d start/value changed: %r -> %r" % (i, x, y), hist)
                if y[4] != want:
                    R.fail(group, clause, "entry %d holds pitches %r, expected %r" % (i, y[4], want), hist)
            elif x != y:
                R.fail(group, clause, "entry %d changed although entry %d was addressed: %r -> %r" % (i, idx, x, y),
                       hist)
        model.entries[idx][2] = want
        check_accounting(bar, model, hist, True)
        if at:
            # a beat at which nothing starts: nothing changes
            b4 = snapshot(bar)
            try:
                bar.place_notes_at(real_content(c), bar.bar[idx][0] + 0.0123)
            except Exception as e:  # noqa
                R.fail(group, clause, "notes placed at a beat where no entry starts raised %s: %s (another entry was "
                                      "taken for it)" % (type(e).__name__, e), hist)
            if snapshot(bar) != b4:
                R.fail(group, clause, "notes placed at a beat where no entry starts changed the bar", hist)

    def new_bar(meter):
        try:
            return Bar("C", meter)
        except Exception as e:  # noqa
            R.fail(G_SET, "set-meter-accepts-exactly-power-of-two-beat-units",
                   "Bar('C', %r) raised %s: %s" % (meter, type(e).__name__, e), meter)
            return None

    def clone(bar, meter):
        b = Bar("C", meter)
        b.bar = [list(e) for e in bar.bar]
        b.current_beat = bar.current_beat
        return b

    def find(label):
        for t in VOC:
            if t[0] == label:
                return t
        raise KeyError(label)

    # ================================================================== 1. set_meter
    units = list(range(-4, 70)) + [96, 100, 127, 128, 129, 192, 256, 1000, 1024, 2 ** 20, 2 ** 20 + 2, 3 * 2 ** 10]
    counts = list(range(0, 14)) + [15, 17, 32]
    other_exc = set()
    for c in counts:
        for u in units:
            for how in ("set_meter", "constructor"):
                R.case(G_SET, (c, u, how))
                want = power_of_two(u) or (c, u) == (0, 0)
                try:
                    if how == "set_meter":
                        b = Bar()
                        b.set_meter((c, u))
                    else:
                        b = Bar("C", (c, u))
                    acc = True
                except Exception as e:  # noqa
                    # the statement fixes WHICH meters are accepted, not the exception class of a rejection
                    acc = False
                    if not isinstance(e, MeterFormatError):
                        other_exc.add(type(e).__name__)
                if acc != want:
                    R.fail(G_SET, "set-meter-accepts-exactly-power-of-two-beat-units",
                           "(%r, %r) %s" % (c, u, "accepted" if acc else "rejected"), (c, u))
                elif acc:
                    wl = Fr(0) if u == 0 else Fr(c, u)
                    if Fr(b.length) != wl or tuple(b.meter) != (c, u):
                        R.fail(G_SET, "set-meter-sets-length-to-count-over-unit",
                               "(%r, %r): length %r meter %r" % (c, u, b.length, b.meter), (c, u))
    # a used bar: the new length is taken over
    for (c, u) in [(3, 4), (6, 8), (0, 0), (2, 2)]:
        R.case(G_SET, ("used", c, u))
        b = Bar("C", (4, 4))
        b.place_notes("C", 4)
        b.set_meter((c, u))
        if Fr(b.length) != (Fr(c, u) if u else 0) or len(b) != 1:
            R.fail(G_SET, "set-meter-sets-length-to-count-over-unit", "used bar, (%r, %r): %r" % (c, u, b.length),
                   (c, u))
        try:
            b.set_meter((4, 3))
            R.fail(G_SET, "set-meter-accepts-exactly-power-of-two-beat-units", "(4, 3) accepted", (4, 3))
        except Exception as e:  # noqa
            if Fr(b.length) != (Fr(c, u) if u else 0) or tuple(b.meter) != (c, u):
                R.fail(G_SET, "set-meter-accepts-exactly-power-of-two-beat-units",
                       "rejected (4, 3) but meter/length became %r / %r" % (b.meter, b.length), (4, 3))

    if other_exc:
        R.assumptions.append("a rejected meter raises %s instead of the documented MeterFormatError (the message is "
                             "formatted with '%%s' %% meter on a 2-tuple); counted as a rejection, the property does "
                             "not fix the exception class" % sorted(other_exc))
    METERS = [(2, 2), (3, 4), (4, 4), (5, 4), (6, 8), (7, 8), (12, 8), (0, 0)]
    if not quick:
        METERS += [(1, 1), (2, 4), (3, 8), (9, 8), (3, 2), (15, 16), (1, 64), (4, 1), (5, 8), (11, 16)]

    # ================================================================== 2. single-value fills to capacity
    for meter in METERS:
        for vi, voc in enumerate(VOC):
            R.case("fill to capacity (one value)", (meter, voc[0]))
            bar, model = new_bar(meter), BarModel(meter)
            if bar is None:
                break
            limit = 40 if meter == (0, 0) else int(model.L / voc[2]) + 2
            content = CONTENTS[vi % len(CONTENTS)]
            for k in range(limit):
                how = "rest" if (k + vi) % 5 == 4 else "place"
                fits = model.fits(voc[2])
                if do_place(bar, model, how, voc, content, (meter, voc[0], k),
                            full=(k < 3 or k >= limit - 3)) != "accepted" or not fits:
                    break
            check_accounting(bar, model, (meter, voc[0], "end"), True)

    # ================================================================== 3. exhaustive histories (depth bound)
    small = ["base 1", "base 2", "base 4", "base 8", "base 16", "dotted 2", "dotted 4", "dotted 8",
             "double-dotted 4", "triplet 2", "triplet 4", "triplet 8", "quintuplet 4", "quintuplet 8",
             "quintuplet 16", "septuplet 4", "septuplet 8", "septuplet/8 8"]
    if not quick:
        small += ["base 0.5", "base 32", "dotted 1", "dotted 16", "triplet 1", "triplet 16", "quintuplet 2",
                  "septuplet 2"]
    rests = ["base 4", "dotted 8", "triplet 8", "quintuplet 8", "septuplet 8"]
    OPS = [("place", find(l)) for l in small] + [("rest", find(l)) for l in rests] + [("plus", None), ("rmlast", None)]
    depth = 3
    fill_labels = ["base 4", "base 8", "base 16", "dotted 8", "triplet 4", "triplet 8", "triplet 16",
                   "quintuplet 8", "quintuplet 16", "septuplet 8", "septuplet/8 8"]
    if not quick:
        fill_labels += ["base 2", "base 32", "dotted 4", "dotted 16", "double-dotted 8", "triplet 2", "triplet 32",
                        "quintuplet 4", "quintuplet 32", "septuplet 4", "septuplet 16", "septuplet/8 16"]
    FILLS = [find(l) for l in fill_labels]
    fill_depth = 1 if quick else 2

    def beat_voc(meter):
        u = meter[1] if meter[1] else 4
        return ("beat 1/%d" % u, u, Fr(1, u))

    def fill(bar, model, voc, hist):
        """place voc until the exact model refuses (at most 400 times), light checks, full check at the end"""
        n = 0
        while n < 400:
            n += 1
            R.case("fill to capacity (after a history)", None)
            fits = model.fits(voc[2])
            got = do_place(bar, model, "place", voc, CONTENTS[0], hist + (("fill", voc[0], n),), full=False)
            if not got:
                return
            if got == "refused" or not fits or model.L is None and n >= 6:
                break
        check_accounting(bar, model, hist + (("filled", voc[0]),), True)

    def dfs(bar, model, meter, hist, d):
        for oi, (how, voc) in enumerate(OPS):
            if how == "rmlast" and not model.entries:
                continue
            h = hist + ((how, voc[0] if voc else None),)
            R.case("history (exhaustive)", (meter, h))
            b2, m2 = clone(bar, meter), model.copy()
            if how == "rmlast":
                ok = do_remove_last(b2, m2, (meter, h))
            else:
                c = CONTENTS[(oi + d) % len(CONTENTS)]
                ok = do_place(b2, m2, how, voc if voc else beat_voc(meter), c, (meter, h))
            if not ok:
                continue
            if len(h) <= fill_depth:
                for fv in FILLS:
                    fill(clone(b2, meter), m2.copy(), fv, (meter, h))
            if d > 1:
                dfs(b2, m2, meter, h, d - 1)

    dfs_meters = METERS if not quick else METERS
    for meter in dfs_meters:
        bar = new_bar(meter)
        if bar is not None:
            dfs(bar, BarModel(meter), meter, (), depth if (not quick or meter in ((4, 4), (6, 8), (0, 0))) else 2)

    # ================================================================== 4. two-value fills: k x v1, then v2 to capacity
    minlen = Fr(1, 32) if quick else Fr(1, 64)
    V2 = [t for t in VOC if t[2] >= minlen]
    for meter in METERS:
        if meter == (0, 0):
            continue
        L = Fr(meter[0], meter[1])
        for v1 in V2:
            if v1[2] > L:
                continue
            bar, model = new_bar(meter), BarModel(meter)
            if bar is None:
                break
            k = 0
            while model.fits(v1[2]) and k < 64:
                k += 1
                if not do_place(bar, model, "place", v1, CONTENTS[1], (meter, v1[0], k), full=False):
                    break
                if len(model.entries) != k:
                    break       # (known) false refusal: this prefix cannot be built
                for v2 in V2:
                    if v2 is v1 or (quick and (k * 7 + len(v2[0])) % 3 and k > 4):
                        continue
                    R.case("fill to capacity (two values)", (meter, v1[0], k, v2[0]))
                    fill(clone(bar, meter), model.copy(), v2, (meter, (v1[0], k)))

    # ================================================================== 4b. the capacity boundary, value by value
    # the bar is filled with base values up to L - D, D = n * (length of t) the shortest binary-fraction span that n
    # notes of value t fill; after j = 0..n-1 notes of t EVERY value of the vocabulary is tried on a copy (so that
    # near misses such as 1/192 into a gap of 1/224 and exact fits are both decided)
    base_lengths = sorted((t for t in VOC if t[0].startswith("base")), key=lambda t: -t[2])
    for meter in METERS:
        if meter == (0, 0):
            continue
        L = Fr(meter[0], meter[1])
        for t in VOC:
            n = 1
            while (t[2] * n).denominator & ((t[2] * n).denominator - 1):
                n += 1
            D = t[2] * n
            if D > L or (quick and n == 1 and not t[0].startswith("base")):
                continue
            bar, model = new_bar(meter), BarModel(meter)
            if bar is None:
                break
            ok = True
            for bl in base_lengths:
                while ok and model.total + bl[2] <= L - D:
                    ok = do_place(bar, model, "place", bl, CONTENTS[2], (meter, t[0], "prefill", bl[0]),
                                  full=False) == "accepted"
            if not ok or model.total != L - D:
                continue
            for j in range(n):
                for b in VOC:
                    R.case("capacity boundary", (meter, t[0], j, b[0]))
                    b2, m2 = clone(bar, meter), model.copy()
                    do_place(b2, m2, "place" if (j + len(b[0])) % 4 else "rest", b, CONTENTS[3],
                             (meter, "prefill to L-%s" % D, (t[0], j), b[0]), full=False)
                if j < n - 1 and do_place(bar, model, "place", t, CONTENTS[0], (meter, t[0], "x", j + 1),
                                          full=False) != "accepted":
                    break

    # ================================================================== 5. long random histories
    nh, hl = (120, 150) if quick else (2500, 400)
    for i in range(nh):
        meter = METERS[i % len(METERS)] if rnd.random() < 0.8 else (rnd.randint(1, 13), 2 ** rnd.randint(0, 5))
        bar, model = new_bar(meter), BarModel(meter)
        if bar is None:
            continue
        # vocabulary bias: mostly values that can fit several times
        L = model.L if model.L is not None else Fr(4)
        pool = [t for t in VOC if t[2] <= L] or VOC
        fine = [t for t in pool if t[2] <= L / 4] or pool
        hist = [meter]
        for j in range(hl):
            r = rnd.random()
            R.case("history (random)", (i, j) if j == hl - 1 else None)
            full = (j % 10 == 9) or j == hl - 1
            left = None if model.L is None else model.L - model.total
            if r < 0.30 and model.entries:
                hist.append("rmlast")
                ok = do_remove_last(bar, model, hist[-12:], full)
            elif r < 0.36:
                hist.append("+")
                ok = do_place(bar, model, "plus", beat_voc(meter), rnd.choice(CONTENTS), hist[-12:], full)
            else:
                # aim at the boundary: prefer a value that fills the bar exactly when there is one
                exact = [t for t in pool if left is not None and t[2] == left]
                if exact and rnd.random() < 0.6:
                    voc = rnd.choice(exact)
                else:
                    voc = rnd.choice(fine if rnd.random() < 0.7 else pool if rnd.random() < 0.9 else VOC)
                how = "rest" if rnd.random() < 0.25 else "place"
                hist.append((how, voc[0]))
                ok = do_place(bar, model, how, voc, rnd.choice(CONTENTS), hist[-12:], full)
            if not ok:
                break
            # now and then: assign content / add notes at a beat; only that entry's content may change
            if model.entries and rnd.random() < 0.08:
                content_ops(bar, model, rnd.randrange(len(model.entries)), rnd.choice(CONTENTS + [None]),
                            rnd.random() < 0.5, hist[-12:])

    # ================================================================== 6. content assignment, exhaustively on small bars
    shapes = [["n"], ["r"], ["n", "n"], ["n", "r", "n"], ["r", "n", "r", "n"], ["n", "n", "n", "n"]]
    for meter in [(4, 4), (6, 8), (0, 0)]:
        for sh in shapes:
            for vlabel in ("base 4", "triplet 8", "dotted 8"):
                for idx in range(len(sh)):
                    for c in CONTENTS + [None]:
                        for at in (False, True):
                            R.case("content assignment", (meter, tuple(sh), vlabel, idx, c, at))
                            bar, model = new_bar(meter), BarModel(meter)
                            if bar is None:
                                continue
                            for k, s in enumerate(sh):
                                do_place(bar, model, "place" if s == "n" else "rest", find(vlabel),
                                         CONTENTS[(k + idx) % len(CONTENTS)], (meter, sh, k), full=False)
                            if len(model.entries) == len(sh):
                                content_ops(bar, model, idx, c, at, (meter, sh, vlabel, idx, c, at))
    R.assumptions.append("start beats / current beat are floats: compared with the exact rational values to within "
                         "1e-9; the acceptance verdict and bar length are compared exactly")
    R.assumptions.append("'+' places one beat (value = beat unit); in the (0,0) meter the value '+' uses is adopted "
                         "from the appended entry; remove-last is only issued on a non-empty bar; meters with a "
                         "zero or negative count are only checked for set_meter acceptance and length")
    return R.result(
        "set_meter: %d counts x %d units (incl. non-powers, 0, negatives, 2**20) by set_meter and constructor; "
        "fills: every one of %d documented values (10 base, dotted, double dotted, triplet, quintuplet, 2 septuplets) "
        "x %d meters to capacity; exhaustive histories of depth <= %d over %d operations (%d place, %d rest, '+', "
        "remove-last) x meters, each history of depth <= %d continued by %d fills to capacity; two-value fills "
        "k x v1 then v2 for all pairs of values of length >= %s; capacity boundary: gaps D - j*len(t) for every value "
        "t x every value tried; %d random histories of %d operations; content "
        "assignment / place_notes_at on %d bar shapes x 3 meters x 3 values x every index x %d contents"
        % (len(counts), len(units), len(VOC), len(METERS), depth, len(OPS), len(small), len(rests), fill_depth,
           len(FILLS), minlen, nh, hl, len(shapes), len(CONTENTS) + 1),
        exhaustive=False)
