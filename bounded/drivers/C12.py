"""C12 bounded stand-in: a NoteContainer is a pitch-ordered, duplicate-free set under any history.

The REAL NoteContainer is driven through operation histories (every add/remove form of the property) and compared
after every step with an independent set model written here:

    model state   : dict  pitch -> admissible spellings {(name, octave)}   (pitch = 12*octave + letter + #s - bs)
    add object    : insert the pitch unless already present
    add bare name : empty container -> octave 4; otherwise the unique octave that puts the note at or above the
                    previous top note and less than an octave above it (this is the property's own wording)
    remove name   : drop every entry spelled with that name; with octave: only that octave; by note: that pitch

Nothing of note_container.py is used to compute an expectation.  The pairwise consonance predicates of
mingus.core.intervals are "the pairwise predicate" of the statement and are therefore used as given.
"""
import itertools
import random

from bounded.drv import Recorder

BASE = {"C": 0, "D": 2, "E": 4, "F": 5, "G": 7, "A": 9, "B": 11}
LETTERS = "CDEFGAB"
MAJOR = [0, 2, 4, 5, 7, 9, 11]
NATURAL_MINOR = [0, 2, 3, 5, 7, 8, 10]

PROPOSED_FINDINGS = [
    dict(property="C12", id="voicing-exotic-spelling",
         function="mingus.containers.note_container.NoteContainer.add_note",
         clause="bare-names-voiced-upward",
         region="a bare name is voiced while it or the current top note is spelled with letter+accidentals outside "
                "0..11 (e.g. 'Cb', 'B#', 'Cbb', 'B##'); the result is exactly the 'same nominal octave as the top "
                "note, one higher if that compares lower' rule",
         what="add_note picks the octave of a bare name by comparing it in the NOMINAL octave of the top note, so "
              "spellings that cross the octave line are voiced an octave off: 'Cb' then 'B#' gives Cb-4, B#-4 "
              "(13 semitones above the top: not 'less than an octave above'); 'B#' then 'Cb' gives Cb-5 = 59 BELOW "
              "the previous top B#-4 = 60 (not 'at or above'); 'Cb' then 'B' gives exactly an octave (12)",
         witness_code="from mingus.containers.note_container import NoteContainer\n"
                      "nc = NoteContainer()\nnc.add_note('Cb')\nnc.add_note('B#')\n"
                      "observed = (repr(nc), int(nc[1]) - int(nc[0]))\n"
                      "holds = 0 <= int(nc[1]) - int(nc[0]) < 12\n"),
]


# ----------------------------------------------------------------------------------------------- spec vocabulary
def off(name):
    """letter + accidentals, NOT reduced mod 12 ('Cb' -> -1, 'B#' -> 12)"""
    return BASE[name[0]] + name[1:].count("#") - name[1:].count("b")


def pitch(name, octave):
    return 12 * octave + off(name)


def exotic(name):
    return not 0 <= off(name) <= 11


def voiced_octave(name, top):
    """the octave o with top <= pitch(name, o) < top + 12"""
    return -((off(name) - top) // 12)


class Model(object):
    """set model; `deviant` switches bare-name voicing to the rule of finding voicing-exotic-spelling (only used
    to recognise that finding, never as the expectation)."""

    def __init__(self, deviant=False):
        self.s = {}          # pitch -> set of admissible (name, octave)
        self.deviant = deviant
        self.exotic_voicing = False   # a bare name was voiced with an exotic spelling involved

    def copy(self):
        m = Model(self.deviant)
        m.s = {p: set(v) for p, v in self.s.items()}
        m.exotic_voicing = self.exotic_voicing
        return m

    def pitches(self):
        return sorted(self.s)

    def add_exact(self, name, octave):
        p = pitch(name, octave)
        if p in self.s:
            # a set keeps its element; which of two enharmonic spellings stays is not fixed by the property
            self.s[p] = set(self.s[p]) | {(name, octave)}
        else:
            self.s[p] = {(name, octave)}

    def add_bare(self, name):
        if not self.s:
            self.add_exact(name, 4)
            return
        top = max(self.s)
        tops = self.s[top]
        if exotic(name) or any(exotic(n) for n, _ in tops):
            self.exotic_voicing = True
        if self.deviant:
            tn, to = sorted(tops)[0]
            o = to + 1 if pitch(name, to) < top else to
        else:
            o = voiced_octave(name, top)
        self.add_exact(name, o)

    def add_item(self, it):
        if it[0] == "bare":
            self.add_bare(it[1])
        else:
            self.add_exact(it[1], it[2])

    def remove_name(self, name, octave=None):
        for p in list(self.s):
            keep = set(sp for sp in self.s[p] if not (sp[0] == name and (octave is None or sp[1] == octave)))
            if len(keep) != len(self.s[p]):
                # all admissible spellings of one pitch are resolved (singletons) before any removal, see resync
                del self.s[p]

    def remove_pitch(self, p):
        self.s.pop(p, None)

    def apply(self, op):
        k = op[0]
        if k in ("add_note", "add_notes1", "plus1"):
            self.add_item(op[1])
        elif k in ("add_notes", "plus", "ctor"):
            for it in op[1]:
                self.add_item(it)
        elif k in ("add_cont", "plus_cont"):
            for n, o in op[1]:
                self.add_exact(n, o)
        elif k == "rm_name":
            self.remove_name(op[1])
        elif k == "rm_name_oct":
            self.remove_name(op[1], op[2])
        elif k == "rm_obj":
            self.remove_pitch(pitch(op[1], op[2]))
        elif k in ("rm_notes", "minus"):
            for it in op[1]:
                if it[0] == "bare":
                    self.remove_name(it[1])
                else:
                    self.remove_pitch(pitch(it[1], it[2]))
        elif k in ("rm_notes1", "minus1"):
            it = op[1]
            if it[0] == "bare":
                self.remove_name(it[1])
            else:
                self.remove_pitch(pitch(it[1], it[2]))
        elif k == "empty":
            self.s = {}
        elif k in ("dedup", "sort"):
            pass
        else:
            raise AssertionError(k)


def has_bare(op):
    if op[0] in ("add_note", "add_notes1", "plus1"):
        return op[1][0] == "bare"
    if op[0] in ("add_notes", "plus", "ctor"):
        return any(it[0] == "bare" for it in op[1])
    return False


# ----------------------------------------------------------------------------------------------- driver
def run(tier, seed):
    from mingus.containers.note import Note
    from mingus.containers.note_container import NoteContainer
    from mingus.core import intervals, chords, progressions, keys

    R = Recorder("C12", tier, seed)
    for f in PROPOSED_FINDINGS:
        R.known.append(f) if f["id"] not in [k.get("id") for k in R.known] else None
    rnd = random.Random(seed)
    quick = tier == "quick"

    # ---- building real arguments from descriptions
    def real_item(it, in_list):
        if it[0] == "bare":
            return it[1]
        if it[0] == "obj":
            return Note(it[1], it[2])
        if it[0] == "txt":
            return "%s-%d" % (it[1], it[2])
        if it[0] == "pair":
            assert in_list
            return [it[1], it[2]]
        if it[0] == "triple":
            assert in_list
            return [it[1], it[2], {}]
        raise AssertionError(it)

    def real_container(pairs):
        return NoteContainer([[n, o] for n, o in pairs])

    def apply_real(nc, op):
        """run the real operation; returns the container to continue with"""
        k = op[0]
        if k == "add_note":
            it = op[1]
            if it[0] == "pair":
                nc.add_note(it[1], it[2])
            elif it[0] == "triple":
                nc.add_note(it[1], it[2], {})
            else:
                nc.add_note(real_item(it, False))
        elif k == "add_notes1":
            nc.add_notes(real_item(op[1], False))
        elif k == "plus1":
            nc = nc + real_item(op[1], False)
        elif k == "add_notes":
            nc.add_notes([real_item(it, True) for it in op[1]])
        elif k == "plus":
            nc = nc + [real_item(it, True) for it in op[1]]
        elif k == "ctor":
            nc = NoteContainer([real_item(it, True) for it in op[1]])
        elif k == "add_cont":
            nc.add_notes(real_container(op[1]))
        elif k == "plus_cont":
            nc = nc + real_container(op[1])
        elif k == "rm_name":
            nc.remove_note(op[1])
        elif k == "rm_name_oct":
            nc.remove_note(op[1], op[2])
        elif k == "rm_obj":
            nc.remove_note(Note(op[1], op[2]))
        elif k == "rm_notes":
            nc.remove_notes([real_item(it, False) for it in op[1]])
        elif k == "minus":
            nc = nc - [real_item(it, False) for it in op[1]]
        elif k == "rm_notes1":
            nc.remove_notes(real_item(op[1], False))
        elif k == "minus1":
            nc = nc - real_item(op[1], False)
        elif k == "empty":
            nc.empty()
        elif k == "dedup":
            nc.remove_duplicate_notes()
        elif k == "sort":
            nc.sort()
        else:
            raise AssertionError(k)
        return nc

    def observed(nc):
        return [(n.name, n.octave) for n in nc.notes]

    def matches(obs, model):
        if len(obs) != len(model.s):
            return False
        seen = set()
        for n, o in obs:
            p = pitch(n, o)
            if p in seen or p not in model.s or (n, o) not in model.s[p]:
                return False
            seen.add(p)
        return True

    def resync(model, obs):
        model.s = {}
        for n, o in obs:
            model.s.setdefault(pitch(n, o), set()).add((n, o))

    REMOVALS = {"rm_name": "removal-by-name-removes-that-name-in-every-octave",
                "rm_name_oct": "removal-with-octave-only-that-one"}

    def step(group, nc, model, op, hist):
        """apply op to the real container and the model, check content and invariants; returns the container"""
        dev = None
        if has_bare(op):
            dev = model.copy()
            dev.deviant = True
            dev.exotic_voicing = False
        ok, nc2 = R.guard(group, "holds-exactly-the-pitches-a-set-model-predicts", hist, lambda: apply_real(nc, op))
        if not ok:
            return None
        nc = nc2
        model.exotic_voicing = False
        model.apply(op)
        obs = observed(nc)
        ps = [pitch(n, o) for n, o in obs]
        if any(a > b for a, b in zip(ps, ps[1:])):
            R.fail(group, "sorted-from-low-to-high", "content %r after %r" % (obs, op), hist)
        if len(set(ps)) != len(ps):
            R.fail(group, "no-two-notes-of-equal-pitch", "content %r after %r" % (obs, op), hist)
        if not matches(obs, model):
            want = sorted((p, sorted(v)) for p, v in model.s.items())
            what = "after %r the container holds %r, the set model predicts %r" % (op, obs, want)
            if has_bare(op):
                clause, finding = "bare-names-voiced-upward", None
                dev.apply(op)
                if (dev.exotic_voicing or model.exotic_voicing) and matches(obs, dev):
                    finding = "voicing-exotic-spelling"
                R.fail(group, clause, what, hist, finding=finding)
            else:
                R.fail(group, REMOVALS.get(op[0], "holds-exactly-the-pitches-a-set-model-predicts"), what, hist)
        resync(model, obs)      # adopt the spelling kept for enharmonic duplicates; never cascade a failure
        return nc

    SHARPS = ["C", "C#", "D", "D#", "E", "F", "F#", "G", "G#", "A", "A#", "B"]
    RESPELL = {0: (("B#", -1), ("Dbb", 0)), 11: (("Cb", 1), ("A##", 0)), 4: (("Fb", 0),), 5: (("E#", 0),),
               1: (("Db", 0), ("B##", -1)), 10: (("Bb", 0), ("Cbb", 1))}

    def observers(group, nc, model, hist, rich):
        R.guard(group, "observers-agree-with-content", hist, lambda: observers_(group, nc, model, hist, rich))

    def observers_(group, nc, model, hist, rich):
        """length, membership, equality, unique names, consonance against the model content"""
        content = sorted((p, sorted(v)[0]) for p, v in model.s.items())
        ps = [p for p, _ in content]
        names = [sp[0] for _, sp in content]
        if len(nc) != len(ps):
            R.fail(group, "length-agrees", "len %d, model %d" % (len(nc), len(ps)), hist)
        # membership: the held pitches, their neighbours and octaves, also under enharmonic spellings
        probes = set()
        for p in ps:
            probes.update((p - 1, p, p + 1, p + 12, p - 12))
        if not ps:
            probes.update((48, 52))
        for p in sorted(probes):
            if p < 0:
                continue
            o, r = divmod(p, 12)
            spellings = [(SHARPS[r], o)]
            if rich:
                spellings += [(n, o + d) for n, d in RESPELL.get(r, ())]
            for n, po in spellings:
                probe = Note(n, po)
                got = probe in nc
                if got != (p in model.s):
                    R.fail(group, "membership-agrees", "%r in container -> %r, content %r" % (probe, got, content), hist)
        # unique-name list
        got = nc.get_note_names()
        if len(set(got)) != len(got) or set(got) != set(names):
            R.fail(group, "unique-name-list-agrees", "get_note_names %r, content %r" % (got, content), hist)
        # equality
        same = real_container([sp for _, sp in content][::-1])
        if not (nc == same) or not (same == nc):
            R.fail(group, "equality-agrees", "container %r != equal content %r" % (nc, same), hist)
        if rich:
            variants = []
            specs = [sp for _, sp in content]
            if ps:
                q = ps[-1] + 1
                extra = (SHARPS[q % 12], q // 12)
                variants += [specs[1:], specs[:-1], specs[:-1] + [extra], specs + [extra],
                             [(n, o + 1) for n, o in specs]]
            else:
                variants.append([("C", 4)])
            for v in variants:
                other = real_container(v)
                want = sorted(pitch(n, o) for n, o in v) == ps
                if (nc == other) != want or (other == nc) != want:
                    R.fail(group, "equality-agrees", "%r == %r -> %r" % (nc, other, nc == other), hist)
        # consonance predicates: true exactly when every pair (low, high) satisfies the pairwise predicate
        pairs = list(itertools.combinations(names, 2))
        for label, meth, pw, args in (
                ("is_consonant", nc.is_consonant, intervals.is_consonant, [(), (True,), (False,)]),
                ("is_perfect_consonant", nc.is_perfect_consonant, intervals.is_perfect_consonant,
                 [(), (True,), (False,)]),
                ("is_imperfect_consonant", nc.is_imperfect_consonant, intervals.is_imperfect_consonant, [()])):
            for a in (args if rich else args[:1]):
                want = all(pw(x, y, *a) for x, y in pairs)
                got = meth(*a)
                if bool(got) != want:
                    R.fail(group, "consonance-predicates-agree",
                           "%s%r -> %r on %r, every-pair says %r" % (label, a, got, names, want), hist)
        # dissonance: the complement of consonance (for two notes: the pairwise dissonance predicate)
        for a in ((), (True,), (False,)) if rich else ((),):
            got = nc.is_dissonant(*a)
            inc = a[0] if a else False
            want = not all(intervals.is_consonant(x, y, not inc) for x, y in pairs)
            if len(names) == 2 and want != intervals.is_dissonant(names[0], names[1], *a):
                want = None
            if want is not None and bool(got) != want:
                R.fail(group, "dissonance-is-complement-of-consonance",
                       "is_dissonant%r -> %r on %r" % (a, got, names), hist)

    def clone(nc):
        c = NoteContainer()
        c.notes = [Note(n.name, n.octave) for n in nc.notes]
        return c

    # ================================================================== 1. exhaustive histories over an alphabet
    ALPHABET = [
        ("add_note", ("obj", "C", 4)),
        ("add_note", ("obj", "B#", 3)),                       # enharmonic duplicate of C-4
        ("add_note", ("bare", "E")),
        ("add_note", ("bare", "C")),
        ("add_note", ("pair", "G", 3)),                       # add_note('G', 3)
        ("add_note", ("bare", "Cb")),                         # spellings across the octave line
        ("add_note", ("bare", "B#")),
        ("add_notes", (("bare", "G"), ("bare", "E"))),        # list of bare names: the second wraps upward
        ("add_notes", (("pair", "C", 5), ("triple", "E", 3), ("obj", "E", 4), ("bare", "A"))),
        ("add_cont", (("G", 4), ("E", 5), ("Fb", 4))),        # another container (Fb-4 == E-4)
        ("plus1", ("bare", "B")),
        ("plus", (("obj", "G", 4), ("txt", "D", 5))),
        ("rm_name", "C"),
        ("rm_name_oct", "E", 4),
        ("rm_obj", "C", 4),                                   # by note: pitch 48 whatever its spelling
        ("rm_notes", (("bare", "G"), ("obj", "E", 5))),
        ("minus1", ("bare", "E")),
        ("minus", (("obj", "B#", 3), ("bare", "B"))),
        ("rm_notes1", ("obj", "G", 3)),
    ]
    STARTS = [("empty", None),
              ("ctor", (("bare", "C"), ("bare", "E"), ("bare", "G"))),
              ("ctor", (("pair", "A", 2), ("pair", "A", 5), ("obj", "C", 4), ("bare", "C")))]
    depth = 3 if quick else 4
    starts = STARTS[:2] if quick else STARTS

    def dfs(nc, model, hist, d):
        for op in ALPHABET:
            h = hist + (op,)
            R.case("history (exhaustive)", h)
            model_c = model.copy()
            nc2 = step("NoteContainer history", clone(nc), model_c, op, h)
            if nc2 is None:
                continue
            observers("NoteContainer observers", nc2, model_c, h, rich=(d >= depth - 1))
            if d > 1:
                dfs(nc2, model_c, h, d - 1)

    for st in starts:
        nc, model = NoteContainer(), Model()
        hist = ()
        if st[0] == "ctor":
            hist = (st,)
            nc = step("NoteContainer history", nc, model, st, hist)
            observers("NoteContainer observers", nc, model, hist, True)
        dfs(nc, model, hist, depth)
    n_exh = R.evaluations

    # deeper exhaustive exploration over the operations that interact most (thorough only)
    if not quick:
        SMALL = [ALPHABET[i] for i in (0, 1, 2, 3, 5, 6, 7, 12, 13, 14, 16)]
        deep = 5

        def dfs2(nc, model, hist, d):
            for op in SMALL:
                h = hist + (op,)
                R.case("history (exhaustive, 11 forms)", None)
                mc = model.copy()
                nc2 = step("NoteContainer history", clone(nc), mc, op, h)
                if nc2 is None:
                    continue
                if d == 1:
                    observers("NoteContainer observers", nc2, mc, h, rich=False)
                else:
                    dfs2(nc2, mc, h, d - 1)
        dfs2(NoteContainer(), Model(), (), deep)

    # ================================================================== 2. long random histories
    names2 = [l + a for l in LETTERS for a in ("", "#", "b", "##", "bb", "#b", "b#")]
    plain = [n for n in names2 if not exotic(n)]

    def rand_history(length, pool, octs, p_exotic):
        def name():
            if rnd.random() < p_exotic:
                return rnd.choice(names2)
            return rnd.choice(pool)

        def item(kinds):
            k = rnd.choice(kinds)
            if k == "bare":
                return ("bare", name())
            return (k, name(), rnd.choice(octs))

        ops = []
        if rnd.random() < 0.5:
            ops.append(("ctor", tuple(item(("bare", "bare", "obj", "pair", "triple", "txt"))
                                      for _ in range(rnd.randint(0, 4)))))
        while len(ops) < length:
            r = rnd.random()
            if r < 0.22:
                ops.append(("add_note", item(("bare", "bare", "obj", "pair", "triple", "txt"))))
            elif r < 0.30:
                ops.append((rnd.choice(("add_notes1", "plus1")), item(("bare", "obj", "txt"))))
            elif r < 0.42:
                ops.append((rnd.choice(("add_notes", "plus")),
                            tuple(item(("bare", "bare", "obj", "pair", "triple", "txt"))
                                  for _ in range(rnd.randint(0, 4)))))
            elif r < 0.50:
                ops.append((rnd.choice(("add_cont", "plus_cont")),
                            tuple((name(), rnd.choice(octs)) for _ in range(rnd.randint(0, 4)))))
            elif r < 0.62:
                ops.append(("rm_name", name()))
            elif r < 0.72:
                ops.append(("rm_name_oct", name(), rnd.choice(octs)))
            elif r < 0.80:
                ops.append(("rm_obj", name(), rnd.choice(octs)))
            elif r < 0.90:
                ops.append((rnd.choice(("rm_notes", "minus")),
                            tuple(item(("bare", "obj")) for _ in range(rnd.randint(0, 3)))))
            elif r < 0.95:
                ops.append((rnd.choice(("rm_notes1", "minus1")), item(("bare", "obj"))))
            elif r < 0.97:
                ops.append(("dedup",))
            elif r < 0.99:
                ops.append(("sort",))
            else:
                ops.append(("empty",))
        return ops

    # ---- two live containers: adding one container to another must not tie their later histories together
    G2 = "two live containers"
    for i in range(120 if quick else 2500):
        conts = [NoteContainer(), NoteContainer()]
        models = [Model(), Model()]
        hist = ()
        pool = ["C", "E", "G", "B", "D#", "Eb", "A"]
        for j in range(14 if quick else 24):
            w = rnd.randrange(2)
            r = rnd.random()
            R.case(G2, (i, j) if j % 7 == 6 else None)
            if r < 0.35:
                # feed the OTHER live container (not a throw-away copy) into this one
                form = rnd.choice(("add_notes", "plus", "ctor"))
                hist = hist + ((form + "(other live container)", w),)
                other = conts[1 - w]
                snapshot = observed(other)

                def feed(form=form, w=w, other=other):
                    if form == "add_notes":
                        conts[w].add_notes(other)
                    elif form == "plus":
                        conts[w] = conts[w] + other
                    else:
                        conts[w] = NoteContainer(other)
                ok, _ = R.guard(G2, "holds-exactly-the-pitches-a-set-model-predicts", hist, feed)
                if not ok:
                    break
                if form == "ctor":
                    models[w] = Model()
                for n, o in snapshot:
                    models[w].add_exact(n, o)
            else:
                op = rand_history(1, pool, [3, 4, 5], 0.0)[-1]
                if op[0] == "ctor":
                    continue
                hist = hist + ((w, op),)
                nc2 = step(G2, conts[w], models[w], op, hist)
                if nc2 is None:
                    break
                conts[w] = nc2
            bad = False
            for q in (0, 1):
                obs = observed(conts[q])
                if not matches(obs, models[q]):
                    R.fail(G2, "holds-exactly-the-pitches-a-set-model-predicts",
                           "container %d holds %r, its set model predicts %r (an operation on the other container "
                           "changed it?)" % (q, obs, sorted(models[q].s)), hist)
                    bad = True
                resync(models[q], obs)
            if bad:
                break

    nseq, length = (250, 40) if quick else (4000, 60)
    for i in range(nseq):
        mode = i % 3
        if mode == 0:       # dense: few names, two octaves -> many collisions and removals that hit
            ops = rand_history(length, ["C", "E", "G", "B", "Fb", "D#", "Eb"], [3, 4, 5], 0.03)
        elif mode == 1:     # plain spellings, wide range
            ops = rand_history(length, plain, list(range(0, 9)), 0.0)
        else:               # every spelling with <= 2 accidentals
            ops = rand_history(length, names2, list(range(0, 9)), 1.0)
        nc, model = NoteContainer(), Model()
        hist = ()
        for j, op in enumerate(ops):
            hist = hist + (op,)
            R.case("history (random)", (i, j) if j == len(ops) - 1 else None)
            nc = step("NoteContainer history", nc, model, op, hist)
            if nc is None:
                break
            if j % 4 == 3 or j == len(ops) - 1:
                observers("NoteContainer observers", nc, model, hist, rich=(j % 8 == 7))

    # ================================================================== 3. voicing of bare names, exhaustively
    # every ordered pair (and triple in thorough) of names with <= 2 accidentals given as bare names
    pool = names2 if not quick else [l + a for l in LETTERS for a in ("", "#", "b", "##", "bb")]
    for a in pool:
        for b in pool:
            for form in ("ctor", "add_note"):
                R.case("bare-name voicing", (a, b, form))
                ops = [("ctor", (("bare", a), ("bare", b)))] if form == "ctor" else \
                    [("add_note", ("bare", a)), ("add_note", ("bare", b))]
                nc, model = NoteContainer(), Model()
                hist = ()
                for op in ops:
                    hist = hist + (op,)
                    nc = step("NoteContainer.add_note (bare names)", nc, model, op, hist)
                    if nc is None:
                        break
                if nc is None:
                    continue
                if not exotic(a) and not exotic(b) and len(nc) >= 1:
                    # the property's wording, checked without the model
                    first = nc[0]
                    if (first.name, first.octave) != (a, 4):
                        R.fail("NoteContainer.add_note (bare names)", "starts-on-the-root-in-octave-4",
                               "%r, %r -> %r" % (a, b, nc), hist)
                    if len(nc) == 2 and not 0 < int(nc[1]) - int(nc[0]) < 12:
                        R.fail("NoteContainer.add_note (bare names)", "bare-names-voiced-upward",
                               "%r, %r -> %r" % (a, b, nc), hist)
    if not quick:
        tri = [l + a for l in LETTERS for a in ("", "#", "b")] + ["B##", "Cbb", "E##", "Fbb"]
        for a in tri:
            for b in tri:
                for c in tri:
                    R.case("bare-name voicing", (a, b, c))
                    nc, model = NoteContainer(), Model()
                    step("NoteContainer.add_note (bare names)", nc, model,
                         ("add_notes", (("bare", a), ("bare", b), ("bare", c))), (a, b, c))
    # bare names on top of an arbitrary top note (octaves 0..8)
    tops = [(n, o) for n in (plain if quick else names2) for o in ((0, 4, 8) if quick else range(0, 9))]
    adds = [l + a for l in LETTERS for a in ("", "#", "b")] if quick else names2
    for tn, to in tops:
        for b in adds:
            R.case("bare-name voicing", (tn, to, b))
            nc, model = NoteContainer(), Model()
            hist = (("add_note", ("pair", tn, to)), ("add_note", ("bare", b)))
            for op in hist:
                nc = step("NoteContainer.add_note (bare names)", nc, model, op, hist)
                if nc is None:
                    break

    # ================================================================== 4. shorthand constructors
    roots = [l + a for l in LETTERS for a in ("", "#", "b", "##", "bb")]

    def voiced(names):
        m = Model()
        for n in names:
            m.add_bare(n)
        return m

    def check_built(group, nc, names, root_letter, root_pitch, inputs):
        """nc was built from the bare names `names` in order"""
        if not hasattr(nc, "notes"):
            R.fail(group, "ascends-through-the-chords-notes-in-order", "constructor returned %r" % (nc,), inputs)
            return
        obs = observed(nc)
        ps = [pitch(n, o) for n, o in obs]
        if any(a >= b for a, b in zip(ps, ps[1:])):
            R.fail(group, "sorted-from-low-to-high", "%r" % (obs,), inputs)
        m = voiced(names)
        if not matches(obs, m):
            finding = None
            d = Model(deviant=True)
            for n in names:
                d.add_bare(n)
            if (d.exotic_voicing or m.exotic_voicing) and matches(obs, d):
                finding = "voicing-exotic-spelling"
            R.fail(group, "ascends-through-the-chords-notes-in-order",
                   "names %r -> %r, voiced upward gives %r" % (names, obs, sorted(m.s.items())), inputs,
                   finding=finding)
        if obs:
            n0, o0 = obs[0]
            if o0 != 4 or n0[0] != root_letter or pitch(n0, o0) != root_pitch:
                # only a violation if the first note really is not the root in octave 4
                finding = None
                if any(exotic(n) for n in names):
                    d = Model(deviant=True)
                    for n in names:
                        d.add_bare(n)
                    if matches(obs, d):
                        finding = "voicing-exotic-spelling"
                R.fail(group, "starts-on-the-root-in-octave-4",
                       "first note %s-%d, root letter %s pitch %d" % (n0, o0, root_letter, root_pitch), inputs,
                       finding=finding)
        else:
            R.fail(group, "starts-on-the-root-in-octave-4", "empty container", inputs)

    # 4a. chords: every shorthand of the table x 35 roots
    for sh in sorted(chords.chord_shorthand):
        for r in roots:
            R.case("from_chord_shorthand", (r, sh))
            ok, names = R.guard("chords.from_shorthand (input)", "chord-names", (r, sh),
                                lambda: chords.from_shorthand(r + sh))
            if not ok or not names:
                continue
            for ctor in ("from_chord_shorthand", "from_chord"):
                ok, nc = R.guard("NoteContainer.from_chord_shorthand", "ascends-through-the-chords-notes-in-order",
                                 (r, sh), lambda: getattr(NoteContainer(["F", "A"]), ctor)(r + sh))
                if ok:
                    check_built("NoteContainer.from_chord_shorthand", nc, names, r[0], pitch(r, 4), (r, sh))
    # slash chords and polychords: bass note first (only the ascent is checked: the root is not the first note)
    for text in ["Am/C", "C/G", "Dm7/G", "F#m/E", "Am|C", "Dm|G", "C/Bb"] + \
            ([] if quick else [r + "M7/" + b for r in roots[:10] for b in ("C", "F#", "Bb")]):
        R.case("from_chord_shorthand", text)
        ok, names = R.guard("chords.from_shorthand (input)", "chord-names", text, lambda: chords.from_shorthand(text))
        if ok and names:
            ok, nc = R.guard("NoteContainer.from_chord_shorthand", "ascends-through-the-chords-notes-in-order",
                             text, lambda: NoteContainer().from_chord_shorthand(text))
            if ok:
                check_built("NoteContainer.from_chord_shorthand", nc, names, names[0][0], pitch(names[0], 4), text)

    # 4b. intervals: every shorthand (accidentals x 1..7) x 35 roots, up and down
    for acc in ("", "b", "bb", "#", "##"):
        for num in range(1, 8):
            sh = acc + str(num)
            semis = MAJOR[num - 1] + acc.count("#") - acc.count("b")
            for r in roots:
                for start in ("name", "note"):
                    R.case("from_interval_shorthand", (r, sh, start))
                    arg = r if start == "name" else Note(r, 4)
                    ok, nc = R.guard("NoteContainer.from_interval_shorthand", "starts-on-the-root-in-octave-4",
                                     (r, sh, start),
                                     lambda: NoteContainer(["F", "A"]).from_interval_shorthand(arg, sh))
                    if not ok:
                        continue
                    obs = observed(nc)
                    ps = [pitch(n, o) for n, o in obs]
                    letter2 = LETTERS[(LETTERS.index(r[0]) + num - 1) % 7]
                    if any(a >= b for a, b in zip(ps, ps[1:])):
                        R.fail("NoteContainer.from_interval_shorthand", "sorted-from-low-to-high", repr(obs),
                               (r, sh))
                    if semis >= 0:
                        want = sorted(set([pitch(r, 4), pitch(r, 4) + semis]))
                        # an interval of an octave or more ('#7', '##7'): read as a transposition it lies 12/13
                        # semitones up, read as a name voiced upward it lies less than an octave up; both accepted
                        alt = sorted(set([pitch(r, 4), pitch(r, 4) + semis % 12]))
                        if ps not in (want, alt) or obs[0] != (r, 4) or (len(obs) == 2 and obs[1][0][0] != letter2):
                            R.fail("NoteContainer.from_interval_shorthand",
                                   "starts-on-the-root-in-octave-4" if obs[:1] != [(r, 4)]
                                   else "ascends-through-the-chords-notes-in-order",
                                   "%s %s up -> %r, expected pitches %r, second letter %s" % (r, sh, obs, want,
                                                                                           letter2), (r, sh))
                    elif (r, 4) not in obs:
                        R.fail("NoteContainer.from_interval_shorthand", "starts-on-the-root-in-octave-4",
                               "%s %s -> %r" % (r, sh, obs), (r, sh))
                # downwards: the root in octave 4 is held and is the top note; content stays an ordered set
                R.case("from_interval_shorthand", (r, sh, "down"))
                ok, nc = R.guard("NoteContainer.from_interval_shorthand", "holds-exactly-the-pitches-a-set-model-predicts",
                                 (r, sh, "down"), lambda: NoteContainer().from_interval(r, sh, False))
                if ok:
                    obs = observed(nc)
                    ps = [pitch(n, o) for n, o in obs]
                    if any(a >= b for a, b in zip(ps, ps[1:])) or (r, 4) not in obs or len(obs) > 2:
                        R.fail("NoteContainer.from_interval_shorthand",
                               "holds-exactly-the-pitches-a-set-model-predicts",
                               "%s %s down -> %r" % (r, sh, obs), (r, sh, "down"))
                    elif semis > 0 and ps != sorted(set([pitch(r, 4) - semis, pitch(r, 4)])) and semis < 12:
                        R.fail("NoteContainer.from_interval_shorthand",
                               "holds-exactly-the-pitches-a-set-model-predicts",
                               "%s %s down -> %r" % (r, sh, obs), (r, sh, "down"))

    # 4b'. a start note that is NOT in octave 4 (a name with octave, a Note object): the interval is stacked on that note
    for r in roots[::3]:
        for o in (2, 3, 5, 6):
            for sh, semis in (("3", 4), ("5", 7), ("b7", 10), ("2", 2)):
                for start in ("text", "note"):
                    R.case("from_interval_shorthand", (r, o, sh, start))
                    arg = "%s-%d" % (r, o) if start == "text" else Note(r, o)
                    ok, nc = R.guard("NoteContainer.from_interval_shorthand", "holds-exactly-the-pitches-a-set-model-predicts",
                                     (r, o, sh, start), lambda: NoteContainer().from_interval_shorthand(arg, sh))
                    if not ok:
                        continue
                    ps = [pitch(n, oo) for n, oo in observed(nc)]
                    if ps != [pitch(r, o), pitch(r, o) + semis]:
                        R.fail("NoteContainer.from_interval_shorthand", "holds-exactly-the-pitches-a-set-model-predicts",
                               "%s-%d %s up -> %r, expected pitches %r" % (r, o, sh, observed(nc), [pitch(r, o), pitch(r, o) + semis]),
                               (r, o, sh, start))
                    if start == "note":
                        # the start note is the caller's object (it may sit in another container): it is not edited,
                        # and a second interval stacked on the same object starts on the same note
                        if (arg.name, arg.octave) != (r, o):
                            R.fail("NoteContainer.from_interval_shorthand", "holds-exactly-the-pitches-a-set-model-predicts",
                                   "the start note object %s-%d is %s-%d after the call" % (r, o, arg.name, arg.octave),
                                   (r, o, sh, "argument"))
                        ok2, nc2 = R.guard("NoteContainer.from_interval_shorthand",
                                           "holds-exactly-the-pitches-a-set-model-predicts", (r, o, sh, "again"),
                                           lambda: NoteContainer().from_interval_shorthand(arg, sh))
                        if ok2 and [pitch(n, oo) for n, oo in observed(nc2)] != [pitch(r, o), pitch(r, o) + semis]:
                            R.fail("NoteContainer.from_interval_shorthand", "holds-exactly-the-pitches-a-set-model-predicts",
                                   "second interval on the same start note object: %r, expected pitches %r"
                                   % (observed(nc2), [pitch(r, o), pitch(r, o) + semis]), (r, o, sh, "again"))

    # 4c. progressions: numeral x accidental prefix x suffix x 30 keys
    suffixes = ["", "7", "m", "M7", "dim7", "dom7", "m7b5", "sus4", "13"] if quick \
        else [""] + sorted(s for s in chords.chord_shorthand if s)
    prefixes = ["", "b", "#"] if quick else ["", "b", "#", "bb", "##"]
    numerals = ["I", "II", "III", "IV", "V", "VI", "VII"]
    for key in list(keys.major_keys) + list(keys.minor_keys):
        tonic = key[0].upper() + key[1:]
        pattern = MAJOR if key[0].isupper() else NATURAL_MINOR
        for deg, num in enumerate(numerals):
            letter = LETTERS[(LETTERS.index(tonic[0]) + deg) % 7]
            root_pitch = 48 + (off(tonic) + pattern[deg]) % 12     # pitch class of the degree, octave 4 ...
            # ... spelled with `letter`: the note letter+accidentals nearest to that pitch class
            d = (root_pitch - 48 - BASE[letter] + 6) % 12 - 6
            root_pitch = 48 + BASE[letter] + d
            for pre in prefixes:
                for suf in suffixes:
                    for text in ((pre + num + suf, pre + num.lower() + suf) if suf in ("", "7") and not quick
                                 else (pre + num + suf,)):
                        R.case("from_progression_shorthand", (text, key))
                        ok, ch = R.guard("progressions.to_chords (input)", "chord-names", (text, key),
                                         lambda: progressions.to_chords(text, key))
                        if not ok or not ch:
                            continue
                        ok, nc = R.guard("NoteContainer.from_progression_shorthand",
                                         "ascends-through-the-chords-notes-in-order", (text, key),
                                         lambda: NoteContainer(["F", "A"]).from_progression_shorthand(text, key))
                        if ok:
                            check_built("NoteContainer.from_progression_shorthand", nc, ch[0], letter,
                                        root_pitch + pre.count("#") - pre.count("b"), (text, key))
    R.case("from_progression_shorthand", "default key")
    nc = NoteContainer().from_progression("VI")
    if observed(nc) != [("A", 4), ("C", 5), ("E", 5)]:
        R.fail("NoteContainer.from_progression_shorthand", "ascends-through-the-chords-notes-in-order",
               "VI in the default key -> %r" % (nc,), "VI")

    R.assumptions.append("enharmonic duplicates: the set keeps one note per pitch; which spelling stays is not fixed "
                         "by the property, the model adopts the one the container kept")
    R.assumptions.append("is_dissonant is checked as the complement of is_consonant (some pair dissonant), not as "
                         "'every pair dissonant'; NoteContainer.__setitem__, augment/diminish/transpose are outside C12")
    R.assumptions.append("chord/progression note NAMES come from chords.from_shorthand / progressions.to_chords "
                         "(C06/C08); the root, its octave and the upward voicing are computed here")
    return R.result(
        "exhaustive: all histories of depth <= %d over %d add/remove forms from %d start states (%d steps)%s; "
        "random: %d histories of %d operations (names <= 2 accidentals, octaves 0..8); bare-name voicing: all "
        "ordered pairs of %d names (constructor and add_note)%s, %d top notes x %d names; constructors: %d chord "
        "shorthands x 35 roots, 35 interval shorthands x 35 roots x up/down, 7 numerals x %d prefixes x %d suffixes "
        "x 30 keys" % (depth, len(ALPHABET), len(starts), n_exh,
                       "" if quick else " and depth 5 over 11 forms", nseq, length, len(pool),
                       "" if quick else ", all triples of 25 names", len(tops), len(adds),
                       len(chords.chord_shorthand), len(prefixes), len(suffixes)),
        exhaustive=False)
