"""C08 bounded stand-in: diatonic harmony - function names, numeral aliases, progression strings, harmonic-function
recognition, numeral parse/format, substitution rules.

Real code: mingus.core.chords (triads, sevenths, tonic..subtonic7, I..VII7), mingus.core.progressions.
Oracle: bounded/decoders/harmony.py (keys as major / natural-minor step patterns on consecutive letters, stacks of
thirds by index arithmetic, own numeral parser, own chord structures, own semitone/letter arithmetic).
"""
import random

from bounded.drv import Recorder
from bounded.decoders import harmony as H

PROPOSED_FINDINGS = [
    dict(property="C08", id="vii7-alias-returns-triad",
         function="mingus.core.chords.vii7",
         clause="numeral-aliases-denote-the-diatonic-chords",
         what="chords.vii7(key) returns subtonic(key) (the triad) instead of the seventh chord subtonic7(key), in "
              "every key; VII7 and to_chords('vii7') are right",
         witness_code="from mingus.core import chords\n"
                      "observed = chords.vii7('C')\n"
                      "holds = observed == ['B', 'D', 'F', 'A']\n"),
    dict(property="C08", id="substitute-depth-rewrites-callers-progression",
         function="mingus.core.progressions.substitute",
         clause="leaves-the-callers-progression-unchanged",
         what="progressions.substitute(progression, index, depth > 0) assigns every first-level substitute to "
              "progression[index] of the CALLER's list (new_progr = progression is an alias, not a copy) and "
              "leaves the last one there",
         witness_code="from mingus.core import progressions\n"
                      "p = ['I', 'IV', 'V', 'I']\n"
                      "progressions.substitute(p, 0, 1)\n"
                      "observed = p\n"
                      "holds = p == ['I', 'IV', 'V', 'I']\n"),
]

FUNCS = H.FUNCTIONS
LOWER_ALIASES = ["ii", "iii", "vi", "vii"]         # the lower-case aliases the module documents
DETERMINE_NUMERALS = ["I", "ii", "iii", "IV", "V", "vi", "vii"]

G_TABLE = "chords.triads/sevenths/triad/seventh"
G_FUNC = "chords.tonic..subtonic7"
G_ALIAS = "chords.I..VII7"
G_TOCH = "progressions.to_chords"
G_DET = "progressions.determine"
G_PARSE = "progressions.parse_string/tuple_to_string"
G_SUBST = "progressions.substitute*"


def run(tier, seed):
    from mingus.core import chords, progressions as P
    R = Recorder("C08", tier, seed)
    for f in PROPOSED_FINDINGS:
        R.known.append(f) if f["id"] not in [k.get("id") for k in R.known] else None
    rnd = random.Random(seed)
    quick = tier == "quick"
    keys_all = H.all_keys()
    majors = H.major_keys()
    suffixes = sorted(s for s in H.SHORTHAND if s not in ("", "7"))
    accs = list(range(-3, 4))

    def fresh(x):
        return [list(c) if isinstance(c, list) else c for c in x] if isinstance(x, list) else x

    # ------------------------------------------------------------------ 1. tables, function names, aliases
    for key in keys_all:
        kn = H.key_notes(key)
        for size, table_name, one_name in ((3, "triads", "triad"), (4, "sevenths", "seventh")):
            R.case(G_TABLE, (key, table_name))
            ok, tab = R.guard(G_TABLE, "stacks-of-thirds-inside-the-keys-notes", (key, table_name),
                              lambda: fresh(getattr(chords, table_name)(key)))
            want = [H.diatonic(key, d, size) for d in range(7)]
            if ok and tab != want:
                R.fail(G_TABLE, "stacks-of-thirds-inside-the-keys-notes",
                       "%s(%r) = %r, expected %r" % (table_name, key, tab, want), (key, table_name))
            for d in range(7):
                R.case(G_TABLE, (key, one_name, d))
                ok, ch = R.guard(G_TABLE, "stacks-of-thirds-inside-the-keys-notes", (key, one_name, kn[d]),
                                 lambda: fresh(getattr(chords, one_name)(kn[d], key)))
                if ok and ch != want[d]:
                    R.fail(G_TABLE, "stacks-of-thirds-inside-the-keys-notes",
                           "%s(%r, %r) = %r, expected %r" % (one_name, kn[d], key, ch, want[d]), (key, one_name, d))
                # model-internal sanity of the statement: members of the key, consecutive thirds
                if any(n not in kn for n in want[d]):
                    raise AssertionError("oracle error")
        for d in range(7):
            for size, tail in ((3, ""), (4, "7")):
                want = H.diatonic(key, d, size)
                # function names
                fname = FUNCS[d] + tail
                R.case(G_FUNC, (key, fname))
                fn = getattr(chords, fname, None)
                if fn is None:
                    R.fail(G_FUNC, "function-names-denote-the-diatonic-chords", "chords.%s missing" % fname, key)
                else:
                    ok, ch = R.guard(G_FUNC, "function-names-denote-the-diatonic-chords", (fname, key),
                                     lambda: fresh(fn(key)))
                    if ok and ch != want:
                        R.fail(G_FUNC, "function-names-denote-the-diatonic-chords",
                               "%s(%r) = %r, expected %r" % (fname, key, ch, want), (fname, key))
                # numeral aliases (upper case all seven; lower case where the module defines one)
                aliases = [H.NUMERALS[d] + tail]
                low = H.NUMERALS[d].lower()
                if low in LOWER_ALIASES or hasattr(chords, low + tail):
                    aliases.append(low + tail)
                for al in aliases:
                    R.case(G_ALIAS, (key, al))
                    fn = getattr(chords, al, None)
                    if fn is None:
                        R.fail(G_ALIAS, "numeral-aliases-denote-the-diatonic-chords", "chords.%s missing" % al, key)
                        continue
                    ok, ch = R.guard(G_ALIAS, "numeral-aliases-denote-the-diatonic-chords", (al, key),
                                     lambda: fresh(fn(key)))
                    if ok and ch != want:
                        fid = None
                        if al == "vii7" and ch == H.diatonic(key, 6, 3):
                            fid = "vii7-alias-returns-triad"
                        R.fail(G_ALIAS, "numeral-aliases-denote-the-diatonic-chords",
                               "%s(%r) = %r, expected %r" % (al, key, ch, want), (al, key), finding=fid)
                # progression strings, both cases, as a string and inside a list
                for num in (H.NUMERALS[d] + tail, H.NUMERALS[d].lower() + tail):
                    R.case(G_TOCH, (key, num))
                    ok, res = R.guard(G_TOCH, "progression-strings-in-either-case-denote-the-diatonic-chords",
                                      (num, key), lambda: fresh(P.to_chords(num, key)))
                    if ok and res != [want]:
                        R.fail(G_TOCH, "progression-strings-in-either-case-denote-the-diatonic-chords",
                               "to_chords(%r, %r) = %r, expected %r" % (num, key, res, [want]), (num, key))
        # whole progressions (list form): element-wise, in order
        for _ in range(4 if quick else 150):
            prog = [rnd.choice(H.NUMERALS) if rnd.random() < 0.5 else rnd.choice(H.NUMERALS).lower()
                    for _ in range(rnd.randint(2, 6))]
            prog = [H.prefix(rnd.choice((0, 0, 0, -1, 1, -2, 2, 3, -3))) + p + rnd.choice(["", "7", "", "7"] + suffixes)
                    for p in prog]
            R.case(G_TOCH, (key, tuple(prog)))
            ok, res = R.guard(G_TOCH, "progression-strings-in-either-case-denote-the-diatonic-chords", (prog, key),
                              lambda: fresh(P.to_chords(list(prog), key)))
            want = [H.denote_numeral(p, key) for p in prog]
            if ok and res != want:
                R.fail(G_TOCH, "progression-strings-in-either-case-denote-the-diatonic-chords",
                       "to_chords(%r, %r) = %r, expected %r" % (prog, key, res, want), (prog, key))

    # a progression that repeats a numeral: every bar of the answer is a list of its own (editing one bar must not change
    # another, nor a later answer)
    for key in ("C", "Eb", "f#"):
        for prog in (["I", "V", "I"], ["ii7", "V7", "ii7", "V7"], ["bVII", "IV", "bVII"], ["I", "I"]):
            R.case(G_TOCH, ("repeat", key, tuple(prog)))
            ok, res = R.guard(G_TOCH, "progression-strings-in-either-case-denote-the-diatonic-chords", (prog, key),
                              lambda: P.to_chords(list(prog), key))
            if not ok or not isinstance(res, list):
                continue
            want = [H.denote_numeral(p, key) for p in prog]
            if len(set(id(x) for x in res)) != len(res):
                R.fail(G_TOCH, "progression-strings-in-either-case-denote-the-diatonic-chords",
                       "to_chords(%r, %r) returns the SAME list object for two bars" % (prog, key), (prog, key))
                continue
            res[0].append("X")
            again = R.guard(G_TOCH, "progression-strings-in-either-case-denote-the-diatonic-chords", (prog, key),
                            lambda: P.to_chords(list(prog), key))[1]
            if [list(x) for x in res[1:]] != want[1:] or again != want:
                R.fail(G_TOCH, "progression-strings-in-either-case-denote-the-diatonic-chords",
                       "after editing the first bar of to_chords(%r, %r): other bars %r, a second call %r, expected %r"
                       % (prog, key, res[1:], again, want), (prog, key))

    # ------------------------------------------------------------------ 2. prefixes and suffixes
    def shifted_ok(got, base, acc):
        """every note of `got` is the note of `base` on the same letter, acc semitones away"""
        return (isinstance(got, list) and len(got) == len(base)
                and all(H.is_name(g) and g[0] == b[0] and H.net(g) - H.net(b) == acc for g, b in zip(got, base)))

    # (prefix text, semitones): the quantifier's -3..+3; tier thorough adds up to six accidentals and mixed runs
    prefixes = [(H.prefix(a), a) for a in (accs if quick else range(-6, 7))]
    prefixes += [("#b", 0), ("b#", 0)] + ([] if quick else [("##b", 1), ("b#b", -1), ("#b#b", 0), ("bb#", -1)])
    for key in keys_all:
        kn = H.key_notes(key)
        for d in range(7):
            for case in (str, str.lower):
                roman = case(H.NUMERALS[d])
                for pre, acc in prefixes:
                    # prefix on the diatonic triad / seventh
                    for tail, size in (("", 3), ("7", 4)):
                        num = pre + roman + tail
                        R.case(G_TOCH, (key, num))
                        ok, res = R.guard(G_TOCH, "accidental-prefix-shifts-every-note-one-semitone", (num, key),
                                          lambda: fresh(P.to_chords(num, key)))
                        base = H.diatonic(key, d, size)
                        if ok and not (isinstance(res, list) and len(res) == 1 and shifted_ok(res[0], base, acc)):
                            R.fail(G_TOCH, "accidental-prefix-shifts-every-note-one-semitone",
                                   "to_chords(%r, %r) = %r; unprefixed chord %r, prefix %+d" % (num, key, res, base,
                                                                                               acc), (num, key))
                # suffixes (with every prefix in tier thorough, with a rotating one in tier quick)
                for si, suf in enumerate(suffixes):
                    use = prefixes if not quick else [("", 0), prefixes[(si + d) % len(prefixes)]]
                    base = H.build_shorthand(kn[d], suf)
                    for pre, acc in use:
                        num = pre + roman + suf
                        R.case(G_TOCH, (key, num))
                        ok, res = R.guard(G_TOCH, "chord-suffix-rebuilds-the-chord-type-on-the-degrees-root",
                                          (num, key), lambda: fresh(P.to_chords(num, key)))
                        if not ok:
                            continue
                        if not (isinstance(res, list) and len(res) == 1 and isinstance(res[0], list)
                                and len(res[0]) == len(base)):
                            R.fail(G_TOCH, "chord-suffix-rebuilds-the-chord-type-on-the-degrees-root",
                                   "to_chords(%r, %r) = %r, expected the %s on %s" % (num, key, res,
                                                                                       H.SHORTHAND[suf], kn[d]),
                                   (num, key))
                        elif pre == "" and res[0] != base:
                            R.fail(G_TOCH, "chord-suffix-rebuilds-the-chord-type-on-the-degrees-root",
                                   "to_chords(%r, %r) = %r, expected %r" % (num, key, res, [base]), (num, key))
                        elif pre != "" and not shifted_ok(res[0], base, acc):
                            R.fail(G_TOCH, "accidental-prefix-shifts-every-note-one-semitone",
                                   "to_chords(%r, %r) = %r; unprefixed chord %r, prefix %+d" % (num, key, res, base,
                                                                                               acc), (num, key))
        # unrecognised numerals: the documented empty answer
        for bad in ["", "7", "m7", "VIII", "IIII", "IIV", "VV", "IVI", "X", "bb", "#", "viii7", "iiii", "vvm7",
                    "bVIIII7", "0", "N", "VIV",
                    # words that are names inside the library (function, table, module names) are not numerals either
                    "tonic", "dominant7", "subtonic", "triads", "sevenths", "major_triad", "keys", "notes", "determine",
                    "from_shorthand", "chord_shorthand", "__name__", "six"]:
            R.case(G_TOCH, (key, "bad", bad))
            ok, res = R.guard(G_TOCH, "unrecognised-numeral-yields-the-empty-answer", (bad, key),
                              lambda: P.to_chords(bad, key))
            if ok and res != []:
                R.fail(G_TOCH, "unrecognised-numeral-yields-the-empty-answer",
                       "to_chords(%r, %r) = %r" % (bad, key, res), (bad, key))
            ok, res = R.guard(G_TOCH, "unrecognised-numeral-yields-the-empty-answer", ([bad], key),
                              lambda: P.to_chords([bad], key))
            if ok and res != []:
                R.fail(G_TOCH, "unrecognised-numeral-yields-the-empty-answer",
                       "to_chords([%r], %r) = %r" % (bad, key, res), ([bad], key))

    # ------------------------------------------------------------------ 3. harmonic function (major keys)
    def has_function(ans, d, size, shorthand):
        """positions of the answer that give the function of the diatonic chord on degree d"""
        out = []
        for i, e in enumerate(ans):
            if not isinstance(e, str):
                continue
            if shorthand:
                if e.upper() == H.NUMERALS[d] + ("7" if size == 4 else ""):
                    out.append(i)
            else:
                w = e.split(" ")
                if w[0] == FUNCS[d] and ((size == 3 and len(w) == 1) or
                                         (size == 4 and len(w) == 2 and w[1] in ("seventh", "7"))):
                    out.append(i)
                elif size == 4 and e == FUNCS[d] + "7":
                    out.append(i)
        return out

    for key in majors:
        all_chords = []
        for d in range(7):
            for size in (3, 4):
                ch = H.diatonic(key, d, size)
                all_chords.append((d, size, ch))
                # the same chord with another note lowest is the same harmony
                for k in range(1, size):
                    rot = ch[k:] + ch[:k]
                    for shorthand in (False, True):
                        R.case(G_DET, (key, d, size, shorthand, k))
                        ok, ans = R.guard(G_DET, "harmonic-function-of-a-diatonic-chord-is-returned",
                                          (rot, key, shorthand), lambda: P.determine(list(rot), key, shorthand))
                        if ok and not has_function(ans if isinstance(ans, list) else [], d, size, shorthand):
                            R.fail(G_DET, "harmonic-function-of-a-diatonic-chord-is-returned",
                                   "determine(%r, %r, %r) = %r lacks the function of degree %d"
                                   % (rot, key, shorthand, ans, d + 1), (rot, key, shorthand))
                for shorthand in (False, True):
                    R.case(G_DET, (key, d, size, shorthand))
                    ok, ans = R.guard(G_DET, "harmonic-function-of-a-diatonic-chord-is-returned",
                                      (ch, key, shorthand), lambda: P.determine(list(ch), key, shorthand))
                    if not ok:
                        continue
                    hits = has_function(ans if isinstance(ans, list) else [], d, size, shorthand)
                    if not hits:
                        R.fail(G_DET, "harmonic-function-of-a-diatonic-chord-is-returned",
                               "determine(%r, %r, %r) = %r lacks %s" % (
                                   ch, key, shorthand, ans,
                                   (DETERMINE_NUMERALS[d] + ("7" if size == 4 else "")) if shorthand
                                   else FUNCS[d] + (" seventh" if size == 4 else "")), (ch, key, shorthand))
                        continue
                    if shorthand:
                        # chord -> numeral -> chord
                        for i in hits:
                            okb, back = R.guard(G_DET, "numeral-to-chord-and-chord-to-numeral-are-inverse",
                                                (ans[i], key), lambda: fresh(P.to_chords(ans[i], key)))
                            if okb and back != [ch]:
                                R.fail(G_DET, "numeral-to-chord-and-chord-to-numeral-are-inverse",
                                       "determine(%r, %r, True) gives %r, to_chords of it gives %r"
                                       % (ch, key, ans[i], back), (ch, key))
                # numeral -> chord -> numeral (both cases of the numeral)
                for roman in (H.NUMERALS[d], H.NUMERALS[d].lower()):
                    num = roman + ("7" if size == 4 else "")
                    R.case(G_DET, (key, num, "inverse"))
                    ok, chs = R.guard(G_DET, "numeral-to-chord-and-chord-to-numeral-are-inverse", (num, key),
                                      lambda: fresh(P.to_chords(num, key)))
                    if not ok or not chs:
                        if ok:
                            R.fail(G_DET, "numeral-to-chord-and-chord-to-numeral-are-inverse",
                                   "to_chords(%r, %r) = %r" % (num, key, chs), (num, key))
                        continue
                    ok, ans = R.guard(G_DET, "numeral-to-chord-and-chord-to-numeral-are-inverse", (chs[0], key),
                                      lambda: P.determine(list(chs[0]), key, True))
                    if ok and not any(isinstance(e, str) and e.upper() == num.upper() for e in ans):
                        R.fail(G_DET, "numeral-to-chord-and-chord-to-numeral-are-inverse",
                               "to_chords(%r, %r) = %r whose function is given as %r" % (num, key, chs, ans),
                               (num, key))
        # list-of-chords form: element-wise
        R.case(G_DET, (key, "list form"))
        for shorthand in (False, True):
            ok, ans = R.guard(G_DET, "harmonic-function-of-a-diatonic-chord-is-returned", ("all", key, shorthand),
                              lambda: P.determine([list(c) for (_, _, c) in all_chords], key, shorthand))
            if ok:
                good = isinstance(ans, list) and len(ans) == len(all_chords)
                if good:
                    for (d, size, ch), a in zip(all_chords, ans):
                        if not (isinstance(a, list) and has_function(a, d, size, shorthand)):
                            good = False
                if not good:
                    R.fail(G_DET, "harmonic-function-of-a-diatonic-chord-is-returned",
                           "determine(list of the 14 diatonic chords, %r, %r) = %r" % (key, shorthand, ans),
                           ("all", key, shorthand))

    # ------------------------------------------------------------------ 4. parse / format
    parse_suffixes = [""] + ["7"] + suffixes
    parse_accs = accs if quick else list(range(-6, 7))
    for roman in H.NUMERALS + [n.lower() for n in H.NUMERALS]:
        for acc in parse_accs:
            for suf in parse_suffixes:
                s = H.prefix(acc) + roman + suf
                R.case(G_PARSE, s)
                ok, t = R.guard(G_PARSE, "numeral-strings-survive-parse-then-format", s, lambda: P.parse_string(s))
                if not ok:
                    continue
                if tuple(t) != (roman.upper(), acc, suf):
                    R.fail(G_PARSE, "numeral-strings-survive-parse-then-format",
                           "parse_string(%r) = %r, expected %r" % (s, t, (roman.upper(), acc, suf)), s)
                    continue
                if abs(acc) > 3:
                    continue        # the property's quantifier stops at three accidentals; parse only
                ok, back = R.guard(G_PARSE, "numeral-strings-survive-parse-then-format", s,
                                   lambda: P.tuple_to_string(t))
                want = H.prefix(acc) + roman.upper() + suf   # the parser documents that it upper-cases the numeral
                if ok and back != want:
                    R.fail(G_PARSE, "numeral-strings-survive-parse-then-format",
                           "%r -> %r -> %r" % (s, t, back), s)

    # ------------------------------------------------------------------ 5. substitution rules
    def well_formed(x):
        if not isinstance(x, str):
            return False
        acc, roman, suf = H.parse_numeral(x)
        # the library's own grammar: any run of accidentals, an upper-case numeral, a documented chord suffix
        return roman in H.NUMERALS and (suf in ("", "7") or suf in H.SHORTHAND)

    def is_above(lo, hi, degree, semis):
        return hi[0] == H.LETTERS[(H.LETTERS.index(lo[0]) + degree - 1) % 7] and (H.pc(hi) - H.pc(lo)) % 12 == semis

    rules = [
        ("substitute_harmonic", "harmonic-substitutes-share-two-notes-with-the-original-triad"),
        ("substitute_minor_for_major", "minor-for-major-roots-lie-a-minor-third-above"),
        ("substitute_major_for_minor", "major-for-minor-roots-lie-a-major-sixth-above"),
        ("substitute_diminished_for_diminished", "diminished-substitutes-cycle-by-minor-thirds"),
        ("substitute_diminished_for_dominant", None),
    ]
    produced = dict((r[0], 0) for r in rules)
    produced["substitute"] = 0
    sub_inputs = [(roman, suf, acc) for roman in H.NUMERALS + [n.lower() for n in H.NUMERALS]
                  for suf in parse_suffixes for acc in accs]
    sub_keys = majors
    max_depth = 2 if quick else 3
    real_checked = set()     # (numeral, key) pairs whose real numeral->chord was already compared with the model
    context = [["I", None, "V", "I"], [None], ["IIm7", "bVdim7", None]]

    def check_denotation(rule, clause, x, results, ignore, key):
        """the promise of the rule, in one key"""
        acc, roman, suf = H.parse_numeral(x)
        d = H.NUMERALS.index(roman.upper())
        orig_root = H.shift(H.key_notes(key)[d], acc)
        for i, r in enumerate(results):
            den = H.denote_numeral(r, key)
            if den is None:
                continue        # not well formed: reported once, outside
            if rule == "substitute_harmonic":
                orig = [H.shift(n, acc) for n in H.diatonic(key, d, 3)]
                common = set(orig) & set(den[:3])
                if len(common) < 2:
                    R.fail(G_SUBST, clause, "%s(%r) -> %r: in %s %r and %r share %r" % (rule, x, r, key, orig,
                                                                                         den[:3], sorted(common)),
                           (rule, x, ignore, key))
            elif rule == "substitute_minor_for_major":
                if not is_above(orig_root, den[0], 3, 3):
                    R.fail(G_SUBST, clause, "%s(%r) -> %r: in %s root %s is not a minor third above %s"
                           % (rule, x, r, key, den[0], orig_root), (rule, x, ignore, key))
            elif rule == "substitute_major_for_minor":
                if not is_above(orig_root, den[0], 6, 9):
                    R.fail(G_SUBST, clause, "%s(%r) -> %r: in %s root %s is not a major sixth above %s"
                           % (rule, x, r, key, den[0], orig_root), (rule, x, ignore, key))
            elif rule == "substitute_diminished_for_diminished":
                prev = orig_root if i == 0 else H.denote_numeral(results[i - 1], key)
                prev = prev if isinstance(prev, str) else (prev[0] if prev else None)
                if prev is not None and not is_above(prev, den[0], 3, 3):
                    R.fail(G_SUBST, clause, "%s(%r) -> %r: in %s root %s is not a minor third above %s"
                           % (rule, x, results, key, den[0], prev), (rule, x, ignore, key))

    for (roman, suf, acc) in sub_inputs:
        x = H.prefix(acc) + roman + suf
        ctx = context[(len(x) + acc) % len(context)]
        idx = ctx.index(None)
        prog0 = [x if c is None else c for c in ctx]
        if not quick:
            # every position of a longer progression: the answer depends on progression[index] only
            for c2 in context:
                p2 = [x if c is None else c for c in c2]
                for rule2 in [r[0] for r in rules] + ["substitute"]:
                    R.case(G_SUBST, (rule2, x, "context", len(c2)))
                    try:
                        a1 = getattr(P, rule2)(list(p2), c2.index(None))
                        a2 = getattr(P, rule2)([x], 0)
                    except Exception as e:  # noqa
                        R.fail(G_SUBST, "substitution-returns-only-well-formed-numerals",
                               "%s(%r, %d) raised %s" % (rule2, p2, c2.index(None), type(e).__name__), (rule2, p2))
                        continue
                    if a1 != a2:
                        R.fail(G_SUBST, "substitutes-are-for-the-indexed-numeral",
                               "%s(%r, %d) = %r but %s([%r], 0) = %r" % (rule2, p2, c2.index(None), a1, rule2, x, a2),
                               (rule2, p2))
        for rule, clause in rules:
            fn = getattr(P, rule)
            for ignore in (False, True):
                R.case(G_SUBST, (rule, x, ignore))
                prog = list(prog0)
                ok, res = R.guard(G_SUBST, "substitution-returns-only-well-formed-numerals", (rule, prog0, idx, ignore),
                                  lambda: fn(prog, idx, ignore))
                if not ok:
                    continue
                if prog != prog0:
                    R.fail(G_SUBST, "leaves-the-callers-progression-unchanged",
                           "%s changed %r to %r" % (rule, prog0, prog), (rule, prog0, idx, ignore))
                if not isinstance(res, list) or not all(well_formed(r) for r in res):
                    R.fail(G_SUBST, "substitution-returns-only-well-formed-numerals",
                           "%s(%r, %d, %r) = %r" % (rule, prog0, idx, ignore, res), (rule, prog0, idx, ignore))
                    continue
                produced[rule] += len(res)
                if rule == "substitute_diminished_for_diminished" and res:
                    if any(H.parse_numeral(r)[2] not in ("dim", "dim7") for r in res) and not ignore:
                        R.fail(G_SUBST, clause, "%s(%r) = %r: not all diminished" % (rule, x, res),
                               (rule, prog0, idx, ignore))
                if clause is not None and res:
                    for key in sub_keys:
                        check_denotation(rule, clause, x, res, ignore, key)
                        # the real numeral->chord agrees with the model on every substitute
                        for r in res:
                            if (r, key) in real_checked:
                                continue
                            real_checked.add((r, key))
                            okc, real = R.guard(G_SUBST, "substitution-returns-only-well-formed-numerals",
                                                (rule, x, r, key), lambda: fresh(P.to_chords(r, key)))
                            if okc and real != [H.denote_numeral(r, key)]:
                                R.fail(G_SUBST, "substitution-returns-only-well-formed-numerals",
                                       "%s(%r) -> %r: to_chords gives %r in %s, the numeral denotes %r"
                                       % (rule, x, r, real, key, H.denote_numeral(r, key)), (rule, x, r, key))
        # the general rule, recursion depth 0..2
        by_depth = {}
        for depth in range(0, max_depth + 1):
            R.case(G_SUBST, ("substitute", x, depth))
            prog = list(prog0)
            ok, res = R.guard(G_SUBST, "substitution-returns-only-well-formed-numerals",
                              ("substitute", prog0, idx, depth), lambda: P.substitute(prog, idx, depth))
            if not ok:
                continue
            if not isinstance(res, list) or not all(well_formed(r) for r in res):
                R.fail(G_SUBST, "substitution-returns-only-well-formed-numerals",
                       "substitute(%r, %d, %d) = %r" % (prog0, idx, depth, res), ("substitute", prog0, idx, depth))
                continue
            by_depth[depth] = res
            produced["substitute"] += len(res)
            if prog != prog0:
                fid = None
                only_index = all(a == b for i, (a, b) in enumerate(zip(prog, prog0)) if i != idx) \
                    and len(prog) == len(prog0)
                if depth > 0 and only_index and by_depth.get(0) and prog[idx] in res:
                    fid = "substitute-depth-rewrites-callers-progression"
                R.fail(G_SUBST, "leaves-the-callers-progression-unchanged",
                       "substitute(%r, %d, %d) left the list as %r" % (prog0, idx, depth, prog),
                       ("substitute", prog0, idx, depth), finding=fid)
            # every substitute denotes a chord in every major key (construction accepts it)
            if depth == 0:
                for r in res:
                    for key in (sub_keys if not quick else sub_keys[::4]):
                        if (r, key) in real_checked:
                            continue
                        real_checked.add((r, key))
                        okc, real = R.guard(G_SUBST, "substitution-returns-only-well-formed-numerals",
                                            ("substitute", x, r, key), lambda: fresh(P.to_chords(r, key)))
                        if okc and real != [H.denote_numeral(r, key)]:
                            R.fail(G_SUBST, "substitution-returns-only-well-formed-numerals",
                                   "substitute(%r) -> %r: to_chords gives %r in %s, the numeral denotes %r"
                                   % (x, r, real, key, H.denote_numeral(r, key)), ("substitute", x, r, key))
        # 'the substitutions of each result are recursively added': depth d = depth 0 + depth d-1 of each result
        for depth in range(1, max_depth + 1):
            if depth in by_depth and 0 in by_depth and depth - 1 in by_depth:
                want = list(by_depth[0])
                good = True
                for r in by_depth[0]:
                    p2 = list(prog0)
                    p2[idx] = r
                    try:
                        want += P.substitute(p2, idx, depth - 1)
                    except Exception:  # noqa
                        good = False
                if good and by_depth[depth] != want:
                    R.fail(G_SUBST, "recursion-adds-the-substitutions-of-each-result",
                           "substitute(%r, %d, %d) = %r, expected %r" % (prog0, idx, depth, by_depth[depth], want),
                           ("substitute", prog0, idx, depth))

    # the memo tables handed out above are still intact
    for key in keys_all:
        R.case(G_TABLE, (key, "memo intact"))
        for size, table_name in ((3, "triads"), (4, "sevenths")):
            if fresh(getattr(chords, table_name)(key)) != [H.diatonic(key, d, size) for d in range(7)]:
                R.fail(G_TABLE, "stacks-of-thirds-inside-the-keys-notes",
                       "%s(%r) changed during the run: %r" % (table_name, key, getattr(chords, table_name)(key)), key)

    for rule, n in sorted(produced.items()):
        if n == 0:
            R.assumptions.append("%s returned no substitute on any input: its promise was checked vacuously" % rule)
    R.assumptions.append("numeral strings with a lower-case numeral come back from parse+format with the numeral in "
                         "upper case (parse_string documents numerals as upper case); everything else must be "
                         "unchanged")
    R.assumptions.append("harmonic function: the answer must CONTAIN the function name / numeral (case-insensitive "
                         "numeral); additional enharmonic readings such as 'IVM6' are not judged")
    R.assumptions.append("substitute_diminished_for_dominant has no documentation: only well-formedness and the "
                         "unchanged progression are checked for it; for substitute() itself well-formedness, the "
                         "recursion relation and the unchanged progression")
    R.assumptions.append("lower-case aliases i, iv, v are not defined (nor documented) by the module and are not "
                         "demanded")
    return R.result(
        "30 keys x 7 degrees x {triad, seventh} x {table, function name, upper/lower alias, numeral string in both "
        "cases}; %d prefixes (%s) on '' and '7' in both cases in 30 keys; %d chord suffixes x 7 degrees x 2 cases x "
        "%s in 30 keys; 31 unrecognised numerals (incl. 13 library-internal names) x 30 keys; harmonic function of the 14 diatonic chords (every rotation) "
        "in 15 major keys x {long, shorthand} + both inverse directions; parse/format of 14 numerals x prefixes %d..%d x %d "
        "suffixes; substitution: 7 numerals (both cases) x %d suffixes x prefixes -3..+3 x {5 rules x ignore_suffix, substitute "
        "depth 0..%d}, promises evaluated in all 15 major keys"
        % (len(prefixes), "-3..+3 and '#b', 'b#'" if quick else "-6..+6 and 6 mixed runs", len(suffixes),
           "every prefix" if not quick else "{no prefix, one rotating prefix}", parse_accs[0],
           parse_accs[-1], len(parse_suffixes), len(parse_suffixes), max_depth),
        exhaustive=not quick)
