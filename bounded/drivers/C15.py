"""C15 bounded stand-ins: no hidden shared state (real code; oracle = equality of observations across interpreter
states, argument / sibling / class-default snapshots, and a bisect model of the frequency table lookup).

Groups (clauses):
  theory history        same-value-whatever-was-called-before            cold child interpreters, random histories
  argument aliasing     no-call-modifies-the-lists-or-dicts-passed-to-it every public function x representative args
  result aliasing       modifying-a-returned-list-never-changes-later-results
  sibling instances     operating-on-one-leaves-the-other-unchanged / class-defaults-unchanged /
                        separately-created-objects-never-share-content   every public class x operation scripts
  copies                copy-is-independent-of-its-source                Note(note), NoteContainer(nc)
  fft index memory      same-index-regardless-of-previous-lookups        lookup sequences vs bisect over the table
"""
import bisect
import copy
import json
import os
import random
import shutil
import subprocess
import sys
import tempfile

from bounded.drv import Recorder

C_HIST = "same-value-whatever-was-called-before"
C_ARG = "no-call-modifies-the-lists-or-dicts-passed-to-it"
C_RES = "modifying-a-returned-list-never-changes-later-results"
C_SIB = "operating-on-one-leaves-the-other-unchanged"
C_DEF = "class-defaults-unchanged"
C_SHARE = "separately-created-objects-never-share-content"
C_COPY = "copy-is-independent-of-its-source"
C_FFT = "same-index-regardless-of-previous-lookups"

PROPOSED_FINDINGS = [
    dict(property="C15", id="keys-get-notes-returns-cache-row", function="mingus.core.keys.get_notes", clause=C_RES,
         what="get_notes returns the list stored in _key_cache itself: appending to / editing the result changes what "
              "get_notes and everything built on it (intervals, triads, scales, progressions) returns for that key "
              "for the rest of the process",
         witness_code="from mingus.core import keys\nr = keys.get_notes('Db')\nwant = list(r)\nr.append('X')\n"
                      "observed = list(keys.get_notes('Db'))\nholds = observed == want\nr.pop()\n"),
    dict(property="C15", id="chords-triads-sevenths-return-cache-rows", function="mingus.core.chords.triads", clause=C_RES,
         what="triads/sevenths return the memo tables _triads_cache/_sevenths_cache by reference, and tonic..subtonic7 "
              "and the numeral aliases I..VII7 return rows of those tables: editing a result changes every later answer "
              "for that key",
         witness_code="from mingus.core import chords\nr = chords.V7('Bb')\nwant = list(r)\nr.append('X')\n"
                      "observed = list(chords.dominant7('Bb'))\nholds = observed == want\nr.pop()\n"),
    dict(property="C15", id="progressions-to-chords-returns-cache-rows", function="mingus.core.progressions.to_chords",
         clause=C_RES,
         what="to_chords hands the chord-table rows to the caller for plain numerals and numerals with suffix '7' "
              "(no accidental prefix): appending to such a chord rewrites that degree of the key for the process",
         witness_code="from mingus.core import progressions, chords\nr = progressions.to_chords(['I'], 'Ab')\n"
                      "want = [list(r[0])]\nr[0].append('Gb')\nobserved = [list(c) for c in progressions.to_chords(['I'], 'Ab')]\n"
                      "holds = observed == want\nr[0].pop()\n"),
    dict(property="C15", id="progressions-substitute-writes-argument", function="mingus.core.progressions.substitute",
         clause=C_ARG,
         what="substitute(progression, i, depth > 0) assigns its candidate substitutions to progression[i] "
              "(new_progr = progression is an alias, not a copy): the caller's list is left holding the last candidate",
         witness_code="from mingus.core import progressions\np = ['I', 'IV', 'V', 'I']\nprogressions.substitute(p, 0, 1)\n"
                      "observed = p\nholds = p == ['I', 'IV', 'V', 'I']\n"),
    dict(property="C15", id="chords-from-shorthand-extends-slash-list", function="mingus.core.chords.from_shorthand",
         clause=C_ARG,
         what="from_shorthand(s, slash=<list>) (the polychord path) appends the chord's notes to the list it was "
              "given and returns that same list",
         witness_code="from mingus.core import chords\nsl = ['G', 'B', 'D']\nchords.from_shorthand('Dm', sl)\n"
                      "observed = sl\nholds = sl == ['G', 'B', 'D']\n"),
    dict(property="C15", id="note-init-writes-dynamics-dict", function="mingus.containers.note.Note.__init__",
         clause=C_ARG,
         what="Note(name, octave, dynamics, velocity=v, channel=c) stores v / c into the caller's dynamics dict",
         witness_code="from mingus.containers import Note\nd = {}\nNote('C', 4, d, velocity=10, channel=3)\n"
                      "observed = d\nholds = d == {}\n"),
    dict(property="C15", id="instrument-set-range-writes-argument",
         function="mingus.containers.instrument.Instrument.set_range", clause=C_ARG,
         what="set_range(range) with note strings replaces range[0] and range[1] in the caller's list by Note objects "
              "(and therefore raises TypeError for the documented tuple of strings)",
         witness_code="from mingus.containers.instrument import Instrument\nr = ['C-1', 'C-5']\nInstrument().set_range(r)\n"
                      "observed = [type(x).__name__ for x in r]\nholds = observed == ['str', 'str']\n"),
    dict(property="C15", id="suite-compositions-class-level-list", function="mingus.containers.suite.Suite", clause=C_SIB,
         what="Suite.compositions is one class-level list that __init__ never rebinds: add_composition on any suite "
              "appends to the list shared by every existing and future Suite (and the class default)",
         witness_code="from mingus.containers import Suite, Composition\nn0 = len(Suite.compositions)\na = Suite()\nb = Suite()\n"
                      "a.add_composition(Composition())\nobserved = (len(b) - n0, len(Suite()) - n0)\n"
                      "holds = observed == (0, 0)\ndel Suite.compositions[n0:]\n"),
    dict(property="C15", id="composition-selected-tracks-class-level-list",
         function="mingus.containers.composition.Composition", clause=C_SHARE,
         what="a fresh Composition's selected_tracks is the class-level list (empty()/__init__ rebind only tracks): "
              "selecting tracks in place on one new composition (the only way to select several) selects them in every "
              "other new composition and in the class default",
         witness_code="from mingus.containers import Composition\na = Composition()\nb = Composition()\n"
                      "observed = a.selected_tracks is b.selected_tracks\nholds = not observed\n"),
    dict(property="C15", id="notecontainer-copy-shares-note-objects",
         function="mingus.containers.note_container.NoteContainer.add_notes", clause=C_COPY,
         what="NoteContainer(other) / add_notes(other) store the other container's Note objects themselves: "
              "augment/diminish/transpose (or any edit of a note) on the copy changes the original and vice versa",
         witness_code="from mingus.containers import NoteContainer\na = NoteContainer(['C', 'E', 'G'])\nb = NoteContainer(a)\n"
                      "b.augment()\nobserved = [n.name for n in a]\nholds = observed == ['C', 'E', 'G']\n"),
    dict(property="C15", id="fft-find-log-index-top-of-table", function="mingus.extra.fft._find_log_index", clause=C_FFT,
         what="after a lookup that was answered 128 through the position memory (previous answer 127, frequency in "
              "(table[127], table[128]]), a lookup of a frequency above table[128] raises IndexError "
              "(_log_cache[129]) instead of returning 128 as it does from a cold state",
         witness_code="from mingus.extra import fft\nt = fft._log_cache\nfft._find_log_index(t[127])\n"
                      "fft._find_log_index(t[128])\ntry:\n    observed = fft._find_log_index(t[128] * 1.1)\n"
                      "except IndexError as e:\n    observed = 'IndexError'\nholds = observed == 128\nfft._last_asked = None\n"),
]


def _bulk(R, group, n, key=None):
    R.evaluations += n
    g = R.groups.setdefault(group, {"evaluations": 0, "failures": 0})
    first = g["evaluations"] == 0
    g["evaluations"] += n
    if key is not None:
        R.distinct.add((group, key))
    if first and len(R.samples) < 12:
        R.samples.append({"group": group, "case": repr(key)[:300]})


# ------------------------------------------------------------------------------------------------ theory history
def _spawn(params):
    env = dict(os.environ)
    env["PYTHONPATH"] = os.pathsep.join(p for p in sys.path if p)
    env["PYTHONDONTWRITEBYTECODE"] = "1"
    code = "import sys; from bounded.decoders import c15_theory as T; T.child(sys.argv[1])"
    return subprocess.Popen([sys.executable, "-W", "ignore", "-c", code, json.dumps(params)], env=env,
                            stdout=subprocess.PIPE, stderr=subprocess.PIPE)


def _history_plan(tier, seed):
    if tier == "quick":
        rounds, frac, nshuf = 25, 1.0, 1
    else:
        rounds, frac, nshuf = 150, 1.0, 22
    plan = [dict(order="forward", seed=seed * 1000 + 1, rounds=rounds, hist=[20, 400], fraction=frac),
            dict(order="reversed", seed=seed * 1000 + 2, rounds=rounds, hist=[20, 400], fraction=frac)]
    for k in range(nshuf):
        plan.append(dict(order="shuffled", seed=seed * 1000 + 3 + k, cold=[1, 60], rounds=rounds, hist=[1, 150],
                         fraction=frac))
    return plan


def _collect_history(R, procs, plan, timeout, ref=None):
    from bounded.decoders import c15_theory as T
    U = T.universe()
    outs = []
    for pr, pl in zip(procs, plan):
        try:
            so, se = pr.communicate(timeout=timeout)
        except subprocess.TimeoutExpired:
            pr.kill()
            R.fail("theory history", C_HIST, "cold interpreter worker did not finish in %d s" % timeout, pl)
            continue
        try:
            outs.append((pl, json.loads(so.decode("utf8"))))
        except ValueError:
            R.fail("theory history", C_HIST, "cold interpreter worker failed: %s" % se.decode("utf8", "replace")[-600:], pl)
    if not outs:
        return ref
    if ref is None:
        ref = outs[0]
    ref_pl, ref = ref
    for pl, o in outs:
        _bulk(R, "theory history: cold battery (%s order)" % pl["order"], o["n"], (pl["order"], pl["seed"]))
        _bulk(R, "theory history: battery after random histories", o["evals"] - o["n"], (pl["seed"], o["rounds"], o["calls"]))
        for d in o["diffs"]:
            q = U[d["index"]]
            R.fail("%s.%s" % (q[0], q[1]), C_HIST,
                   "%s gave %s in a cold interpreter (%s order) but %s after history round %d" %
                   (d["query"], d["base"], pl["order"], d["got"], d["round"]),
                   {"query": d["query"], "history_tail": d["history_tail"], "worker": pl})
        if o is not ref and o["n"] == ref["n"]:
            nd = 0
            for i, (a, b) in enumerate(zip(ref["base"], o["base"])):
                if a != b:
                    nd += 1
                    q = U[i]
                    R.fail("%s.%s" % (q[0], q[1]), C_HIST,
                           "%r gave %s when the battery ran in %s order (seed %d) from a cold interpreter but %s in "
                           "%s order%s" % (q, a, ref_pl["order"], ref_pl["seed"], b, pl["order"],
                                           " after the cold history ..%s" % o["cold_history"][-4:] if pl.get("cold") else ""),
                           {"query": repr(q), "workers": [ref_pl, pl]})
        elif o["n"] != ref["n"]:
            R.fail("theory history", C_HIST, "battery size differs between workers", [ref["n"], o["n"]])
    for u in ref.get("uncovered", []):
        a = "public theory function without representative arguments (not exercised): " + u
        if a not in R.assumptions:
            R.assumptions.append(a)
    return (ref_pl, ref)


# ------------------------------------------------------------------------------- argument / result aliasing (core)
class _LibObj(object):
    """a library object found in a result: what a caller edits is its attribute dictionary"""

    def __init__(self, obj):
        self.obj = obj


def _is_lib_obj(x):
    """Note objects standing directly in a returned list: values the call worked out (a registry hands out its registered
    objects by design - get_tunings - and those are not touched, nor is anything behind another object's attributes)"""
    return type(x).__module__ == "mingus.containers.note" and type(x).__name__ == "Note"


def _mutables(x, acc, seen):
    """list / dict objects - and library objects (Notes, containers) - reachable from x through lists, tuples, dicts"""
    if isinstance(x, (list, dict)):
        if id(x) in seen:
            return
        seen.add(id(x))
        acc.append(x)
    elif _is_lib_obj(x):
        if id(x) in seen:
            return
        seen.add(id(x))
        acc.append(_LibObj(x))
        return
    if isinstance(x, (list, tuple)):
        for e in x:
            _mutables(e, acc, seen)
    elif isinstance(x, dict):
        for e in x.values():
            _mutables(e, acc, seen)


def _mutate(ms):
    saved = [(m, dict(vars(m.obj)) if isinstance(m, _LibObj) else list(m) if isinstance(m, list) else dict(m)) for m in ms]
    for m in ms:
        if isinstance(m, _LibObj):
            # what a caller does to a Note it was given: another octave, another name, louder
            d = vars(m.obj)
            for k, v in list(d.items()):
                if isinstance(v, bool):
                    continue
                if isinstance(v, int):
                    d[k] = v + 3
                elif isinstance(v, str) and k == "name":
                    d[k] = "D" if v != "D" else "E"
        elif isinstance(m, list):
            if m:
                m[0] = "Zz"
            m.append("Xx")
        else:
            m["__c15__"] = "Xx"
    return saved


def _restore(saved):
    for m, old in saved:
        if isinstance(m, _LibObj):
            vars(m.obj).clear()
            vars(m.obj).update(old)
        elif isinstance(m, list):
            m[:] = old
        else:
            m.clear()
            m.update(old)


def _own_parse_numeral(s):
    """own reading of '<accidentals><roman numeral><suffix>' (inputs of this driver put the accidentals first)"""
    acc = i = 0
    while i < len(s) and s[i] in "#b":
        acc += 1 if s[i] == "#" else -1
        i += 1
    j = i
    while j < len(s) and s[j] in "IViv":
        j += 1
    return s[i:j].upper(), acc, s[j:]


def _known_result_alias(q, diff_positions=None):
    """id of the known finding whose region covers result aliasing of query q (None = not known)"""
    from bounded.decoders import c15_theory as T
    if len(q) != 3:
        return None
    if q[0] == "keys" and q[1] == "get_notes" and q[2][0] in T.KEYS:
        return "keys-get-notes-returns-cache-row"
    if q[0] == "chords" and q[1] in T.MEMO_NAMES and q[2][0] in T.KEYS:
        return "chords-triads-sevenths-return-cache-rows"
    if q[0] == "progressions" and q[1] == "to_chords":
        prog = [q[2][0]] if isinstance(q[2][0], str) else list(q[2][0])
        region = set()
        for i, s in enumerate(prog):
            roman, acc, suf = _own_parse_numeral(s)
            if roman in T.NUMERALS and acc == 0 and suf in ("", "7"):
                region.add(i)
        if region and (diff_positions is None or set(diff_positions) <= region):
            return "progressions-to-chords-returns-cache-rows"
    return None


def _known_arg_write(q, before, after):
    if len(q) != 3:
        return None
    if q[0] == "progressions" and q[1] == "substitute" and q[2][2] > 0:
        # only progression[substitute_index] may differ
        b, a = before[1], after[1]          # canon of the progression list: ('L', e0, e1, ..)
        idx = q[2][1] + 1
        if len(a) == len(b) and all(a[i] == b[i] for i in range(len(a)) if i != idx) and before[2:] == after[2:]:
            return "progressions-substitute-writes-argument"
    if q[0] == "chords" and q[1] == "from_shorthand" and len(q[2]) > 1 and isinstance(q[2][1], list):
        if before[1] == after[1]:
            return "chords-from-shorthand-extends-slash-list"
    return None


def _neighbour_indices(U):
    NK = ("C", "G", "Eb", "a", "f#")
    from bounded.decoders import c15_theory as T
    out = []
    for i, q in enumerate(U):
        if len(q) == 3:
            m, n, a = q
            if m == "keys" and n == "get_notes" and a[0] in NK:
                out.append(i)
            elif m == "chords" and n in T.MEMO_NAMES and a[0] in NK:
                out.append(i)
            elif m == "intervals" and n in ("third", "fifth", "seventh") and len(a) == 2 and a[0] in "CEG" and a[1] in NK:
                out.append(i)
            elif m == "progressions" and n == "to_chords" and a[0] in ("I", "V7", "ii7", "bII", "IVM7") and a[1] in ("C", "F#"):
                out.append(i)
            elif m == "chords" and n in ("major_triad", "minor_seventh", "dominant_ninth") and a[0] in ("C", "F#"):
                out.append(i)
        elif q[1] in ("Major", "NaturalMinor", "HarmonicMinor", "Chromatic", "MelodicMinor") and q[2][0] in ("C", "G") \
                and q[2][-1] == 1 and q[3] in ("ascending", "descending"):
            out.append(i)
    return out


def _core_aliasing(R, tier, rnd):
    from bounded.decoders import c15_theory as T
    U = T.universe()
    nb = _neighbour_indices(U)
    nb0 = [T.eval_query(U[i]) for i in nb]          # also primes every memo table the neighbours touch
    stride = 8 if tier == "quick" else 1
    nres = 0
    for qi, q in enumerate(U):
        fn = "%s.%s" % (q[0], q[1]) + ("" if len(q) == 3 else "." + q[3])
        args = copy.deepcopy(q[2]) if len(q) == 3 else None
        before = T.canon(args) if args is not None else None
        try:
            r = T.call_query(q, args)
            raised = None
        except RecursionError:
            r, raised = None, "RecursionError"
        except Exception as e:  # noqa
            r, raised = None, type(e).__name__
        if args is not None:
            am = []
            _mutables(args, am, set())
            if am:
                R.case(fn, ("args", repr(q[2])))
                after = T.canon(args)
                if after != before:
                    R.fail(fn, C_ARG, "arguments %s became %s%s" % (T.show(q[2]), T.show(args),
                                                                    " (call raised %s)" % raised if raised else ""),
                           {"query": repr(q)}, finding=_known_arg_write(q, before, after))
        if raised:
            continue
        ms = []
        _mutables(r, ms, set())
        if not ms:
            continue
        nres += 1
        R.case(fn, ("result", repr(q[2:])))
        snap = T.canon(r)
        saved = _mutate(ms)
        try:
            try:
                r2 = T.call_query(q)
                c2 = T.canon(r2)
            except Exception as e:  # noqa
                c2 = "EXC:" + type(e).__name__
            memo = _known_result_alias(q) is not None
            nbd = []
            if memo or nres % stride == 0:
                for k, i in enumerate(nb):
                    g = T.eval_query(U[i])
                    if g != nb0[k]:
                        nbd.append((U[i], nb0[k], g, k))
        finally:
            _restore(saved)
        still = []
        for (nq, was, g, k) in nbd:
            g2 = T.eval_query(nq)
            if g2 != was:               # not an effect of the edited result: the answer drifted by itself
                still.append(k)
                R.fail("%s.%s" % (nq[0], nq[1]), C_HIST, "%r returned %s at the start of the aliasing battery and %s "
                       "later (no edited result outstanding)" % (nq, was, g2), {"query": repr(nq)})
                nb0[k] = g2
        nbd = [x for x in nbd if x[3] not in still]
        if c2 != snap:
            pos = None
            if isinstance(c2, tuple) and len(c2) == len(snap):
                pos = [i - 1 for i in range(1, len(snap)) if c2[i] != snap[i]]
            R.fail(fn, C_RES, "%r returned %s; after editing that result in place the same call returns %s" %
                   (q, T.show(snap), T.show(c2)), {"query": repr(q)}, finding=_known_result_alias(q, pos))
        if nbd:
            R.fail(fn, C_RES, "after editing the result of %r in place, %r returns %s instead of %s (%d other queries changed)"
                   % (q, nbd[0][0], nbd[0][2], nbd[0][1], len(nbd)), {"query": repr(q), "other": repr(nbd[0][0])},
                   finding=_known_result_alias(q))
    # everything edited was restored in place: the neighbours must read as at the start
    for k, i in enumerate(nb):
        g = T.eval_query(U[i])
        R.case("result aliasing: neighbours restored", repr(U[i]))
        if g != nb0[k]:
            R.fail("%s.%s" % (U[i][0], U[i][1]), C_HIST, "%r returned %s before and %s after the aliasing battery "
                   "(all edited results restored)" % (U[i], nb0[k], g), {"query": repr(U[i])})
    return nres


# ------------------------------------------------------------------------- argument aliasing (containers, extra, midi)
def _sample_objects():
    from mingus.containers import Note, NoteContainer, Bar, Track, Composition, Suite
    from mingus.containers.instrument import MidiInstrument

    def bar(key="C", chords=("C", "Am7", "G7", "F")):
        b = Bar(key, (4, 4))
        for c in chords:
            b.place_notes(NoteContainer().from_chord(c), 4)
        return b

    def track(n=2):
        t = Track(MidiInstrument())
        for i in range(n):
            t.add_bar(bar(chords=("C", "Dm", "G7", "C") if i % 2 else ("F", "Em7", "Am", "G")))
        return t

    def comp():
        c = Composition()
        c.add_track(track(2))
        c.add_track(track(2))
        c.set_title("t", "s")
        return c

    def suite():
        s = Suite()
        s.compositions = [comp()]      # instance-level list: keeps the shared class-level list out of this helper
        return s
    return dict(Note=Note, NoteContainer=NoteContainer, bar=bar, track=track, comp=comp, suite=suite)


def _noncore_arg_cases(tmpdir):
    """(group, make_args, call, known_finding_id or None): the call must leave its arguments as they were"""
    from mingus.containers import Note, NoteContainer, Bar, Track, Composition
    from mingus.containers.instrument import Instrument, Piano, Guitar
    from mingus.midi.midi_file_out import MidiFile
    from mingus.midi import midi_file_out as mfo
    from mingus.midi.midi_track import MidiTrack
    from mingus.midi.sequencer import Sequencer
    from mingus.extra import tunings, lilypond, musicxml, tablature
    O = _sample_objects()
    f = lambda name: os.path.join(tmpdir, name)  # noqa
    guitar = lambda: tunings.get_tuning("guitar", "standard", 6, 1)  # noqa
    cases = [
        ("Note.__init__", lambda: ["C", 4, {"velocity": 70, "channel": 2}], lambda a: Note(*a), None),
        ("Note.__init__", lambda: ["C", 4, {}], lambda a: Note(a[0], a[1], a[2], velocity=10),
         "note-init-writes-dynamics-dict"),
        ("Note.__init__", lambda: ["C", 4, {"velocity": 1}], lambda a: Note(a[0], a[1], a[2], channel=3),
         "note-init-writes-dynamics-dict"),
        ("Note.__init__", lambda: [Note("D#", 3, velocity=9)], lambda a: Note(a[0]), None),
        ("Note.set_note", lambda: ["E", 2, {"velocity": 3}], lambda a: Note().set_note(*a), None),
        ("Note.set_note", lambda: ["E", 2, {"velocity": 3}], lambda a: Note().set_note(a[0], a[1], a[2], velocity=5, channel=6), None),
        ("Note.from_shorthand", lambda: ["c''"], lambda a: Note().from_shorthand(*a), None),
        ("NoteContainer.__init__", lambda: [["C", "E", "G"]], lambda a: NoteContainer(*a), None),
        ("NoteContainer.__init__", lambda: [[["C", 5], ["E", 5, {"velocity": 20}]]], lambda a: NoteContainer(*a), None),
        ("NoteContainer.__init__", lambda: [[Note("C"), Note("G", 3)]], lambda a: NoteContainer(*a), None),
        ("NoteContainer.__init__", lambda: [NoteContainer(["A", "C"])], lambda a: NoteContainer(*a), None),
        ("NoteContainer.add_notes", lambda: [[["C", 5, {"velocity": 20}], "E", Note("B", 2)]],
         lambda a: NoteContainer(["D"]).add_notes(*a), None),
        ("NoteContainer.add_note", lambda: ["C", 5, {"velocity": 20}], lambda a: NoteContainer().add_note(*a), None),
        ("NoteContainer.remove_notes", lambda: [["C", Note("E")]], lambda a: NoteContainer(["C", "E", "G"]).remove_notes(*a), None),
        ("NoteContainer.__add__", lambda: [["B", "D"]], lambda a: NoteContainer(["C"]) + a[0], None),
        ("NoteContainer.__sub__", lambda: [["C", "D"]], lambda a: NoteContainer(["C", "E"]) - a[0], None),
        ("NoteContainer.__eq__", lambda: [NoteContainer(["C", "E"])], lambda a: NoteContainer(["C", "E"]) == a[0], None),
        ("Bar.place_notes", lambda: [["C", "E", "G"], 4], lambda a: Bar().place_notes(*a), None),
        ("Bar.place_notes", lambda: [NoteContainer(["C", "E"]), 2], lambda a: Bar().place_notes(*a), None),
        ("Bar.place_notes_at", lambda: [["A", "B"], 0.0], lambda a: O["bar"]().place_notes_at(*a), None),
        ("Bar.__setitem__", lambda: [1, ["A", "B"]], lambda a: O["bar"]().__setitem__(*a), None),
        ("Bar.__add__", lambda: [["A", "B"]], lambda a: Bar() + a[0], None),
        ("Bar.set_meter", lambda: [[3, 4]], lambda a: Bar().set_meter(*a), None),
        ("Bar.__eq__", lambda: [O["bar"]()], lambda a: O["bar"]() == a[0], None),
        ("Track.from_chords", lambda: [["C", ["Am", "Dm"], "G7", None, ["C", ["F", "G"]]], 1], lambda a: Track().from_chords(*a), None),
        ("Track.add_notes", lambda: [["C", "E"], 4], lambda a: Track().add_notes(*a), None),
        ("Track.add_notes", lambda: [NoteContainer(["C", "E"]), 8], lambda a: O["track"]().add_notes(*a), None),
        ("Track.add_bar", lambda: [O["bar"]()], lambda a: Track().add_bar(*a), None),
        ("Track.__add__", lambda: [O["bar"]()], lambda a: Track() + a[0], None),
        ("Track.__eq__", lambda: [O["track"]()], lambda a: O["track"]() == a[0], None),
        ("Composition.add_track", lambda: [O["track"]()], lambda a: Composition().add_track(*a), None),
        ("Composition.add_note", lambda: [NoteContainer(["C", "E"])], lambda a: O["comp"]().add_note(*a), None),
        ("Suite.__setitem__", lambda: [0, O["comp"]()], lambda a: O["suite"]().__setitem__(*a), None),
        ("Instrument.set_range", lambda: [["C-1", "C-5"]], lambda a: Instrument().set_range(*a),
         "instrument-set-range-writes-argument"),
        ("Instrument.set_range", lambda: [[Note("C", 1), Note("C", 5)]], lambda a: Instrument().set_range(*a), None),
        ("Instrument.can_play_notes", lambda: [["C-1", Note("C", 5)]], lambda a: Piano().can_play_notes(*a), None),
        ("Instrument.can_play_notes", lambda: [NoteContainer(["C", "E"])], lambda a: Instrument().notes_in_range(*a), None),
        ("Guitar.can_play_notes", lambda: [["E-3", "E-4", "A-5"]], lambda a: Guitar().can_play_notes(*a), None),
        ("MidiFile.__init__", lambda: [[MidiTrack(100), MidiTrack(90)]], lambda a: MidiFile(*a).get_midi_data(), None),
        ("MidiTrack.play_NoteContainer", lambda: [NoteContainer(["C", "E", "G"])], lambda a: MidiTrack().play_NoteContainer(*a), None),
        ("MidiTrack.play_Bar", lambda: [O["bar"]()], lambda a: MidiTrack().play_Bar(*a), None),
        ("MidiTrack.play_Track", lambda: [O["track"]()], lambda a: MidiTrack().play_Track(*a), None),
        ("MidiTrack.set_meter", lambda: [[6, 8]], lambda a: MidiTrack().set_meter(*a), None),
        ("midi_file_out.write_Note", lambda: [f("n.mid"), Note("C", 4, velocity=80), 120, 1], lambda a: mfo.write_Note(*a), None),
        ("midi_file_out.write_NoteContainer", lambda: [f("nc.mid"), NoteContainer(["C", "E"]), 100, 1], lambda a: mfo.write_NoteContainer(*a), None),
        ("midi_file_out.write_Bar", lambda: [f("b.mid"), O["bar"](), 120, 1], lambda a: mfo.write_Bar(*a), None),
        ("midi_file_out.write_Track", lambda: [f("t.mid"), O["track"](), 90, 0], lambda a: mfo.write_Track(*a), None),
        ("midi_file_out.write_Composition", lambda: [f("c.mid"), O["comp"](), 120, 1], lambda a: mfo.write_Composition(*a), None),
        ("Sequencer.play_Bars", lambda: [[O["bar"](), O["bar"]("G")], [1, 2], 120], lambda a: Sequencer().play_Bars(*a), None),
        ("Sequencer.play_Tracks", lambda: [[O["track"](), O["track"]()], [3, 4], 100], lambda a: Sequencer().play_Tracks(*a), None),
        ("Sequencer.play_Composition", lambda: [O["comp"](), [5, 6], 100], lambda a: Sequencer().play_Composition(*a), None),
        ("Sequencer.play_Composition", lambda: [O["comp"]()], lambda a: Sequencer().play_Composition(*a), None),
        # too few channels / none at all for the tracks given: whatever the call does about it, the caller's list stays
        ("Sequencer.play_Composition", lambda: [O["comp"](), [5], 100], lambda a: Sequencer().play_Composition(*a), None),
        ("Sequencer.play_Composition", lambda: [O["comp"](), [], 100], lambda a: Sequencer().play_Composition(*a), None),
        ("Sequencer.play_Tracks", lambda: [[O["track"](1), O["track"](1)], [3], 100], lambda a: Sequencer().play_Tracks(*a), None),
        ("Sequencer.play_Bars", lambda: [[O["bar"](), O["bar"]()], [3], 100], lambda a: Sequencer().play_Bars(*a), None),
        ("Sequencer.play_NoteContainer", lambda: [NoteContainer(["C", "E"]), 2, 90], lambda a: Sequencer().play_NoteContainer(*a), None),
        ("Sequencer.play_Track", lambda: [O["track"](), 1, 120], lambda a: Sequencer().play_Track(*a), None),
        ("tunings.StringTuning", lambda: ["x", "y", ["E-2", "A-2", ["D-3", "D-4"]]], lambda a: tunings.StringTuning(*a), None),
        ("tunings.StringTuning.find_fingering", lambda: [["E-4", "B-4"], 4, [2]],
         lambda a: tunings.StringTuning("t", "t", ["A-3", "E-4", "A-5"]).find_fingering(*a), None),
        ("tunings.StringTuning.find_fingering", lambda: [NoteContainer(["E-4", "B-4"])],
         lambda a: tunings.StringTuning("t", "t", ["A-3", "E-4", "A-5"]).find_fingering(*a), None),
        ("tunings.StringTuning.find_chord_fingering", lambda: [["A", "C", "E"]], lambda a: guitar().find_chord_fingering(*a), None),
        ("tunings.StringTuning.find_chord_fingering", lambda: [NoteContainer().from_chord("Am")],
         lambda a: guitar().find_chord_fingering(a[0], return_best_as_NoteContainer=True), None),
        ("tunings.StringTuning.find_note_names", lambda: [["A", "C", "E"], 0, 12], lambda a: guitar().find_note_names(*a), None),
        ("tunings.StringTuning.frets_to_NoteContainer", lambda: [[0, 0, 2, 2, 1, 0]], lambda a: guitar().frets_to_NoteContainer(*a), None),
        ("tunings.fingers_needed", lambda: [[0, 3, 2, 0, 1, 0]], lambda a: tunings.fingers_needed(*a), None),
        ("lilypond.from_Note", lambda: [Note("C#", 5)], lambda a: lilypond.from_Note(*a), None),
        ("lilypond.from_NoteContainer", lambda: [NoteContainer(["C", "E"]), 4], lambda a: lilypond.from_NoteContainer(*a), None),
        ("lilypond.from_NoteContainer", lambda: [["C", "E"], 4], lambda a: lilypond.from_NoteContainer(*a), None),
        ("lilypond.from_Bar", lambda: [O["bar"]()], lambda a: lilypond.from_Bar(*a), None),
        ("lilypond.from_Track", lambda: [O["track"]()], lambda a: lilypond.from_Track(*a), None),
        ("lilypond.from_Composition", lambda: [O["comp"]()], lambda a: lilypond.from_Composition(*a), None),
        ("lilypond.from_Suite", lambda: [O["suite"]()], lambda a: lilypond.from_Suite(*a), None),
        ("musicxml.from_Note", lambda: [Note("Bb", 3)], lambda a: musicxml.from_Note(*a), None),
        ("musicxml.from_Bar", lambda: [O["bar"]()], lambda a: musicxml.from_Bar(*a), None),
        ("musicxml.from_Track", lambda: [O["track"]()], lambda a: musicxml.from_Track(*a), None),
        ("musicxml.from_Composition", lambda: [O["comp"]()], lambda a: musicxml.from_Composition(*a), None),
        ("tablature.from_Note", lambda: [Note("E", 4), 40], lambda a: tablature.from_Note(*a), None),
        ("tablature.from_NoteContainer", lambda: [NoteContainer().from_chord("Am"), 40], lambda a: tablature.from_NoteContainer(*a), None),
        ("tablature.from_NoteContainer", lambda: [["A-3", "E-4"], 40], lambda a: tablature.from_NoteContainer(*a), None),
        ("tablature.from_Bar", lambda: [O["bar"](chords=("C", "Am", "G", "Em")), 40], lambda a: tablature.from_Bar(*a), None),
        ("tablature.from_Track", lambda: [O["track"](), 80], lambda a: tablature.from_Track(*a), None),
        ("tablature.from_Composition", lambda: [O["comp"](), 80], lambda a: tablature.from_Composition(*a), None),
        ("tablature.from_Suite", lambda: [O["suite"](), 80], lambda a: tablature.from_Suite(*a), None),
    ]
    try:
        from mingus.extra import fft
        data = [int(1000 * ((i * 7) % 13 - 6)) for i in range(256)]
        cases += [
            ("fft.find_frequencies", lambda: [list(data), 44100, 16], lambda a: fft.find_frequencies(*a), None),
            ("fft.find_notes", lambda: [[(0.0, 1.0), (440.0, 3.0), (445.0, 1.0), (30000.0, 2.0)], 100], lambda a: fft.find_notes(*a), None),
            ("fft.find_Note", lambda: [list(data), 44100, 16], lambda a: fft.find_Note(*a), None),
            ("fft.analyze_chunks", lambda: [list(data), 44100, 16, 64], lambda a: fft.analyze_chunks(*a), None),
        ]
    except ImportError:
        pass
    return cases


_NCASES = [0]


def _noncore_aliasing(R):
    from bounded.decoders import c15_theory as T
    tmp = tempfile.mkdtemp(prefix="c15_")
    try:
        try:
            cases = _noncore_arg_cases(tmp)
        except Exception as e:  # noqa
            R.fail("argument aliasing (containers, extra, midi)", C_ARG, "could not build the cases: %s: %s" % (type(e).__name__, e), None)
            return
        _NCASES[0] = len(cases)
        for n, (group, mk, call, known) in enumerate(cases):
            args = mk()
            before = T.canon(args)
            R.case(group, ("args", n, T.show(before)))
            raised = None
            try:
                call(args)
            except Exception as e:  # noqa
                raised = "%s: %s" % (type(e).__name__, e)
            after = T.canon(args)
            if after != before:
                R.fail(group, C_ARG, "arguments %s became %s%s" % (T.show(before), T.show(after),
                                                                   " (call raised %s)" % raised if raised else ""),
                       {"case": n, "group": group}, finding=known)
            elif known is not None:
                R.assumptions.append("known finding %s did not reproduce on its witness case %d" % (known, n))
            if raised:
                R.assumptions.append("argument-aliasing case %d (%s) raised %s (arguments still compared)" % (n, group, raised[:120]))
    finally:
        shutil.rmtree(tmp, ignore_errors=True)


def _noncore_results(R):
    """module-level functions outside mingus.core that return lists: edit the result, call again"""
    from bounded.decoders import c15_theory as T
    from mingus.extra import tunings
    calls = [("tunings.get_tunings", lambda: tunings.get_tunings()), ("tunings.get_tunings", lambda: tunings.get_tunings("guitar", 6)),
             ("tunings.get_tunings", lambda: tunings.get_tunings(nr_of_strings=4)),
             ("tunings.get_instruments", lambda: tunings.get_instruments()),
             ("tunings.StringTuning.find_frets", lambda: tunings.get_tuning("guitar", "standard").find_frets("E-4")),
             ("tunings.StringTuning.find_fingering", lambda: tunings.get_tuning("guitar", "standard").find_fingering(["E-4", "B-4"])),
             ("tunings.StringTuning.find_note_names", lambda: tunings.get_tuning("guitar", "standard").find_note_names(["A", "C", "E"], 0, 12))]
    try:
        from mingus.extra import fft
        calls += [("fft.find_notes", lambda: fft.find_notes([(440.0, 1.0), (880.0, 2.0)])),
                  ("fft.find_frequencies", lambda: fft.find_frequencies([1, 5, -3, 2, 0, 7, -7, 1], 8000, 16))]
    except ImportError:
        pass
    for n, (group, call) in enumerate(calls):
        ok, r = R.guard(group, C_RES, n, call)
        if not ok:
            continue
        R.case(group, ("result", n))
        snap = T.canon(r)
        ms = []
        _mutables(r, ms, set())
        saved = _mutate(ms)
        try:
            ok, r2 = R.guard(group, C_RES, n, call)
            c2 = T.canon(r2) if ok else None
        finally:
            _restore(saved)
        if ok and c2 != snap:
            R.fail(group, C_RES, "case %d returned %s; after editing that result in place the same call returns %s" %
                   (n, T.show(snap), T.show(c2)), n)


# ------------------------------------------------------------------------------------------- sibling instances
class _Listener(object):
    """observer attached to a sequencer: records what it is told"""

    def __init__(self):
        self.log = []

    def notify(self, msg_type, params):
        self.log.append((msg_type, sorted(params)))


def _class_table():
    """name -> (class, factory of a fresh instance, operations (obj, rnd) -> None, per-instance content attributes)"""
    from mingus.containers import Note, NoteContainer, Bar, Track, Composition, Suite
    from mingus.containers.instrument import Instrument, Piano, Guitar, MidiInstrument, MidiPercussionInstrument
    from mingus.midi.midi_file_out import MidiFile
    from mingus.midi.midi_track import MidiTrack
    from mingus.midi.sequencer import Sequencer
    from mingus.midi.sequencer_observer import SequencerObserver
    from mingus.core.keys import Key
    from mingus.core import scales
    from mingus.extra import tunings
    O = _sample_objects()
    NN = ["C", "D#", "Eb", "F", "G#", "A", "Bb", "B"]
    IV = ["b2", "2", "b3", "3", "4", "5", "6", "b7", "7"]
    ch = lambda r: r.choice  # noqa

    def seq_factory():
        class Rec(Sequencer):
            def init(self):
                self.events = []

            def play_event(self, note, channel, velocity):
                self.events.append(("on", note, channel, velocity))

            def stop_event(self, note, channel):
                self.events.append(("off", note, channel))

            def cc_event(self, channel, control, value):
                self.events.append(("cc", channel, control, value))

            def instr_event(self, channel, instr, bank):
                self.events.append(("instr", channel, instr, bank))
        Rec.__name__ = "Sequencer"
        s = Rec()
        s.attach(_Listener())
        return s

    note_ops = [
        lambda o, r: o.augment(), lambda o, r: o.diminish(), lambda o, r: o.octave_up(), lambda o, r: o.octave_down(),
        lambda o, r: o.change_octave(r.randint(-3, 3)), lambda o, r: o.transpose(r.choice(IV), r.random() < .5),
        lambda o, r: o.set_note(r.choice(NN), r.randint(0, 8)), lambda o, r: o.set_note("%s-%d" % (r.choice(NN), r.randint(0, 8))),
        lambda o, r: o.set_note(r.choice(NN), 3, {"velocity": r.randint(0, 127), "channel": r.randint(0, 15)}),
        lambda o, r: o.from_int(r.randint(0, 127)), lambda o, r: o.set_velocity(r.randint(0, 127)),
        lambda o, r: o.set_channel(r.randint(0, 15)), lambda o, r: o.empty(), lambda o, r: o.from_hertz(r.uniform(30, 4000)),
        lambda o, r: o.from_shorthand(r.choice(["c''", "C,,", "f#'", "Bb"])), lambda o, r: o.remove_redundant_accidentals(),
        lambda o, r: setattr(o, "velocity", r.randint(0, 127)), lambda o, r: setattr(o, "name", r.choice(NN)),
        lambda o, r: Note(r.choice(NN), 4, velocity=r.randint(0, 127), channel=r.randint(0, 15)),
        lambda o, r: Note(o), lambda o, r: Note(r.choice(NN), 2, {"velocity": r.randint(0, 127)}),
    ]
    nc_ops = [
        lambda o, r: o.add_note(r.choice(NN)), lambda o, r: o.add_note(r.choice(NN), r.randint(1, 7), {"velocity": 5}),
        lambda o, r: o.add_note(Note(r.choice(NN), r.randint(1, 7))), lambda o, r: o.add_notes(r.sample(NN, 3)),
        lambda o, r: o.add_notes(NoteContainer(r.sample(NN, 2))), lambda o, r: o.remove_note(r.choice(NN)),
        lambda o, r: o.remove_notes(r.sample(NN, 3)), lambda o, r: o.from_chord(r.choice(["Am7", "C", "F#dim", "Dm|G"])),
        lambda o, r: o.from_interval(r.choice(NN), r.choice(IV), r.random() < .5),
        lambda o, r: o.from_progression(r.choice(["I", "V7", "bII", "vi"]), r.choice(["C", "G", "Eb"])),
        lambda o, r: o.augment(), lambda o, r: o.diminish(), lambda o, r: o.transpose(r.choice(IV), r.random() < .5),
        lambda o, r: o.sort(), lambda o, r: o.empty(), lambda o, r: o.remove_duplicate_notes(),
        lambda o, r: o.__setitem__(0, r.choice(NN)), lambda o, r: o + r.choice(NN), lambda o, r: o - r.choice(NN),
        lambda o, r: o.determine(), lambda o, r: o.notes.append(Note("C", 9)),
    ]
    bar_ops = [
        lambda o, r: o.place_notes(r.sample(NN, 2), r.choice([2, 4, 8, 16])), lambda o, r: o.place_notes(Note(r.choice(NN)), 4),
        lambda o, r: o.place_notes(NoteContainer(r.sample(NN, 3)), 8), lambda o, r: o.place_rest(r.choice([4, 8])),
        lambda o, r: o.place_notes_at(r.choice(NN), r.choice([0.0, 0.25, 0.5])), lambda o, r: o.remove_last_entry(),
        lambda o, r: o.set_meter(r.choice([(3, 4), (6, 8), (4, 4), (0, 0)])), lambda o, r: o.empty(), lambda o, r: o.augment(),
        lambda o, r: o.diminish(), lambda o, r: o.transpose(r.choice(IV), r.random() < .5),
        lambda o, r: o.__setitem__(0, r.sample(NN, 2)), lambda o, r: o + r.choice(NN), lambda o, r: o.change_note_duration(0.0, 8),
        lambda o, r: o.determine_chords(), lambda o, r: o.bar.append([0.0, 4, NoteContainer("C")]),
        lambda o, r: setattr(o, "key", Key(r.choice(["G", "d"]))),
    ]
    track_ops = [
        lambda o, r: o.add_bar(O["bar"]()), lambda o, r: o.add_notes(r.sample(NN, 2), r.choice([2, 4, 8])),
        lambda o, r: o.add_notes(Note(r.choice(NN))), lambda o, r: o.from_chords(r.sample(["C", "Am", "Dm7", "G7"], 2), 2),
        lambda o, r: o.transpose(r.choice(IV)), lambda o, r: o.augment(), lambda o, r: o.diminish(),
        lambda o, r: o.set_tuning(tunings.StringTuning("x", "y", ["E-2", "A-2"])), lambda o, r: o + O["bar"]("G"),
        lambda o, r: o + r.choice(NN), lambda o, r: o.__setitem__(0, O["bar"]("F")), lambda o, r: setattr(o, "name", "n%d" % r.randint(0, 9)),
        lambda o, r: setattr(o, "instrument", MidiInstrument()), lambda o, r: o.bars.append(Bar()),
    ]
    comp_ops = [
        lambda o, r: o.add_track(O["track"](1)), lambda o, r: o.add_track(Track()), lambda o, r: o.add_note(r.choice(NN)),
        lambda o, r: o.add_note(NoteContainer(r.sample(NN, 2))), lambda o, r: o.set_title("t%d" % r.randint(0, 9), "s"),
        lambda o, r: o.set_author("a%d" % r.randint(0, 9), "e"), lambda o, r: o.empty(), lambda o, r: o.reset(),
        lambda o, r: o + Track(), lambda o, r: o + r.choice(NN), lambda o, r: o.__setitem__(0, Track()),
        lambda o, r: o.tracks.append(Track()), lambda o, r: setattr(o, "selected_tracks", [0]),
    ]
    suite_ops = [
        lambda o, r: o.add_composition(Composition()), lambda o, r: o.add_composition(O["comp"]()),
        lambda o, r: o.set_author("a%d" % r.randint(0, 9)), lambda o, r: o.set_title("t%d" % r.randint(0, 9), "s"),
        lambda o, r: o + Composition(), lambda o, r: o.__setitem__(0, Composition()), lambda o, r: len(o),
    ]
    instr_ops = [
        lambda o, r: o.set_range([Note("C", r.randint(0, 3)), Note("C", r.randint(4, 8))]), lambda o, r: o.set_range(["D-1", "D-6"]),
        lambda o, r: o.note_in_range(r.choice(NN)), lambda o, r: o.can_play_notes(r.sample(NN, 3)),
        lambda o, r: setattr(o, "name", "n%d" % r.randint(0, 9)), lambda o, r: setattr(o, "clef", "x"),
        lambda o, r: setattr(o, "tuning", tunings.StringTuning("x", "y", ["E-2"])), lambda o, r: setattr(o, "instrument_nr", r.randint(0, 127)),
    ]
    perc_ops = instr_ops + [lambda o, r: getattr(o, r.choice(["acoustic_bass_drum", "side_stick", "cowbell", "open_triangle"]))()]
    mf_ops = [
        lambda o, r: o.tracks.append(MidiTrack(r.choice([60, 120]))), lambda o, r: setattr(o, "tracks", [MidiTrack()]),
        lambda o, r: o.reset(), lambda o, r: o.get_midi_data(), lambda o, r: o.header(),
        lambda o, r: [t.play_Note(Note(r.choice(NN))) for t in o.tracks], lambda o, r: setattr(o, "time_division", b"\x00\x60"),
    ]
    mt_ops = [
        lambda o, r: o.play_Note(Note(r.choice(NN), 4, velocity=r.randint(0, 127), channel=r.randint(0, 15))),
        lambda o, r: o.stop_Note(Note(r.choice(NN))), lambda o, r: o.play_NoteContainer(NoteContainer(r.sample(NN, 3))),
        lambda o, r: o.stop_NoteContainer(NoteContainer(r.sample(NN, 2))), lambda o, r: o.play_Bar(O["bar"]()),
        lambda o, r: o.play_Track(O["track"](1)), lambda o, r: o.set_instrument(r.randint(0, 15), r.randint(0, 127)),
        lambda o, r: o.set_tempo(r.choice([60, 90, 140])), lambda o, r: o.set_meter((3, 4)), lambda o, r: o.set_key(r.choice(["G", "d", "Eb"])),
        lambda o, r: o.set_track_name("n%d" % r.randint(0, 9)), lambda o, r: o.set_deltatime(r.randint(0, 500)),
        lambda o, r: o.reset(), lambda o, r: o.get_midi_data(),
    ]
    seq_ops = [
        lambda o, r: o.attach(_Listener()), lambda o, r: o.detach(o.listeners[0]), lambda o, r: o.play_Note(Note(r.choice(NN))),
        lambda o, r: o.stop_Note(Note(r.choice(NN)), 3), lambda o, r: o.play_NoteContainer(NoteContainer(r.sample(NN, 3)), 2),
        lambda o, r: o.stop_NoteContainer(NoteContainer(r.sample(NN, 3)), 2), lambda o, r: o.play_Bar(O["bar"](), 1, 120),
        lambda o, r: o.play_Bars([O["bar"](), O["bar"]("G")], [1, 2]), lambda o, r: o.play_Track(O["track"](1)),
        lambda o, r: o.play_Tracks([O["track"](1), O["track"](1)], [1, 2]), lambda o, r: o.play_Composition(O["comp"]()),
        lambda o, r: o.set_instrument(r.randint(0, 15), r.randint(0, 127)), lambda o, r: o.control_change(1, r.randint(0, 127), r.randint(0, 127)),
        lambda o, r: o.modulation(1, 5), lambda o, r: o.pan(2, 64), lambda o, r: o.main_volume(3, 100),
        lambda o, r: o.listeners.append(_Listener()),
    ]
    obs_ops = [lambda o, r: o.notify(r.randint(0, 4), {"note": 60, "channel": 1, "velocity": 9, "control": 1, "value": 2,
                                                       "instr": 1, "bank": 0, "s": 0.1})]
    key_ops = [lambda o, r: setattr(o, "key", r.choice(["G", "d"])), lambda o, r: o == Key("G")]
    scale_ops = [lambda o, r: o.ascending(), lambda o, r: o.descending(), lambda o, r: o.degree(r.randint(1, 7)),
                 lambda o, r: setattr(o, "octaves", r.randint(1, 3)), lambda o, r: setattr(o, "tonic", r.choice(["D", "Bb"])),
                 lambda o, r: o.ascending().append("X")]
    tun_ops = [lambda o, r: o.find_frets(r.choice(NN)), lambda o, r: o.find_fingering(["E-4", "B-4"]),
               lambda o, r: o.find_chord_fingering(["A", "C", "E"]), lambda o, r: o.get_Note(r.randint(0, 2), r.randint(0, 12)),
               lambda o, r: o.frets_to_NoteContainer([0, 2, None]), lambda o, r: o.tuning.append(Note("C", 6)),
               lambda o, r: o.tuning[0].augment(), lambda o, r: setattr(o, "description", "d")]
    T = {
        "Note": (Note, lambda: Note("C", 4), note_ops, []),
        "NoteContainer": (NoteContainer, lambda: NoteContainer(), nc_ops, ["notes"]),
        "NoteContainer(notes)": (NoteContainer, lambda: NoteContainer(["C", "E", "G"]), nc_ops, ["notes"]),
        "Bar": (Bar, lambda: Bar(), bar_ops, ["bar"]),
        "Bar(key, meter)": (Bar, lambda: Bar("G", (3, 4)), bar_ops, ["bar"]),
        "Track": (Track, lambda: Track(), track_ops, ["bars"]),
        "Track(instrument)": (Track, lambda: Track(Piano()), track_ops, ["bars"]),
        "Composition": (Composition, lambda: Composition(), comp_ops, ["tracks", "selected_tracks"]),
        "Suite": (Suite, lambda: Suite(), suite_ops, ["compositions"]),
        "Instrument": (Instrument, lambda: Instrument(), instr_ops, []),
        "Piano": (Piano, lambda: Piano(), instr_ops, []),
        "Guitar": (Guitar, lambda: Guitar(), instr_ops, []),
        "MidiInstrument": (MidiInstrument, lambda: MidiInstrument(), instr_ops, []),
        "MidiPercussionInstrument": (MidiPercussionInstrument, lambda: MidiPercussionInstrument(), perc_ops, []),
        "MidiFile": (MidiFile, lambda: MidiFile(), mf_ops, ["tracks"]),
        "MidiTrack": (MidiTrack, lambda: MidiTrack(), mt_ops, []),
        "MidiTrack(bpm)": (MidiTrack, lambda: MidiTrack(90), mt_ops, []),
        "Sequencer": (Sequencer, seq_factory, seq_ops, ["listeners"]),
        "SequencerObserver": (SequencerObserver, lambda: SequencerObserver(), obs_ops, []),
        "keys.Key": (Key, lambda: Key("C"), key_ops, []),
        "tunings.StringTuning": (tunings.StringTuning, lambda: tunings.StringTuning("g", "d", ["E-2", "A-2", ["D-3", "D-4"]]), tun_ops, ["tuning"]),
    }
    import inspect
    for n in sorted(vars(scales)):
        cls = getattr(scales, n)
        if n.startswith("_") or not inspect.isclass(cls) or cls.__module__ != scales.__name__:
            continue
        T["scales." + n] = (cls, (lambda c=cls, n=n: c("C", (3, 7)) if n == "Diatonic" else c("C")), scale_ops, [])
    return T


_SIB_KNOWN = {("Suite", "compositions"): "suite-compositions-class-level-list"}
_SHARE_KNOWN = {("Suite", "compositions"): "suite-compositions-class-level-list",
                ("Composition", "selected_tracks"): "composition-selected-tracks-class-level-list"}


def _diff_attrs(a, b):
    return sorted(k for k in set(a) | set(b) if a.get(k) != b.get(k))


def _save_class_lists(classes):
    saved = []
    for cls in classes:
        for k in cls.__mro__:
            if k is object:
                continue
            for a, v in vars(k).items():
                if isinstance(v, list) and not a.startswith("__"):
                    saved.append((v, list(v)))
                elif isinstance(v, dict) and not a.startswith("__"):
                    saved.append((v, dict(v)))
    return saved


def _siblings(R, tier, rnd):
    from bounded.decoders import c15_theory as T
    try:
        table = _class_table()
    except Exception as e:  # noqa
        R.fail("sibling instances", C_SIB, "could not build the class table: %s: %s" % (type(e).__name__, e), None)
        return
    nscripts = 40 if tier == "quick" else 1000
    saved = _save_class_lists([v[0] for v in table.values()])
    try:
        for name in sorted(table):
            cls, factory, ops, content = table[name]
            cname = cls.__name__
            # (a) content attributes of two fresh instances are distinct objects, distinct from the class default
            a, b = factory(), factory()
            for at in content:
                R.case(name, ("identity", at))
                va, vb = getattr(a, at), getattr(b, at)
                shared_default = any(vars(k).get(at) is va for k in cls.__mro__ if k is not object)
                if va is vb or shared_default:
                    R.fail(name, C_SHARE, "fresh instances: a.%s is b.%s = %s, is the class-level object = %s" %
                           (at, at, va is vb, shared_default), {"class": name, "attr": at},
                           finding=_SHARE_KNOWN.get((cname, at)))
            # (b) operation scripts on one instance
            for s in range(nscripts):
                a, b = factory(), factory()
                fresh0 = T.state_attrs(factory())
                b0 = T.state_attrs(b)
                d0 = dict((k, T.canon(v)) for k, v in T.class_defaults(cls).items())
                script = []
                for _ in range(rnd.randint(1, 10)):
                    k = rnd.randrange(len(ops))
                    try:
                        ops[k](a, rnd)
                        script.append(k)
                    except Exception:  # noqa
                        script.append(-k - 1)
                R.case(name, ("script", s, tuple(script)))
                b1 = T.state_attrs(b)
                d1 = dict((k, T.canon(v)) for k, v in T.class_defaults(cls).items())
                fresh1 = T.state_attrs(factory())
                for clause, what, x0, x1 in ((C_SIB, "the sibling instance", b0, b1), (C_DEF, "the class defaults", d0, d1),
                                             (C_DEF, "a newly created instance", fresh0, fresh1)):
                    df = _diff_attrs(x0, x1)
                    if df:
                        known = None
                        if all((cname, at) in _SIB_KNOWN for at in df):
                            known = _SIB_KNOWN[(cname, df[0])]
                        R.fail(name, clause, "after operations %s on one %s, %s changed in %s: %s -> %s" %
                               (script, name, what, df, T.show(x0.get(df[0])), T.show(x1.get(df[0]))),
                               {"class": name, "script": script, "seed": R.seed}, finding=known)
                _restore(saved)
    finally:
        _restore(saved)


# ------------------------------------------------------------------------------------------------------- copies
def _copies(R, tier, rnd):
    from bounded.decoders import c15_theory as T
    from mingus.containers import Note, NoteContainer
    table = _class_table()
    note_ops = table["Note"][2]
    names = [l + a for l in "CDEFGAB" for a in ("", "#", "b")] + (["C##", "Ebb"] if tier != "quick" else [])
    octs = range(0, 9) if tier != "quick" else (0, 3, 4, 8)
    dyn = [dict(), dict(velocity=1), dict(velocity=100, channel=9)]
    for n in names:
        for o in octs:
            for d in dyn:
                for k, op in enumerate(note_ops):
                    for direction in ("copy", "source", "copy.copy", "copy.deepcopy", "copy.deepcopy([note])[0]"):
                        src = Note(n, o, **d)
                        # the library's own way of copying, and the language's (a library class may define how it is copied)
                        mk = {"copy.copy": lambda: copy.copy(src), "copy.deepcopy": lambda: copy.deepcopy(src),
                              "copy.deepcopy([note])[0]": lambda: copy.deepcopy([src])[0]}.get(direction, lambda: Note(src))
                        how = direction if direction.startswith("copy.") else "Note(note)"
                        ok, cp = R.guard("Note(note)", C_COPY, (n, o, d, how), mk)
                        if not ok:
                            continue
                        R.case("Note(note)", (n, o, tuple(sorted(d.items())), k, direction))
                        edited, other = (src, cp) if direction == "source" else (cp, src)
                        before = T.state_attrs(other)
                        if cp is src:
                            R.fail("Note(note)", C_COPY, "%s returned the note itself" % how, (n, o, d, how))
                            continue
                        r2 = random.Random(k * 7919 + o)
                        try:
                            op(edited, r2)
                        except Exception:  # noqa
                            pass
                        after = T.state_attrs(other)
                        if after != before:
                            R.fail("Note(note)", C_COPY, "operation #%d on the %s changed the other note: %s -> %s" %
                                   (k, direction, T.show(before), T.show(after)), (n, o, d, k, direction))
    # containers
    nc_ops = [
        ("add_note", lambda o, r: o.add_note(r.choice(["D", "F#", "Bb"]), r.randint(1, 7))),
        ("add_notes", lambda o, r: o.add_notes(["D", "A"])),
        ("remove_note", lambda o, r: o.remove_note(o.notes[0].name)),
        ("remove_notes", lambda o, r: o.remove_notes([x.name for x in o.notes[:2]])),
        ("from_chord", lambda o, r: o.from_chord("F#m7")),
        ("from_interval", lambda o, r: o.from_interval("C", "5")),
        ("from_progression", lambda o, r: o.from_progression("V7", "G")),
        ("empty", lambda o, r: o.empty()),
        ("sort", lambda o, r: o.sort()),
        ("remove_duplicate_notes", lambda o, r: o.remove_duplicate_notes()),
        ("__setitem__", lambda o, r: o.__setitem__(0, "B")),
        ("__setitem__(Note)", lambda o, r: o.__setitem__(len(o) - 1, Note("F", 1))),
        ("__add__", lambda o, r: o + "B"),
        ("__sub__", lambda o, r: o - o.notes[-1].name),
        ("notes.append", lambda o, r: o.notes.append(Note("C", 9))),
        ("notes.reverse", lambda o, r: o.notes.reverse()),
        ("augment", lambda o, r: o.augment()),
        ("diminish", lambda o, r: o.diminish()),
        ("transpose", lambda o, r: o.transpose(r.choice(["3", "b3", "5"]), r.random() < .5)),
        ("note.augment", lambda o, r: o[0].augment()),
        ("note.set_note", lambda o, r: o[-1].set_note("D", 7)),
        ("note.velocity", lambda o, r: o[0].set_velocity(3)),
    ]
    through_notes = ("augment", "diminish", "transpose", "note.augment", "note.set_note", "note.velocity")
    sources = [["C", "E", "G"], ["A-2", "C-3", "E-3", "G-3"], [["C", 5], ["E", 5, {"velocity": 20}]], ["B"],
               ["C", "C#", "Db"], ["G-6", "C-1"]]
    if tier != "quick":
        for _ in range(40):
            sources.append(["%s-%d" % (rnd.choice(T.NOTES[:21]), rnd.randint(0, 8)) for _ in range(rnd.randint(1, 6))])
    builders = [("NoteContainer(other)", lambda s: NoteContainer(s)),
                ("NoteContainer().add_notes(other)", lambda s: (lambda c: (c.add_notes(s), c)[1])(NoteContainer())),
                ("NoteContainer() + other", lambda s: NoteContainer() + s)]
    for si, spec in enumerate(sources):
        for bname, build in builders:
            for oname, op in nc_ops:
                for direction in ("copy", "source"):
                    src = NoteContainer(copy.deepcopy(spec))
                    ok, cp = R.guard(bname, C_COPY, spec, lambda: build(src))
                    if not ok:
                        continue
                    R.case(bname, (si, oname, direction))
                    if cp is src or cp.notes is src.notes:
                        R.fail(bname, C_COPY, "the copy is the source (or holds the source's note list)", (spec, bname))
                    edited, other = (cp, src) if direction == "copy" else (src, cp)
                    before = T.canon(other)
                    ids_before = [id(x) for x in other.notes]
                    try:
                        op(edited, random.Random(si))
                    except Exception:  # noqa
                        pass
                    after = T.canon(other)
                    if after != before:
                        known = None
                        if oname in through_notes and [id(x) for x in other.notes] == ids_before:
                            known = "notecontainer-copy-shares-note-objects"
                        R.fail(bname, C_COPY, "%s on the %s changed the other container: %s -> %s" %
                               (oname, direction, T.show(before), T.show(after)), (spec, bname, oname, direction), finding=known)


# ------------------------------------------------------------------------------------------- MIDI writer objects
def _chunks(data):
    """own reader of the SMF chunk structure: (format, ntracks, division, [track chunk lengths]) or None"""
    if len(data) < 14 or data[:4] != b"MThd" or int.from_bytes(data[4:8], "big") != 6:
        return None
    fmt, ntr, div = (int.from_bytes(data[8 + 2 * i:10 + 2 * i], "big") for i in range(3))
    pos, lens = 14, []
    while pos < len(data):
        if data[pos:pos + 4] != b"MTrk" or pos + 8 > len(data):
            return None
        n = int.from_bytes(data[pos + 4:pos + 8], "big")
        lens.append(n)
        pos += 8 + n
    return (fmt, ntr, div, lens) if pos == len(data) else None


def _chunk_data(data):
    """the bytes of every track chunk, or None for a file that is not chunk-structured"""
    if _chunks(data) is None:
        return None
    pos, out = 14, []
    while pos < len(data):
        n = int.from_bytes(data[pos + 4:pos + 8], "big")
        out.append(data[pos + 8:pos + 8 + n])
        pos += 8 + n
    return out


def _midi_writers(R, tier, rnd):
    from mingus.midi import midi_file_out as mfo
    from mingus.containers import Note, NoteContainer
    O = _sample_objects()
    tmp = tempfile.mkdtemp(prefix="c15_")
    try:
        jobs = [("write_Note", lambda f: mfo.write_Note(f, Note("C", 4), 120, 1), 1),
                ("write_NoteContainer", lambda f: mfo.write_NoteContainer(f, NoteContainer(["C", "E", "G"]), 100, 0), 1),
                ("write_Bar", lambda f: mfo.write_Bar(f, O["bar"](), 120, 1), 1),
                ("write_Track", lambda f: mfo.write_Track(f, O["track"](), 90, 0), 1),
                ("write_Composition", lambda f: mfo.write_Composition(f, O["comp"](), 120, 0), 2)]
        first = {}
        n = 0
        for rep in range(3 if tier == "quick" else 25):
            order = list(range(len(jobs)))
            rnd.shuffle(order)
            for j in order:
                name, fn, ntr = jobs[j]
                path = os.path.join(tmp, "f%d.mid" % n)
                n += 1
                R.case("midi_file_out." + name, (rep, tuple(order)))
                ok, _ = R.guard("midi_file_out." + name, C_SIB, name, lambda: fn(path))
                if not ok:
                    continue
                with open(path, "rb") as fh:
                    data = fh.read()
                os.remove(path)
                ch = _chunks(data)
                if ch is None or ch[1] != ntr or len(ch[3]) != ntr:
                    R.fail("midi_file_out." + name, C_SIB, "file written after %d other writes has chunk structure %r, "
                           "expected %d track(s)" % (n - 1, ch, ntr), name)
                if name in first and first[name] != data:
                    R.fail("midi_file_out." + name, C_SIB, "the same object written again (after other writes) gives "
                           "different bytes: %d vs %d bytes" % (len(first[name]), len(data)), name)
                first.setdefault(name, data)
        # the per-track writers of one composition are separate objects: every track chunk of the composition's file is
        # what that track gives when it is written alone
        for bpm, rep in ((120, 0), (90, 1)):
            comp = O["comp"]()
            path = os.path.join(tmp, "comp.mid")
            R.case("midi_file_out.write_Composition", ("chunk per track", bpm, rep))
            ok, _ = R.guard("midi_file_out.write_Composition", C_SIB, "chunks", lambda: mfo.write_Composition(path, comp, bpm, rep))
            if not ok:
                continue
            with open(path, "rb") as fh:
                whole = _chunk_data(fh.read())
            os.remove(path)
            for i, t in enumerate(comp.tracks):
                ok, _ = R.guard("midi_file_out.write_Track", C_SIB, "chunks", lambda: mfo.write_Track(path, t, bpm, rep))
                if not ok:
                    continue
                with open(path, "rb") as fh:
                    alone = _chunk_data(fh.read())
                os.remove(path)
                if whole is None or not alone or len(whole) != len(comp.tracks) or whole[i] != alone[0]:
                    R.fail("midi_file_out.write_Composition", C_SIB, "track chunk %d of a %d-track composition (%s bytes) is "
                           "not what that track gives written alone (%s bytes): the per-track writers share content"
                           % (i, len(comp.tracks), len(whole[i]) if whole and len(whole) > i else None,
                              len(alone[0]) if alone else None), (bpm, rep, i))
    finally:
        shutil.rmtree(tmp, ignore_errors=True)


# --------------------------------------------------------------------------------------------- fft index memory
def _fft_index(R, tier, rnd):
    import importlib
    import math
    try:
        from mingus.extra import fft
    except ImportError as e:
        R.assumptions.append("mingus.extra.fft not importable (%s): frequency-to-note index memory not exercised" % e)
        return
    tab = list(fft._log_cache)
    tab0 = list(tab)

    def cold(f):
        importlib.reload(fft)            # a re-imported module is in its initial (cold) state
        try:
            return fft._find_log_index(f)
        except Exception as e:  # noqa
            return "EXC:" + type(e).__name__

    def model(f):                        # own reading: smallest n with f <= table[n]; 128 outside (0, table[127]]
        if not (f > 0) or f > tab[127]:
            return 128
        return bisect.bisect_left(tab[:128], f)

    S = [0.0, -1.0, 1e-9, 1.0, 1e9, tab[128] * 1.1, float("inf")]
    for n in range(129):
        S += [tab[n], math.nextafter(tab[n], math.inf), math.nextafter(tab[n], -math.inf)]
        if n < 128:
            S.append((tab[n] + tab[n + 1]) / 2)
    ref = {}
    nmodel = 0
    for f in S:
        ref[f] = cold(f)
        R.case("fft._find_log_index", ("cold", f))
        if ref[f] != model(f):
            nmodel += 1
    if nmodel:
        R.assumptions.append("fft._find_log_index: the cold answer differs from 'smallest n with f <= table[n]' for %d of "
                             "%d probe frequencies (not a C15 matter; the cold answer is the reference)" % (nmodel, len(S)))
    importlib.reload(fft)
    state = {"prev": False}

    def look(f, how):
        try:
            got = fft._find_log_index(f)
        except Exception as e:  # noqa
            got = "EXC:" + type(e).__name__
        want = ref.get(f)
        if want is None:
            want = model(f)
        if got != want:
            known = None
            if got == "EXC:IndexError" and f > tab[128] and state["prev"]:
                known = "fft-find-log-index-top-of-table"
            R.fail("fft._find_log_index", C_FFT, "lookup of %r gave %r after the lookups ..%r, but %r in a cold state" %
                   (f, got, how, want), {"f": f, "previous": how}, finding=known)
        # position memory can only hold 128 after an answer 128 for a frequency in (table[127], table[128]];
        # every answer below 128 overwrites it, other answers 128 (range check) and errors leave it alone
        if not isinstance(got, str):
            if got < 128:
                state["prev"] = False
            elif tab[127] < f <= tab[128]:
                state["prev"] = True
        return got

    # all ordered pairs of probe frequencies, as one long sequence
    P = S if tier != "quick" else S[::3] + S[-24:]
    for f1 in P:
        for f2 in P:
            look(f1, ("..", f2))
            look(f2, (f1,))
    _bulk(R, "fft._find_log_index", 2 * len(P) * len(P), ("pairs", len(P)))
    # all triples around the top of the table
    top = [tab[125], tab[126], (tab[126] + tab[127]) / 2, tab[127], math.nextafter(tab[127], math.inf),
           (tab[127] + tab[128]) / 2, tab[128], math.nextafter(tab[128], math.inf), tab[128] * 1.5, 1e9, 440.0, 1.0]
    for f1 in top:
        for f2 in top:
            for f3 in top:
                look(f1, ("..",))
                look(f2, (f1,))
                look(f3, (f1, f2))
    _bulk(R, "fft._find_log_index", 3 * len(top) ** 3, ("top-triples", len(top)))
    # random walks: ascending runs (the intended use), jumps, repeats; frequencies outside the probe set use the model
    nsteps = 100000 if tier == "quick" else 3000000
    f = 440.0
    hist = []
    for i in range(nsteps):
        u = rnd.random()
        if u < 0.55:
            f = f * (1 + rnd.random() * 0.08)
        elif u < 0.7:
            f = f / (1 + rnd.random() * 0.3)
        elif u < 0.85:
            f = rnd.choice(S)
        elif u < 0.9:
            pass
        else:
            f = math.exp(rnd.uniform(math.log(5), math.log(40000)))
        if not (f > 1e-6):
            f = 1.0
        if nmodel and f not in ref:      # own model not confirmed by the cold answers: stay on the probe set
            f = rnd.choice(S)
        if f > 1e6 and f != float("inf"):
            f = 20000.0
        look(f, tuple(hist[-3:]))
        hist.append(f)
    _bulk(R, "fft._find_log_index", nsteps, ("walk", nsteps))
    if list(fft._log_cache) != tab0:
        R.fail("fft._log_cache", C_FFT, "the frequency table changed during lookups", None)
    # public level: find_notes gives the same table whatever was looked up before
    tables = [[(440.0, 1.0), (445.0, 2.0), (30.0, 1.0)], [(float(x), 1.0) for x in range(20, 20000, 37)],
              [(tab[127], 1.0), (tab[128], 2.0), (8.0, 1.0)], [(x * 1.7, 0.5) for x in range(1, 9000, 11)][::-1]]
    for ti, t in enumerate(tables):
        importlib.reload(fft)
        ok, want = R.guard("fft.find_notes", C_FFT, ti, lambda: [(repr(a), b) for a, b in fft.find_notes(list(t))])
        if not ok:
            continue
        for k in range(6 if tier == "quick" else 60):
            for _ in range(rnd.randint(0, 5)):
                try:
                    fft._find_log_index(rnd.choice(S))
                except Exception:  # noqa
                    pass
            R.case("fft.find_notes", (ti, k))
            ok, got = R.guard("fft.find_notes", C_FFT, ti, lambda: [(repr(a), b) for a, b in fft.find_notes(list(t))])
            if ok and got != want:
                R.fail("fft.find_notes", C_FFT, "find_notes(table %d) differs from the cold result after other lookups" % ti, ti)
    importlib.reload(fft)


def _public_tables():
    import importlib
    import inspect
    from bounded.decoders import c15_theory as T
    out = {}
    for m in T.CORE_MODULES:
        mod = importlib.import_module("mingus.core." + m)
        for n, v in vars(mod).items():
            if n.startswith("_") or inspect.ismodule(v) or inspect.isfunction(v) or inspect.isclass(v):
                continue
            if isinstance(v, (list, dict, tuple)):
                out["%s.%s" % (m, n)] = T.canon(v)
    from mingus.containers.instrument import MidiInstrument
    out["MidiInstrument.names"] = T.canon(MidiInstrument.names)
    return out


# ---------------------------------------------------------------------------------------------------------- run
def _built_entries(R):
    """entries a library function builds for SEPARATE items must be separate objects: a track built from a chord list
    that repeats a chord name (no item is split across a bar line here; the split case is the C11 finding)"""
    from mingus.containers.track import Track
    G = "Track.from_chords (separate entries, separate objects)"
    for chords, dur in ((["C", "F", "G", "C"], 1), (["Am", "Am"], 1), ([["C", "C"], ["F", "C"]], 1), (["G7", "C", "G7", "C"], 4)):
        R.case(G, (repr(chords), dur))
        t = Track().from_chords(chords, dur)
        conts = [e[2] for b in t.bars for e in b.bar if e[2] is not None]
        notes = [n for c in conts for n in c.notes]
        if len(set(id(c) for c in conts)) != len(conts) or len(set(id(n) for n in notes)) != len(notes):
            R.fail(G, C_SIB, "entries of from_chords(%r, %r) share container or note objects (an edit of one entry "
                   "changes another)" % (chords, dur), (chords, dur))
            continue
        before = [[(n.name, n.octave) for n in c.notes] for c in conts]
        conts[0].augment()
        after = [[(n.name, n.octave) for n in c.notes] for c in conts]
        if after[1:] != before[1:]:
            R.fail(G, C_SIB, "augmenting the first entry of from_chords(%r, %r) changed other entries: %r -> %r"
                   % (chords, dur, before[1:], after[1:]), (chords, dur))


def run(tier, seed):
    R = Recorder("C15", tier, seed)
    for f in PROPOSED_FINDINGS:
        R.known.append(f) if f["id"] not in [k.get("id") for k in R.known] else None
    rnd = random.Random(seed)
    plan = _history_plan(tier, seed)
    batch = 3 if tier == "quick" else 8
    procs = [_spawn(p) for p in plan[:batch]]          # cold interpreters work while this process does the rest
    sections = [("argument / result aliasing (theory)", C_RES, lambda: _core_aliasing(R, tier, rnd)),
                ("argument aliasing (containers, extra, midi)", C_ARG, lambda: _noncore_aliasing(R)),
                ("result aliasing (extra)", C_RES, lambda: _noncore_results(R)),
                ("sibling instances", C_SIB, lambda: _siblings(R, tier, rnd)),
                ("midi_file_out", C_SIB, lambda: _midi_writers(R, tier, rnd)),
                ("copies", C_COPY, lambda: _copies(R, tier, rnd)),
                ("entries built by the library", C_SIB, lambda: _built_entries(R)),
                ("fft index memory", C_FFT, lambda: _fft_index(R, tier, rnd))]
    try:
        tables0 = _public_tables()
        for name, clause, fn in sections:
            try:
                fn()
            except Exception as e:  # noqa
                import traceback
                R.fail(name, clause, "section aborted by an unexpected %s: %s | %s" %
                       (type(e).__name__, e, traceback.format_exc().strip().splitlines()[-3:]), name)
        tables1 = _public_tables()
        for k in sorted(tables0):
            R.case("module tables", k)
            if tables0[k] != tables1.get(k):
                R.fail(k, C_HIST, "public module-level table changed during the run: %r -> %r" % (tables0[k], tables1.get(k)), k)
    finally:
        timeout = 120 if tier == "quick" else 900
        try:
            ref = _collect_history(R, procs, plan[:batch], timeout)
            done = batch
            while done < len(plan):
                more = plan[done:done + batch]
                ref = _collect_history(R, [_spawn(p) for p in more], more, timeout, ref)
                done += len(more)
        finally:
            for p in procs:
                if p.poll() is None:
                    p.kill()
    from bounded.decoders import c15_theory as T
    nsib, nscripts = len(_class_table()), (40 if tier == "quick" else 1000)
    R.assumptions.append("cold state = a fresh /venv/bin/python process (theory history) or a re-imported module (fft); "
                         "memo tables are never reset by hand")
    R.assumptions.append("result aliasing is checked for module-level public functions and the scale / Key classes; "
                         "container methods that return their own content list (NoteContainer.add_note, Bar.empty, ..) "
                         "are accessors of that object and are not treated as 'returned lists'")
    R.assumptions.append("mingus.midi.fluidsynth (needs the FluidSynth shared library), win32 sequencers, lilypond.to_png/"
                         "to_pdf (external program) and midi_file_in are not exercised")
    return R.result("theory history: %d cold interpreters (battery orders %s; the shuffled ones start with a random cold "
                    "history of 1..60 calls), each: fixed battery of %d queries over every public function/class of "
                    "mingus.core.* , then %d rounds of [random history of %d..%d calls incl. container-level calls, battery "
                    "in shuffled order]; aliasing: every battery query (arguments compared before/after; every list/dict "
                    "in a result edited in place, call repeated, %d neighbour queries re-checked %s) + %d container/extra/"
                    "midi calls; siblings: %d class entries x %d random scripts of 1..10 operations + identity of content "
                    "attributes; copies: Note(note) x %s names x %s octaves x 3 dynamics x 21 operations x 2 directions, "
                    "NoteContainer x %s sources x 3 ways x 22 operations x 2 directions; fft: all ordered pairs of %s probe "
                    "frequencies (table values, neighbours, midpoints, extremes), 12^3 triples at the top of the table, "
                    "random walk of %s lookups; midi writers: %d rounds of 5 write_* functions in shuffled order" %
                    (len(plan), sorted(set(p["order"] for p in plan)), len(T.universe()), plan[0]["rounds"],
                     plan[0]["hist"][0], plan[0]["hist"][1], len(_neighbour_indices(T.universe())),
                     "for memo functions and every 8th other result" if tier == "quick" else "for every result",
                     _NCASES[0], nsib, nscripts, "21" if tier == "quick" else "23", "4" if tier == "quick" else "9",
                     "6" if tier == "quick" else "46", "every 3rd of 650" if tier == "quick" else "650",
                     "100000" if tier == "quick" else "3000000", 3 if tier == "quick" else 25),
                    exhaustive=False)
