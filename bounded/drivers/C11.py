"""C11 bounded stand-in: transposition / augment / diminish at every container level (real code, own oracle).

Container-level clauses: NoteContainer / Bar / Track .transpose, .augment, .diminish apply the Note operation to
every note exactly once, leave rests, durations, beat positions (and dynamics, keys, meters) untouched, augment
followed by diminish is the identity on names, up-then-down restores names and octaves; changing the octave never
goes below 0.  The Note-level semitone/letter clause is re-checked here by execution with an oracle written from the
statement (pitch number = 12*octave + letter offset + sharps - flats; letter = letter moved by interval number - 1).
"""
import random

from bounded.drv import Recorder

PROPOSED_FINDINGS = [
    dict(property="C11", id="from-chords-split-shares-container", function="mingus.containers.track.Track.from_chords",
         clause="applies-the-operation-to-every-note-exactly-once",
         what="when Track.from_chords splits a chord across a bar line it stores the SAME NoteContainer object in both "
              "pieces; Bar/Track.transpose (augment, diminish) then visits that container twice, so the split chord "
              "is transposed twice (G major up a major third becomes D# F## A# instead of B D# F#)",
         witness_code="from mingus.containers.track import Track\nt = Track()\nt.add_notes('C', 2)\n"
                      "t.from_chords(['G'], 1)\nt.transpose('3')\n"
                      "observed = [[[n.name for n in e[2]] for e in b] for b in t]\n"
                      "holds = observed == [[['E'], ['B', 'D#', 'F#']], [['B', 'D#', 'F#']]]\n"),
]

LETTERS = "CDEFGAB"
PC = {"C": 0, "D": 2, "E": 4, "F": 5, "G": 7, "A": 9, "B": 11}
MAJOR = [0, 2, 4, 5, 7, 9, 11]
SHORTHANDS = [a + str(k) for a in ("bb", "b", "", "#", "##") for k in range(1, 8)]       # the 35 shorthands
NAMES = [l + a for l in LETTERS for a in ("", "#", "##", "b", "bb")]                       # the 35 names


def pitch(name, octave):
    return 12 * octave + PC[name[0]] + name[1:].count("#") - name[1:].count("b")


def net(name):
    return name[1:].count("#") - name[1:].count("b")


def canonical(name):
    return len(name) >= 1 and name[0] in PC and (set(name[1:]) <= {"#"} or set(name[1:]) <= {"b"})


def size(sh):
    return MAJOR[int(sh[-1]) - 1] + sh[:-1].count("#") - sh[:-1].count("b")


def letter_after(letter, sh, up):
    k = int(sh[-1]) - 1
    return LETTERS[(LETTERS.index(letter) + (k if up else -k)) % 7]


def respell(letter, n):
    return letter + ("#" * n if n >= 0 else "b" * -n)


def value_table():
    out = [2 ** k for k in range(0, 7)]
    out += [8.0 / 3, 16.0 / 3, 4.0 / 3, 6, 12, 3, 5, 10, 7, 32.0 / 7]
    return out


def run(tier, seed):
    import warnings
    with warnings.catch_warnings():
        warnings.simplefilter("ignore")
        from mingus.containers.note import Note
        from mingus.containers.note_container import NoteContainer
        from mingus.containers.bar import Bar
        from mingus.containers.track import Track
        from mingus.containers.instrument import Piano

    R = Recorder("C11", tier, seed)
    for f in PROPOSED_FINDINGS:
        R.known.append(f) if f["id"] not in [k.get("id") for k in R.known] else None
    rnd = random.Random(seed)
    quick = tier == "quick"
    VALUES = value_table()
    IN_DOMAIN = [sh for sh in SHORTHANDS if 0 <= size(sh) <= 11]
    class section(object):
        """an unexpected exception inside a case is a failure of that case's main clause, not a driver crash"""
        def __init__(self, group, clause, where):
            self.group, self.clause, self.where = group, clause, where

        def __enter__(self):
            return self

        def __exit__(self, et, ev, tb):
            if et is not None and issubclass(et, Exception):
                import traceback
                fr = traceback.extract_tb(tb)[-1]
                R.fail(self.group, self.clause, "unexpected %s: %s (%s:%d)" % (et.__name__, ev, fr.name, fr.lineno),
                       self.where)
                return True
            return False


    # ---- states -----------------------------------------------------------------------------------------------
    def nc_state(nc):
        return [(n.name, n.octave, n.velocity, n.channel) for n in nc.notes]

    def bar_state(b):
        return (getattr(b.key, "key", b.key), tuple(b.meter), b.length, b.current_beat,
                [(e[0], e[1], None if e[2] is None else nc_state(e[2])) for e in b.bar])

    def track_state(t):
        return [bar_state(b) for b in t.bars]

    def map_notes(state, level, f):
        """state with f applied to every (name, octave) of every note; everything else as it was"""
        def m_nc(s):
            return [f(n, o) + (v, c) for n, o, v, c in s]
        if level == "nc":
            return m_nc(state)

        def m_bar(s):
            return s[:4] + ([(beat, dur, None if c is None else m_nc(c)) for beat, dur, c in s[4]],)
        if level == "bar":
            return m_bar(state)
        return [m_bar(b) for b in state]

    def notes_of(state, level):
        if level == "nc":
            return [(n, o) for n, o, v, c in state]
        bars = [state] if level == "bar" else state
        return [(n, o) for b in bars for beat, dur, c in b[4] if c is not None for n, o, v, c2 in c]

    def skeleton(state, level):
        """everything but names and octaves"""
        def sk_nc(s):
            return [(v, c) for n, o, v, c in s]
        if level == "nc":
            return sk_nc(state)
        bars = [state] if level == "bar" else state
        return [b[:4] + ([(beat, type(beat).__name__, dur, type(dur).__name__, None if c is None else sk_nc(c))
                          for beat, dur, c in b[4]],) for b in bars]

    def get_state(obj, level):
        return nc_state(obj) if level == "nc" else bar_state(obj) if level == "bar" else track_state(obj)

    # ---- the Note-level operations as the statement describes them ----------------------------------------------
    def ref_note(op):
        """the operation applied to a fresh, private Note (delegation reference: 'applies exactly that operation')"""
        def f(n, o):
            x = Note(n, o)
            if op[0] == "T":
                x.transpose(op[1], op[2])
            elif op[0] == "A":
                x.augment()
            else:
                x.diminish()
            return (x.name, x.octave)
        return f

    def apply(obj, op):
        if op[0] == "T":
            return obj.transpose(op[1], op[2])
        if op[0] == "A":
            return obj.augment()
        return obj.diminish()

    def independent_ok(before, after, op):
        """statement oracle for one note (only where the statement speaks: canonical names of <= 2 accidentals,
        interval sizes 0..11).  None = fine / not applicable, else text"""
        (n, o), (n2, o2) = before, after
        if not (canonical(n) and abs(net(n)) <= 2):
            return None
        if op[0] == "T":
            s = size(op[1])
            if not 0 <= s <= 11:
                return None
            want = pitch(n, o) + (s if op[2] else -s)
            if not (len(n2) >= 1 and n2[0] in PC and set(n2[1:]) <= {"#", "b"}):
                return "%s-%d became the invalid name %r" % (n, o, n2)
            if pitch(n2, o2) != want:
                return "%s-%d %s %s gives %s-%d: pitch %d, expected %d" % (n, o, "up" if op[2] else "down", op[1],
                                                                           n2, o2, pitch(n2, o2), want)
            if n2[0] != letter_after(n[0], op[1], op[2]):
                return "%s-%d %s %s gives %s-%d: letter %s, expected %s" % (
                    n, o, "up" if op[2] else "down", op[1], n2, o2, n2[0], letter_after(n[0], op[1], op[2]))
            return None
        d = 1 if op[0] == "A" else -1
        if (n2, o2) != (respell(n[0], net(n) + d), o):
            return "%s-%d %s gives %s-%d, expected %s-%d" % (n, o, "augmented" if d > 0 else "diminished", n2, o2,
                                                             respell(n[0], net(n) + d), o)
        return None

    def check_op(group, level, obj, op, inputs, finding_if=None):
        """apply op to the library object; compare with the delegation reference and the statement oracle"""
        before = get_state(obj, level)
        ok, _ = R.guard(group, "applies-the-operation-to-every-note-exactly-once", inputs, lambda: apply(obj, op))
        if not ok:
            return False
        after = get_state(obj, level)
        fid = finding_if() if finding_if else None
        if skeleton(after, level) != skeleton(before, level):
            R.fail(group, "leaves-rests-durations-beat-positions-untouched",
                   "%r changed more than names and octaves: %r -> %r" % (op, skeleton(before, level)[:3],
                                                                        skeleton(after, level)[:3]), inputs)
            return False
        want = map_notes(before, level, ref_note(op))
        if after != want and fid is not None:
            # the finding only covers "visited once per reference": a note stored k times gets the operation k times
            fid, mult = fid
            one, it = ref_note(op), iter(mult)

            def k_times(n, o):
                for _ in range(next(it)):
                    n, o = one(n, o)
                return (n, o)
            if after != map_notes(before, level, k_times):
                fid = None
        if after != want:
            b, a, w = notes_of(before, level), notes_of(after, level), notes_of(want, level)
            bad = [(x, y, z) for x, y, z in zip(b, a, w) if y != z][:4]
            R.fail(group, "applies-the-operation-to-every-note-exactly-once",
                   "%r: (before, after, expected) differ at %r" % (op, bad), inputs, finding=fid)
            return False
        for x, y in zip(notes_of(before, level), notes_of(after, level)):
            msg = independent_ok(x, y, op)
            if msg:
                R.fail(group, "semitone-exact-on-the-required-letter" if op[0] == "T" else
                       "augment-diminish-move-one-semitone-on-the-same-letter", msg, inputs)
                return False
        return True

    def in_domain(state, level):
        return all(canonical(n) and abs(net(n)) <= 2 for n, o in notes_of(state, level))

    def check_pairs(group, level, make, inputs, ops):
        """up-then-down restores names and octaves; augment-then-diminish is the identity on names"""
        for op in ops:
            obj = make()
            start = get_state(obj, level)
            if not in_domain(start, level):
                continue
            inv = ("T", op[1], not op[2]) if op[0] == "T" else ("D",)
            ok, _ = R.guard(group, "up-then-down-restores-name-and-octave", inputs + (op,),
                            lambda: (apply(obj, op), apply(obj, inv)))
            if not ok:
                continue
            end = get_state(obj, level)
            if end != start:
                R.fail(group, "up-then-down-restores-name-and-octave" if op[0] == "T" else
                       "augment-then-diminish-is-identity-on-names",
                       "%r then %r: %r -> %r" % (op, inv, notes_of(start, level)[:5], notes_of(end, level)[:5]),
                       inputs + (op,))

    # =========================================================================================================
    # 1. Note level: 35 names x octaves x 35 shorthands x {up, down}
    # =========================================================================================================
    G = "Note.transpose"
    for n in NAMES:
        with section(G, 'semitone-exact-on-the-required-letter', ("name", n)):
            for o in range(0, 10):
                for sh in IN_DOMAIN:
                    for up in (True, False):
                        R.case(G, (n, o, sh, up))
                        x = Note(n, o)
                        ok, _ = R.guard(G, "semitone-exact-on-the-required-letter", (n, o, sh, up),
                                        lambda: x.transpose(sh, up))
                        if not ok:
                            continue
                        msg = independent_ok((n, o), (x.name, x.octave), ("T", sh, up))
                        if msg:
                            R.fail(G, "semitone-exact-on-the-required-letter", msg, (n, o, sh, up))
                            continue
                        x.transpose(sh, not up)
                        if (x.name, x.octave) != (n, o):
                            R.fail(G, "up-then-down-restores-name-and-octave", "%s-%d %s %s and back gives %s-%d"
                                   % (n, o, "up" if up else "down", sh, x.name, x.octave), (n, o, sh, up))
                R.case("Note.augment/diminish", (n, o))
                x = Note(n, o)
                x.augment()
                msg = independent_ok((n, o), (x.name, x.octave), ("A",))
                x.diminish()
                if msg or (x.name, x.octave) != (n, o):
                    R.fail("Note.augment/diminish", "augment-then-diminish-is-identity-on-names",
                           msg or "%s-%d augmented then diminished is %s-%d" % (n, o, x.name, x.octave), (n, o))
                y = Note(n, o)
                y.diminish()
                msg = independent_ok((n, o), (y.name, y.octave), ("D",))
                if msg:
                    R.fail("Note.augment/diminish", "augment-diminish-move-one-semitone-on-the-same-letter", msg, (n, o))

    # =========================================================================================================
    # 2. the octave never goes below 0
    # =========================================================================================================
    G = "Note.change_octave"
    for o in range(0, 10):
        with section(G, 'octave-never-below-0', ("octave", o)):
            for d in range(-14, 15):
                R.case(G, (o, d))
                x = Note("C", o)
                x.change_octave(d)
                if x.octave != max(0, o + d):
                    R.fail(G, "octave-never-below-0", "octave %d changed by %d gives %d" % (o, d, x.octave), (o, d))
    for s in range(40 if quick else 1000):
        with section(G, 'octave-never-below-0', ("seed", seed, "sequence", s)):
            o = rnd.randint(0, 4)
            x = Note(rnd.choice(NAMES), o)
            steps = []
            for _ in range(rnd.randint(1, 15)):
                k = rnd.choice(["up", "down", "down", "diff"])
                R.case(G, (s, len(steps)))
                if k == "up":
                    x.octave_up()
                    o = max(0, o + 1)
                elif k == "down":
                    x.octave_down()
                    o = max(0, o - 1)
                else:
                    d = rnd.randint(-6, 4)
                    x.change_octave(d)
                    o = max(0, o + d)
                    k = d
                steps.append(k)
                if x.octave != o or x.octave < 0:
                    R.fail(G, "octave-never-below-0", "after %r the octave is %d, expected %d" % (steps, x.octave, o),
                           steps)
                    break

    # =========================================================================================================
    # material
    # =========================================================================================================
    def rand_chord(kmax=5):
        """1..kmax notes of distinct pitch, low to high, with dynamics"""
        out, seen = [], set()
        for _ in range(rnd.randint(1, kmax)):
            n, o = rnd.choice(NAMES), rnd.randint(1, 8)
            if pitch(n, o) not in seen:
                seen.add(pitch(n, o))
                out.append((n, o, rnd.choice([64, 64, 1, 100, 127]), rnd.choice([1, 1, 0, 9, 15])))
        out.sort(key=lambda t: pitch(t[0], t[1]))
        return out

    def make_nc(spec):
        return NoteContainer([Note(n, o, velocity=v, channel=c) for n, o, v, c in spec])

    def rand_entries(k):
        out = []
        for _ in range(k):
            r = rnd.random()
            v = rnd.choice(VALUES)
            if r < 0.25:
                out.append((None, v))
            elif r < 0.6:
                out.append((rand_chord(1), v))
            else:
                out.append((rand_chord(5), v))
        return out

    KEYS = ["C", "G", "F", "Bb", "A", "e", "d", "f#", "Eb"]
    METERS = [(4, 4), (3, 4), (6, 8), (2, 2), (5, 4), (7, 8), (12, 8), (0, 0)]

    def make_bar(spec):
        key, meter, entries = spec
        b = Bar(key, meter)
        for c, v in entries:
            b.place_notes(None if c is None else make_nc(c), v)
        return b

    def make_track(spec):
        t = Track(spec[0]() if spec[0] else None)
        for kind, a, b in spec[1]:
            if kind == "bar":
                t.add_bar(make_bar(a))
            else:
                t.add_notes(None if a is None else make_nc(a), b)
        return t

    def rand_track_spec():
        items = []
        if rnd.random() < 0.5:
            items.append(("bar", (rnd.choice(KEYS), rnd.choice(METERS[:-1]), rand_entries(rnd.randint(0, 2))), None))
        for _ in range(rnd.randint(3, 18)):
            if rnd.random() < 0.06:
                items.append(("bar", (rnd.choice(KEYS), rnd.choice(METERS), rand_entries(rnd.randint(0, 3))), None))
            else:
                c, v = rand_entries(1)[0]
                items.append(("notes", c, v))
        return (None, items)

    def all_ops():
        return [("T", sh, up) for sh in SHORTHANDS for up in (True, False)] + [("A",), ("D",)]

    def rand_op():
        r = rnd.random()
        if r < 0.7:
            return ("T", rnd.choice(SHORTHANDS), rnd.random() < 0.5)
        return ("A",) if r < 0.85 else ("D",)

    PAIR_OPS = [("T", sh, up) for sh in IN_DOMAIN for up in (True, False)] + [("A",)]

    # =========================================================================================================
    # 3. NoteContainer
    # =========================================================================================================
    G = "NoteContainer.transpose/augment/diminish"
    for s in range(150 if quick else 4000):
        with section(G, 'applies-the-operation-to-every-note-exactly-once', ("seed", seed, "container", s)):
            spec = rand_chord(6)
            for op in all_ops():
                R.case(G, (s, op))
                nc = make_nc(spec)
                check_op(G, "nc", nc, op, (spec, op))
            check_pairs(G, "nc", lambda: make_nc(spec), (spec,), PAIR_OPS if s % 4 == 0 else rnd.sample(PAIR_OPS, 8))
            R.case(G, (s, "returns"))
            nc = make_nc(spec)
            if nc.transpose("3") is not nc:
                R.fail(G, "applies-the-operation-to-every-note-exactly-once", "transpose did not return the container",
                       (spec,))

    # =========================================================================================================
    # 4. Bar
    # =========================================================================================================
    G = "Bar.transpose/augment/diminish"
    for s in range(120 if quick else 3000):
        with section(G, 'applies-the-operation-to-every-note-exactly-once', ("seed", seed, "bar", s)):
            spec = (rnd.choice(KEYS), rnd.choice(METERS), rand_entries(rnd.randint(1, 9)))
            for op in (all_ops() if s % 3 == 0 else [rand_op() for _ in range(12)]):
                R.case(G, (s, op))
                check_op(G, "bar", make_bar(spec), op, (spec, op))
            check_pairs(G, "bar", lambda: make_bar(spec), (spec,), rnd.sample(PAIR_OPS, 10) + [("A",)])

    # =========================================================================================================
    # 5. Track: single operations, pairs, sequences of steps
    # =========================================================================================================
    G = "Track.transpose/augment/diminish"
    for s in range(80 if quick else 2400):
        with section(G, 'applies-the-operation-to-every-note-exactly-once', ("seed", seed, "track", s)):
            spec = rand_track_spec()
            for op in (all_ops() if s % 5 == 0 else [rand_op() for _ in range(10)]):
                R.case(G, (s, op))
                check_op(G, "track", make_track(spec), op, (spec[1], op))
            check_pairs(G, "track", lambda: make_track(spec), (spec[1],), rnd.sample(PAIR_OPS, 8) + [("A",)])
            R.case(G, (s, "returns"))
            t = make_track(spec)
            if t.transpose("5", False) is not t or t.augment() is not t or t.diminish() is not t:
                R.fail(G, "applies-the-operation-to-every-note-exactly-once", "transpose/augment/diminish did not return "
                       "the track", (spec[1],))
    # tracks whose later bars are the earlier bars' figure moved by the very interval applied afterwards
    # (melodic sequences): every bar is a separate object and must still be transposed exactly once
    G = "Track of sequenced bars"
    for s in range(40 if quick else 600):
        with section(G, 'applies-the-operation-to-every-note-exactly-once', ("seed", seed, "sequenced", s)):
            sh, up = rnd.choice(IN_DOMAIN), rnd.random() < 0.5
            key, meter = rnd.choice(KEYS), rnd.choice(METERS[:-1])
            figure = [(None if c is None else [(n, max(o, 2), v, ch) for (n, o, v, ch) in c][:3], val)
                      for c, val in rand_entries(rnd.randint(1, 4))]
            bars_spec = []
            cur = figure
            for _ in range(rnd.randint(2, 4)):
                bars_spec.append(("bar", (key, meter, cur), None))
                nxt = []
                for c, val in cur:
                    if c is None:
                        nxt.append((None, val))
                    else:
                        moved = []
                        for (n, o, v, ch) in c:
                            q = Note(n, o)
                            q.transpose(sh, up)
                            moved.append((q.name, q.octave, v, ch))
                        nxt.append((moved, val))
                cur = nxt
            spec = (None, bars_spec)
            for op in (("T", sh, up), ("T", sh, not up), ("A",), ("D",)):
                R.case(G, (s, op))
                check_op(G, "track", make_track(spec), op, (spec[1], op))
    G = "Track step sequences"
    for s in range(200 if quick else 8000):
        with section(G, 'applies-the-operation-to-every-note-exactly-once', ("seed", seed, "sequence", s)):
            spec = rand_track_spec()
            t = make_track(spec)
            steps = []
            for k in range(rnd.randint(2, 9)):
                op = rand_op()
                # keep the names inside the region where the Note operation itself is specified (<= 2 accidentals):
                # outside it only delegation (same result as a private Note) and the untouched skeleton are checked
                steps.append(op)
                R.case(G, (s, k))
                if not check_op(G, "track", t, op, (spec[1], list(steps))):
                    break
                if rnd.random() < 0.35 and in_domain(track_state(t), "track"):
                    # an immediate there-and-back pair in the middle of the sequence
                    p = rnd.choice(PAIR_OPS)
                    inv = ("T", p[1], not p[2]) if p[0] == "T" else ("D",)
                    st = track_state(t)
                    ok, _ = R.guard(G, "up-then-down-restores-name-and-octave", (spec[1], list(steps), p),
                                    lambda: (apply(t, p), apply(t, inv)))
                    if ok and track_state(t) != st:
                        R.fail(G, "up-then-down-restores-name-and-octave" if p[0] == "T" else
                               "augment-then-diminish-is-identity-on-names", "%r then %r after %r changed the track"
                               % (p, inv, steps), (spec[1], list(steps), p))
                        break

    # =========================================================================================================
    # 6. tracks with an instrument and tracks built by from_chords (split chords)
    # =========================================================================================================
    G = "Track built by from_chords"
    chord_lists = [["C", "G7"], ["Am", ["Dm", "G7"], "C"], ["F", None, "G"], [["C", "F"], ["G", "C"]], ["C", "F", "G", "C"]]
    cases = []
    for prefix in [(), (2,), (4,), (2, 4), (4, 4, 4), (8,), (2, 8)]:
        for chords in chord_lists:
            for dur in (1, 2, 4):
                cases.append((prefix, chords, dur))
    if quick:
        cases = cases[::3]
    for prefix, chords, dur in cases:
        with section(G, 'applies-the-operation-to-every-note-exactly-once', (prefix, chords, dur)):
            def make():
                t = Track()
                for v in prefix:
                    t.add_notes("E", v)
                t.from_chords(chords, dur)
                return t
            for op in ([("T", "3", True), ("T", "b7", False), ("A",), ("D",)] if quick else
                       [("T", sh, up) for sh in IN_DOMAIN[::3] for up in (True, False)] + [("A",), ("D",)]):
                R.case(G, (prefix, repr(chords), dur, op))
                ok, t = R.guard(G, "applies-the-operation-to-every-note-exactly-once", (prefix, chords, dur), make)
                if not ok:
                    break

                def shared(t=t):
                    nids = [id(n) for b in t.bars for e in b.bar if e[2] is not None for n in e[2].notes]
                    if len(nids) == len(set(nids)):
                        return None
                    # the listed finding is about ONE situation: the two pieces of a chord split across a bar line
                    # (last entry of a bar, first entry of the next) hold the same container.  Any other sharing
                    # (the same container placed for a repeated chord name, say) is not that finding.
                    flat = [(bi, ei, e) for bi, b in enumerate(t.bars) for ei, e in enumerate(b.bar) if e[2] is not None]
                    for i in range(len(flat)):
                        for j in range(i + 1, len(flat)):
                            if flat[i][2][2] is flat[j][2][2]:
                                (b1, e1, _), (b2, e2, _) = flat[i], flat[j]
                                split_pair = (b2 == b1 + 1 and e1 == len(t.bars[b1].bar) - 1 and e2 == 0)
                                if not split_pair:
                                    return None
                    return ("from-chords-split-shares-container", [nids.count(i) for i in nids])
                check_op(G, "track", t, op, (prefix, chords, dur, op), finding_if=shared)
    G = "Track with instrument"
    for s in range(40 if quick else 600):
        with section(G, 'applies-the-operation-to-every-note-exactly-once', ("seed", seed, "track", s)):
            spec = rand_track_spec()
            spec = (Piano, [it for it in spec[1] if it[0] == "notes" and it[1] is not None
                            and all(5 <= pitch(n, o) <= 107 for n, o, v, c in it[1])])
            op = rand_op()
            R.case(G, (s, op))
            ok, t = R.guard(G, "applies-the-operation-to-every-note-exactly-once", (spec[1], op), lambda: make_track(spec))
            if ok:
                check_op(G, "track", t, op, (spec[1], op))

    R.assumptions.append("the statement oracle (semitones, letter) is applied to notes whose name before the step is one "
                         "of the 35 canonical names (<= 2 accidentals) and to interval sizes 0..11; outside that "
                         "region a container operation is compared with the same operation on a private Note copy "
                         "(delegation) and the untouched skeleton only")
    R.assumptions.append("'never below octave 0' is checked for Note.change_octave / octave_up / octave_down "
                         "(transposing down from octave 0 is not an octave change in that sense)")
    R.assumptions.append("containers hold distinct Note objects unless the library itself created the sharing "
                         "(from_chords); a caller who stores one container twice is outside the statement")
    return R.result(
        "exhaustive: Note.transpose over 35 names x octaves 0..9 x %d shorthands of size 0..11 x {up, down}; "
        "change_octave over octaves 0..9 x diffs -14..14.  seeded: %s note containers (1..6 notes, dynamics) x all "
        "35 shorthands x {up, down} + augment + diminish; bars (8 meters, rests, 17 values incl. dotted/tuplets); "
        "tracks of 3..18 items with inserted bars; step sequences of 2..9 operations with there-and-back pairs; "
        "tracks built by from_chords over %d (prefix, chord list, duration) combinations"
        % (len(IN_DOMAIN), "150" if quick else "4000", len(cases)), exhaustive=False)
