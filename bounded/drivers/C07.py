"""C07 bounded stand-in: chord recognition (chords.determine) inverts construction (chords.from_shorthand).

Real code: mingus.core.chords.determine / from_shorthand.  Oracle: bounded/decoders/harmony.py (own table of chord
structures for every documented shorthand and every long description, own note spelling, own interval namer, own
parser of the long form '<root> <description>[, <ordinal> inversion]').
"""
import itertools
import random

from bounded.drv import Recorder
from bounded.decoders import harmony as H

PROPOSED_FINDINGS = [
    dict(property="C07", id="long-form-no-ordinal-beyond-third-inversion",
         function="mingus.core.chords.determine",
         clause="neither-raises",
         what="chords.determine(chord, shorthand=False) raises TypeError whenever a 5-7 note input contains a chord "
              "recognised in its fourth or later inversion (int_desc returns None for tries >= 5), e.g. every "
              "five-note shorthand chord in fourth inversion; the shorthand form answers normally",
         witness_code="from mingus.core import chords\n"
                      "c = chords.from_shorthand('C9')\n"
                      "rot = c[4:] + c[:4]\n"
                      "try:\n"
                      "    observed = chords.determine(rot, False)\n"
                      "    holds = len(observed) == len(chords.determine(rot, True))\n"
                      "except Exception as e:\n"
                      "    observed = 'raised %s: %s' % (type(e).__name__, e)\n"
                      "    holds = False\n"),
    dict(property="C07", id="major-eleventh-long-form-keyerror",
         function="mingus.core.chords.determine",
         clause="neither-raises",
         what="a six-note major eleventh (1 3 5 7 9 11) is recognised as 'M11', which has no entry in "
              "chord_shorthand_meaning: the long form raises KeyError('M11')",
         witness_code="from mingus.core import chords\n"
                      "try:\n"
                      "    observed = chords.determine(['C', 'E', 'G', 'B', 'D', 'F'], False)\n"
                      "    holds = len(observed) == len(chords.determine(['C', 'E', 'G', 'B', 'D', 'F'], True))\n"
                      "except Exception as e:\n"
                      "    observed = 'raised %s: %s' % (type(e).__name__, e)\n"
                      "    holds = False\n"),
    dict(property="C07", id="major-eleventh-name-not-constructible",
         function="mingus.core.chords.determine",
         clause="every-shorthand-name-accepted-by-construction",
         what="determine(['C','E','G','B','D','F'], True) returns 'CM11', but 'M11' is not a chord shorthand: "
              "from_shorthand('CM11') raises FormatError",
         witness_code="from mingus.core import chords\n"
                      "observed = chords.determine(['C', 'E', 'G', 'B', 'D', 'F'], True)\n"
                      "holds = True\n"
                      "for n in observed:\n"
                      "    for h in n.split('|'):\n"
                      "        try:\n"
                      "            chords.from_shorthand(h)\n"
                      "        except Exception:\n"
                      "            holds = False\n"),
]

G_BUILT = "determine(chord built from shorthand, rotated)"
G_THREE = "determine(three notes)"
G_MANY = "determine(4-7 notes)"
G_SMALL = "determine(0-2 notes)"


def run(tier, seed):
    from mingus.core import chords
    R = Recorder("C07", tier, seed)
    for f in PROPOSED_FINDINGS:
        R.known.append(f) if f["id"] not in [k.get("id") for k in R.known] else None
    rnd = random.Random(seed)
    quick = tier == "quick"
    built_cache = {}

    def construct(name):
        """real construction of a shorthand name; (ok, chord or exception)"""
        if name not in built_cache:
            try:
                built_cache[name] = (True, chords.from_shorthand(name))
            except Exception as e:  # noqa
                built_cache[name] = (False, e)
        return built_cache[name]

    def model_of_short(name):
        """(root, structure) the model gives a non-polychord shorthand name, or None"""
        sp = H.split_name(name)
        if sp is None:
            return None
        st = H.structure_of_shorthand(sp[1])
        return None if st is None else (sp[0], st)

    def model_of_long(text):
        p = H.parse_long(text)
        if p is None:
            return None
        st = H.structure_of_description(p[1])
        return None if st is None else (p[0], st, p[2])

    def inversion_of(root, chord):
        """inversion numbers at which `root` can be the root of the rotated input"""
        n = len(chord)
        return [(n - j) % n for j in range(n) if chord[j] == root]

    def answers(group, chord):
        """both forms of the real answer + the clauses that hold for EVERY input:
        neither-raises, same-length-and-order, every-shorthand-name-accepted-by-construction.
        Returns (short, long) with None for a form that raised."""
        inp = list(chord)
        same = list(chord)      # ONE list object handed to both forms: an answer must not depend on (or change) it
        try:
            short = chords.determine(same, True)
        except Exception as e:  # noqa
            R.fail(group, "neither-raises", "shorthand form raised %s: %s" % (type(e).__name__, e), inp)
            short = None
        if same != inp:
            R.fail(group, "same-length-and-order", "determine(chord, True) changed the caller's chord to %r" % (same,), inp)
            same = list(chord)
        try:
            long_ = chords.determine(same, False)
            if same != inp:
                R.fail(group, "same-length-and-order", "determine(chord, False) changed the caller's chord to %r" % (same,), inp)
        except Exception as e:  # noqa
            fid = None
            if short is not None and len(chord) >= 5:
                plain = [H.split_name(s) for s in short if "|" not in s]
                plain = [p for p in plain if p is not None]
                if isinstance(e, TypeError) and any(k >= 4 for p in plain for k in inversion_of(p[0], chord)):
                    fid = "long-form-no-ordinal-beyond-third-inversion"
                elif isinstance(e, KeyError) and e.args == ("M11",) and any(p[1] == "M11" for p in plain):
                    fid = "major-eleventh-long-form-keyerror"
            R.fail(group, "neither-raises", "long form raised %s: %s" % (type(e).__name__, e), inp, finding=fid)
            long_ = None
        # the non-default flags (no inversions / no polychords) through determine(): the answer is part of the full
        # answer, the two forms still agree in length, and the caller's list is still untouched
        if short is not None and long_ is not None and 3 <= len(chord) <= 7:
            for flags in ((True, False), (False, True), (True, True)):
                same2 = list(chord)
                try:
                    s2 = chords.determine(same2, True, flags[0], flags[1])
                    l2 = chords.determine(same2, False, flags[0], flags[1])
                except Exception as e:  # noqa
                    R.fail(group, "neither-raises", "determine(chord, ., no_inversions=%r, no_polychords=%r) raised %s: %s"
                           % (flags[0], flags[1], type(e).__name__, e), inp)
                    continue
                if same2 != inp:
                    R.fail(group, "same-length-and-order", "determine(chord, ., no_inversions=%r, no_polychords=%r) changed the "
                           "caller's chord to %r" % (flags[0], flags[1], same2), inp)
                if isinstance(s2, list) and isinstance(l2, list):
                    if len(s2) != len(l2):
                        R.fail(group, "same-length-and-order", "with flags %r: shorthand %r vs long %r" % (flags, s2, l2), inp)
                    if any(x not in short for x in s2):
                        R.fail(group, "same-length-and-order", "with flags %r the answer %r is not part of the full answer %r"
                               % (flags, s2, short), inp)
        for form, ans in (("shorthand", short), ("long", long_)):
            if ans is not None and not (isinstance(ans, list) and all(isinstance(x, str) for x in ans)):
                R.fail(group, "same-length-and-order", "%s form is not a list of strings: %r" % (form, ans), inp)
                return None, None
        # construction accepts every shorthand name (and each half of a polychord name)
        for form, ans in (("shorthand", short), ("long", long_)):
            for x in ans or []:
                if form == "long" and "|" not in x:
                    continue
                for part in [x] + (x.split("|") if "|" in x else []):
                    ok, val = construct(part)
                    if not ok:
                        halves = [H.split_name(h) for h in part.split("|")]
                        m11 = [h for h in halves if h is not None and h[1] == "M11"]
                        rest = [h for h in halves if h is None or h[1] != "M11"]
                        fid = None
                        if m11 and all(h is not None and construct(h[0] + h[1])[0] for h in rest):
                            fid = "major-eleventh-name-not-constructible"
                        R.fail(group, "every-shorthand-name-accepted-by-construction",
                               "%s form returned %r; from_shorthand(%r) raised %s" % (form, x, part,
                                                                                    type(val).__name__),
                               inp, finding=fid)
        if short is not None and long_ is not None:
            if len(short) != len(long_):
                R.fail(group, "same-length-and-order", "shorthand %r vs long %r" % (short, long_), inp)
            else:
                for s, l in zip(short, long_):
                    if "|" in s or "|" in l:
                        same = s == l
                    else:
                        ms, ml = model_of_short(s), model_of_long(l)
                        if ms is None:
                            continue        # name unknown to the model: reported by the construction clause
                        same = ml is not None and ml[0] == ms[0] and ml[1] == ms[1]
                    if not same:
                        R.fail(group, "same-length-and-order",
                               "position %d: shorthand %r but long form %r" % (short.index(s), s, l), inp)
        return short, long_

    # ------------------------------------------------------------------ built chords x roots x rotations
    suffixes = sorted(H.SHORTHAND)
    lib_suffixes = sorted(getattr(chords, "chord_shorthand", {}))
    extra = [s for s in lib_suffixes if s not in H.SHORTHAND]
    if [s for s in extra if H.structure_of_shorthand(s) is None]:
        R.assumptions.append("shorthands %r of the library's table are not in the documented list the model knows; "
                             "their round trip is checked, the meaning of their long form is not"
                             % ([s for s in extra if H.structure_of_shorthand(s) is None],))
    roots1 = H.names(1)
    doubles = [n for n in H.names(2) if n not in roots1]
    n_double = 4 if quick else len(doubles)
    for suf in suffixes + extra:
        roots = roots1 + (rnd.sample(doubles, n_double) if n_double < len(doubles) else doubles)
        for root in roots:
            ok, C = construct(root + suf)
            if not ok:
                R.case(G_BUILT, (suf, root, "construction"))
                R.fail(G_BUILT, "recognised-in-every-inversion",
                       "documented shorthand cannot be built: %s" % (C,), root + suf)
                continue
            if len(C) < 3:
                continue            # two-note chords: trivial answers, below
            n = len(C)
            for k in range(n):
                rot = C[k:] + C[:k]
                R.case(G_BUILT, (suf, root, k))
                short, long_ = answers(G_BUILT, rot)
                if short is None:
                    continue
                hits = [i for i, s in enumerate(short) if "|" not in s and construct(s) == (True, C)]
                if not hits:
                    R.fail(G_BUILT, "recognised-in-every-inversion",
                           "%s%s = %r, inversion %d: no name of %r rebuilds it" % (root, suf, C, k, short),
                           (root + suf, k, rot))
                    continue
                if long_ is None or len(long_) != len(short):
                    continue        # already reported above
                st = H.structure_of_shorthand(suf)
                good = False
                for i in hits:
                    m = model_of_long(long_[i])
                    if m is not None and m[0] == root and m[2] == k and (st is None or H.build(m[0], m[1]) == C):
                        good = True
                if not good:
                    R.fail(G_BUILT, "long-form-names-chord-with-correct-inversion-ordinal",
                           "%s%s inversion %d: long form gives %r at the position of %r"
                           % (root, suf, k, [long_[i] for i in hits], [short[i] for i in hits]),
                           (root + suf, k, rot))

    # ------------------------------------------------------------------ all three-note inputs
    def denotes_superset(group, form, name, chord):
        """the chord a returned name denotes (model) contains every given note"""
        if "|" in name:
            return
        if form == "short":
            ok, real = construct(name)      # a shorthand name denotes what construction builds from it
            m = model_of_short(name)
            if ok:
                notes = real
            elif m is not None:
                notes = H.build(m[0], m[1])
            else:
                return                      # reported by the construction clause
        else:
            m = model_of_long(name)
            if m is None:
                R.fail(group, "three-note-names-contain-the-given-notes",
                       "long form %r is not '<root> <known description>[, <ordinal> inversion]'" % (name,), chord)
                return
            notes = H.build(m[0], m[1])
        missing = [x for x in chord if x not in notes]
        if missing:
            R.fail(group, "three-note-names-contain-the-given-notes",
                   "%s name %r denotes %r which lacks %r" % (form, name, notes, missing), chord)
        if form == "long":
            # the ordinal must be the inversion at which the named root sits in the input
            if m[2] not in inversion_of(m[0], chord):
                R.fail(group, "long-form-names-chord-with-correct-inversion-ordinal",
                       "%r: root %s is not at inversion %d of %r" % (name, m[0], m[2], chord), chord)

    names3 = H.names(1)
    for tri in itertools.product(names3, repeat=3):
        R.case(G_THREE, tri)
        short, long_ = answers(G_THREE, list(tri))
        for s in short or []:
            denotes_superset(G_THREE, "short", s, list(tri))
        for l in long_ or []:
            denotes_superset(G_THREE, "long", l, list(tri))
    # three-note inputs with double accidentals (sampled)
    pool2 = H.names(2)
    for _ in range(300 if quick else 6000):
        tri = [rnd.choice(pool2) for _ in range(3)]
        R.case(G_THREE, tuple(tri))
        short, long_ = answers(G_THREE, tri)
        for s in short or []:
            denotes_superset(G_THREE, "short", s, tri)
        for l in long_ or []:
            denotes_superset(G_THREE, "long", l, tri)

    # ------------------------------------------------------------------ sampled 4-7 note inputs
    thirds = [(3, 3), (3, 4)]
    fifths = [(5, 7), (5, 7), (5, 6), (5, 8)]
    sevenths = [(7, 10), (7, 11), (7, 9), (6, 9)]
    ninths = [(2, 2), (2, 2), (2, 1), (2, 3)]
    elevenths = [(4, 5), (4, 5), (4, 6)]
    thirteenths = [(6, 9), (6, 9), (6, 8)]

    def stack(size):
        root = rnd.choice(names3 if rnd.random() < 0.8 else pool2)
        st = [(1, 0)] + [rnd.choice(t) for t in (thirds, fifths, sevenths, ninths, elevenths, thirteenths)]
        return H.build(root, st[:size])

    def perturbed(size):
        suf = rnd.choice([s for s in suffixes if len(H.structure_of_shorthand(s)) >= 3])
        ch = H.build_shorthand(rnd.choice(names3), suf)
        while len(ch) < size:
            ch.insert(rnd.randrange(len(ch) + 1), rnd.choice(names3))
        ch = ch[:size]
        if rnd.random() < 0.3:
            ch[rnd.randrange(size)] = rnd.choice(names3)
        return ch

    def plain_major_stack(size):
        # 1 3 5 7 9 11 13 on a random root: the shapes the extended recognisers walk through
        st = [(1, 0), (3, 4), (5, 7), (7, rnd.choice((10, 11))), (2, 2), (4, 5), (6, 9)]
        if rnd.random() < 0.5:
            st[1] = (3, 3)
            st[3] = (7, 10)
        return H.build(rnd.choice(names3), st[:size])

    n_many = 12000 if quick else 250000
    for i in range(n_many):
        size = 4 + i % 4
        kind = i % 5
        if kind == 0:
            ch = [rnd.choice(names3) for _ in range(size)]
        elif kind in (1, 2):
            ch = stack(size)
        elif kind == 3:
            ch = plain_major_stack(size)
        else:
            ch = perturbed(size)
        k = rnd.randrange(size)
        ch = ch[k:] + ch[:k]
        R.case(G_MANY, tuple(ch))
        answers(G_MANY, ch)

    if not quick:
        # tier thorough: every four-note input over the 21 names
        for quad in itertools.product(names3, repeat=4):
            R.case(G_MANY, quad)
            answers(G_MANY, list(quad))

    # ------------------------------------------------------------------ 0, 1, 2 notes: documented trivial answers
    R.case(G_SMALL, ())
    for sh in (True, False):
        ok, v = R.guard(G_SMALL, "trivial-answers-for-0-1-2-notes", ([], sh), lambda: chords.determine([], sh))
        if ok and v != []:
            R.fail(G_SMALL, "trivial-answers-for-0-1-2-notes", "determine([]) -> %r" % (v,), ([], sh))
    for a in pool2:
        R.case(G_SMALL, (a,))
        for sh in (True, False):
            ok, v = R.guard(G_SMALL, "trivial-answers-for-0-1-2-notes", ([a], sh), lambda: chords.determine([a], sh))
            if ok and v != [a]:
                R.fail(G_SMALL, "trivial-answers-for-0-1-2-notes", "determine([%r]) -> %r" % (a, v), ([a], sh))
    pairs = list(itertools.product(names3, repeat=2))
    pairs += [(rnd.choice(pool2), rnd.choice(pool2)) for _ in range(200 if quick else 1225)]
    wraps = 0
    for a, b in pairs:
        R.case(G_SMALL, (a, b))
        for sh in (True, False):
            ok, v = R.guard(G_SMALL, "trivial-answers-for-0-1-2-notes", ([a, b], sh),
                            lambda: chords.determine([a, b], sh))
            if not ok:
                continue
            want = H.interval_name(a, b)
            number = H.NUMBER[H.interval_number(a, b)]
            if not (isinstance(v, list) and len(v) == 1 and isinstance(v[0], str)):
                R.fail(G_SMALL, "trivial-answers-for-0-1-2-notes",
                       "two notes must give one interval name, got %r" % (v,), ([a, b], sh))
            elif want is not None and v[0] != want:
                R.fail(G_SMALL, "trivial-answers-for-0-1-2-notes",
                       "determine([%r, %r]) -> %r, the interval is a %s" % (a, b, v, want), ([a, b], sh))
            elif want is None:
                wraps += 1
                w = v[0].split(" ")
                if len(w) != 2 or w[1] != number:
                    R.fail(G_SMALL, "trivial-answers-for-0-1-2-notes",
                           "determine([%r, %r]) -> %r, the interval is a %s" % (a, b, v, number), ([a, b], sh))
    # the power chord 'X5' is the one documented shorthand with two notes
    for root in roots1:
        ok, C = construct(root + "5")
        R.case(G_SMALL, ("5", root))
        if ok and len(C) == 2:
            okd, v = R.guard(G_SMALL, "trivial-answers-for-0-1-2-notes", C, lambda: chords.determine(list(C), True))
            if okd and v != ["perfect fifth"]:
                R.fail(G_SMALL, "trivial-answers-for-0-1-2-notes", "%s5 = %r -> %r" % (root, C, v), C)

    R.assumptions.append("'every shorthand' = the %d documented chord suffixes (slash chords and polychord strings "
                         "are not recognisable by design and are not enumerated)" % len(suffixes))
    R.assumptions.append("two-note answers: for the %d evaluated pairs whose true size is below 0 or above 11 "
                         "semitones (e.g. C - B#) only the interval number of the answer is checked" % wraps)
    R.assumptions.append("7-note chords cannot be written as a plain shorthand; they occur only among the sampled "
                         "inputs (no-raise / same-length / constructible-names clauses)")
    return R.result(
        "%d documented suffixes x roots (all 21 with <= 1 accidental + %d of 14 double-accidental roots%s) x every "
        "rotation x {shorthand, long}; all 21^3 three-note inputs + %d sampled with double accidentals; %s%d seeded "
        "4-7 note inputs (random notes, random/plain stacks of thirds, documented chords with inserted/replaced "
        "notes; all rotated); [] / 35 single notes / all 21^2 + %d sampled pairs"
        % (len(suffixes), n_double, " sampled" if n_double < len(doubles) else "", 300 if quick else 6000,
           "" if quick else "all 21^4 four-note inputs; ", n_many,
           200 if quick else 1225),
        exhaustive=False)
