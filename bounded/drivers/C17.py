"""C17 bounded stand-in: compositions are written with mingus.midi.midi_file_out, read back with
mingus.midi.midi_file_in and compared with the written music (model computed from the plain data of the containers).
The written file is also decoded by the independent reader bounded/decoders/smf.py, which tells whether a mismatch
was introduced by the writer (file differs from the music) or by the reader (music read differs from the file)."""
import io
import os
import random
import shutil
import tempfile

from bounded.drv import Recorder
from bounded.decoders import smf
from bounded.drivers import C16 as W       # builders, generators and the pitch / key-signature model (no mingus code)

PROPOSED_FINDINGS = [
    dict(property="C17", id="midi-in-leading-rest-dropped",
         function="mingus.midi.midi_file_in.MidiFile.MIDI_to_Composition",
         clause="same-flattened-sequence-of-length-and-pitches",
         region="the first event of the track chunk with a non-zero delta time comes before or at the first note-on "
                "(the track starts with a rest)",
         what="the reader turns a non-zero delta time into the length of the PREVIOUS entry; for the first such event "
              "there is no previous entry and the placeholder it creates is overwritten or filled by the note, so the "
              "rest before the first note is lost and the whole track comes back shifted to the left",
         witness_code="import os, tempfile\nfrom mingus.containers import Bar, Track\n"
                      "from mingus.midi import midi_file_out, midi_file_in\n"
                      "b = Bar('C', (4, 4))\nb.place_rest(4)\nb.place_notes('C-4', 4)\nt = Track()\nt + b\n"
                      "d = tempfile.mkdtemp()\nf = os.path.join(d, 'w.mid')\nmidi_file_out.write_Track(f, t)\n"
                      "c, bpm = midi_file_in.MIDI_to_Composition(f)\nos.remove(f)\nos.rmdir(d)\n"
                      "observed = [[e[1], [str(n) for n in (e[2] or [])]] for e in c.tracks[0].bars[0].bar]\n"
                      "holds = len(observed) >= 2 and observed[0][1] == [] and observed[1][1] != []\n"),
    dict(property="C17", id="midi-in-key-signature-one-byte",
         function="mingus.midi.midi_file_in.MidiFile.MIDI_to_Composition",
         clause="key-of-every-bar-comes-back",
         region="the key signature event in the file is not (0 accidentals, major)",
         what="the reader takes both `sharps` and `minor` from data byte 0 of the key signature and reads it unsigned: "
              "any signature with accidentals is treated as minor-flagged (start from A) and flats as 249..255 sharps, "
              "a minor (0, 1) comes back as C major; e.g. a file in G major (FF 59 02 01 00) comes back in E",
         witness_code="import os, tempfile\nfrom mingus.midi import midi_file_in\n"
                      "body = bytes.fromhex('00ff510307a120' '00ff59020100' '00903c40' '48803c40' '00ff2f00')\n"
                      "data = (b'MThd' + bytes([0, 0, 0, 6, 0, 1, 0, 1, 0, 72]) + b'MTrk' +\n"
                      "        len(body).to_bytes(4, 'big') + body)\n"
                      "d = tempfile.mkdtemp()\nf = os.path.join(d, 'w.mid')\n"
                      "with open(f, 'wb') as fh:\n    fh.write(data)\n"
                      "c, bpm = midi_file_in.MIDI_to_Composition(f)\nos.remove(f)\nos.rmdir(d)\n"
                      "observed = c.tracks[0].bars[0].key.key\nholds = observed == 'G'\n"),
    dict(property="C17", id="midi-out-key-signature-first-letter",
         function="mingus.midi.midi_track.MidiTrack.set_key",
         clause="key-of-every-bar-comes-back",
         region="bar.key.key not in ('C','D','E','F','G','A','B')",
         what="(writer side, same defect as C16 midi-key-signature-first-letter) set_key writes the major key of the "
              "first letter of the key's display name, so the file already carries another key than the bar",
         witness_code="from mingus.midi.midi_track import MidiTrack\nfrom mingus.containers.bar import Bar\n"
                      "t = MidiTrack()\nt.track_data = b''\nt.set_key(Bar('Eb', (4, 4)).key)\n"
                      "observed = t.track_data.hex()\nholds = t.track_data == b'\\x00\\xff\\x59\\x02\\xfd\\x00'\n"),
    dict(property="C17", id="midi-out-instrument-delay-emitted-thrice",
         function="mingus.midi.midi_track.MidiTrack.play_Note",
         clause="same-flattened-sequence-of-length-and-pitches",
         region="track.instrument has instrument_nr and the first sounding entry is preceded by a rest inside its bar",
         what="(writer side, same defect as C16 midi-instrument-delay-emitted-thrice) the rest before the first note "
              "of a track with a MidiInstrument is written three times (on bank select, program change and note-on), "
              "so the file already differs from the music",
         witness_code="import os, tempfile\nfrom mingus.containers import Bar, Track\n"
                      "from mingus.containers.instrument import MidiInstrument\n"
                      "from mingus.midi import midi_file_out\n"
                      "b = Bar('C', (4, 4))\nb.place_rest(4)\nb.place_notes('C-4', 4)\n"
                      "t = Track(MidiInstrument())\nt + b\n"
                      "d = tempfile.mkdtemp()\nf = os.path.join(d, 'w.mid')\nmidi_file_out.write_Track(f, t)\n"
                      "data = open(f, 'rb').read()\nos.remove(f)\nos.rmdir(d)\n"
                      "i = data.index(b'\\xff\\x59\\x02') + 5\nj = data.index(b'\\x91\\x3c\\x40')\n"
                      "observed = data[i:j + 3].hex()\n"
                      "# [dt] Bn cc vv [dt] Cn pp [dt] 9n kk vv: the quarter rest (72 ticks) must be spent once\n"
                      "holds = j == i + 8 and data[i] + data[i + 4] + data[i + 7] == 72\n"),
]


# ------------------------------------------------------------------------------------------------ the model
def whole_ticks(value):
    """tick count of a value if it is whole (up to the representation error of a float value), else None"""
    x = 288.0 / value
    r = int(round(x))
    return r if r >= 1 and abs(x - r) < 1e-9 else None


def merge(seq):
    """adjacent rests count as one rest of their total length; trailing rests are ignored"""
    out = []
    for ticks, notes in seq:
        if not notes and out and not out[-1][1]:
            out[-1] = (out[-1][0] + ticks, frozenset())
        else:
            out.append((ticks, frozenset(notes)))
    while out and not out[-1][1]:
        out.pop()
    return out


def flat_written(spec):
    seq = []
    for bar in spec["bars"]:
        for value, notes in bar["entries"]:
            seq.append((whole_ticks(value), [(W.midi_pitch(n[0], n[1]), n[2], n[3]) for n in notes]))
    return merge(seq)


def flat_read(track):
    seq = []
    for bar in track.bars:
        for e in bar.bar:
            x = 288.0 / e[1]
            ticks = int(round(x)) if abs(x - round(x)) < 1e-6 else x
            notes = [] if e[2] is None else [(W.midi_pitch(n.name, n.octave), n.channel, n.velocity) for n in e[2].notes]
            seq.append((ticks, notes))
    return merge(seq)


def flat_file(trk):
    """flattened sequence denoted by a decoded track chunk (None if its notes do not form end-to-end entries)"""
    start, ends = {}, {}
    open_ = {}
    for e in trk.events:
        if e.kind == "note_on":
            if (e.channel, e.a) in open_:
                return None
            open_[(e.channel, e.a)] = (e.tick, e.b)
        elif e.kind == "note_off":
            if (e.channel, e.a) not in open_:
                return None
            t0, vel = open_.pop((e.channel, e.a))
            start.setdefault(t0, []).append((e.a, e.channel, vel))
            ends.setdefault(t0, set()).add(e.tick)
    if open_:
        return None
    seq, cur = [], 0
    for t0 in sorted(start):
        if len(ends[t0]) != 1 or t0 < cur:
            return None
        t1 = list(ends[t0])[0]
        if t0 > cur:
            seq.append((t0 - cur, []))
        seq.append((t1 - t0, start[t0]))
        cur = t1
    return merge(seq)


def drop_leading(seq, ticks):
    """seq with its leading rest shortened by `ticks`"""
    if not seq or seq[0][1] or ticks > seq[0][0]:
        return None
    rest = seq[0][0] - ticks
    return ([(rest, frozenset())] if rest else []) + list(seq[1:])


def pitches_only(seq):
    return [(t, frozenset(n[0] for n in ns)) for t, ns in seq]


def first_nonzero_delta_before_note(trk):
    for e in trk.events:
        if e.delta:
            return e.delta
        if e.kind == "note_on":
            return 0
    return 0


def leading_delay_of_first_sounding_bar(spec):
    for bar in spec["bars"]:
        d = 0
        for value, notes in bar["entries"]:
            if notes:
                return d
            d += whole_ticks(value)
    return 0


def file_signatures(trk):
    return set((e.data[0] - 256 if e.data[0] > 127 else e.data[0], e.data[1]) for e in trk.metas(0x59))


def sh(seq, n=8):
    return [(t, sorted(ns)) for t, ns in seq[:n]]


# ------------------------------------------------------------------------------------------------ one round trip
def roundtrip(R, tmp, group, recipe, bpm, check=("notes", "name", "instr", "meterkey", "tempo")):
    from mingus.midi import midi_file_out as MO, midi_file_in as MI
    inputs = dict(recipe=recipe, bpm=bpm)
    path = os.path.join(tmp, "c17.mid")
    ok, comp = R.guard(group, "written-to-a-midi-file", inputs, lambda: W.mk_composition(recipe))
    if not ok:
        return
    specs = [W.track_spec(t) for t in comp.tracks]
    if os.path.exists(path):
        os.remove(path)
    ok, res = R.guard(group, "written-to-a-midi-file", inputs, lambda: MO.write_Composition(path, comp, bpm))
    if not ok:
        return
    with open(path, "rb") as f:
        data = f.read()
    try:
        dec = smf.parse(data)
    except smf.SMFError as e:                      # C16's business; without a decodable file no attribution
        dec = None
    try:
        back, bpm_back = MI.MIDI_to_Composition(path)
    except Exception as e:  # noqa
        what = "MIDI_to_Composition raised %s: %s" % (type(e).__name__, e)
        fids = []
        if dec is not None and len(dec.tracks) == len(specs) and type(e).__name__ == "NoteFormatError" \
                and "unrecognized format for key" in str(e):
            # the reader computes a key that does not exist from a key signature with accidentals
            for trk, spec in zip(dec.tracks, specs):
                sigs = file_signatures(trk)
                if sigs - {(0, 0)} and "midi-in-key-signature-one-byte" not in fids:
                    fids.append("midi-in-key-signature-one-byte")
                keys = [b["key"] for b in spec["bars"]]
                if sigs != set(W.key_signature(k) for k in keys) and \
                        sigs == set(W.key_signature(k[0].upper()) for k in keys) and \
                        "midi-out-key-signature-first-letter" not in fids:
                    fids.append("midi-out-key-signature-first-letter")
        if "midi-in-key-signature-one-byte" in fids:
            for fid in fids:
                R.fail(group, "key-of-every-bar-comes-back", what, inputs, finding=fid)
        else:
            R.fail(group, "reading-the-file-back", what, inputs)
        return
    # the composition read from the PREVIOUS file is still alive: reading this file must not have changed it
    prev = getattr(roundtrip, "prev", None)
    if prev is not None:
        p_back, p_tracks, p_flat, p_inputs = prev
        try:
            now_flat = [flat_read(t) for t in p_back.tracks]
        except Exception as e:  # noqa
            now_flat = "flattening raised %s: %s" % (type(e).__name__, e)
        if p_back.tracks is back.tracks or [id(t) for t in p_back.tracks] != p_tracks or now_flat != p_flat:
            R.fail(group, "same-number-of-tracks", "the composition read from the file before (%d tracks) has %d tracks "
                   "after this file was read%s" % (len(p_tracks), len(p_back.tracks),
                                                   " (both compositions hold ONE track list)" if p_back.tracks is back.tracks else ""),
                   dict(first=p_inputs, then=inputs))
    try:
        roundtrip.prev = (back, [id(t) for t in back.tracks], [flat_read(t) for t in back.tracks], inputs)
    except Exception:  # noqa
        roundtrip.prev = None
    if "tempo" in check and bpm_back != bpm:
        R.fail(group, "tempo-read-back-equals-tempo-written", "bpm %r written, %r read back" % (bpm, bpm_back), inputs)
    if len(back.tracks) != len(specs):
        R.fail(group, "same-number-of-tracks", "%d written, %d read back" % (len(specs), len(back.tracks)), inputs)
        return
    for ti, (spec, rt) in enumerate(zip(specs, back.tracks)):
        trk = dec.tracks[ti] if dec is not None and len(dec.tracks) == len(specs) else None
        want = flat_written(spec)
        ok, got = R.guard(group, "same-flattened-sequence-of-length-and-pitches", inputs, lambda: flat_read(rt))
        if not ok:
            continue
        infile = flat_file(trk) if trk is not None else None
        if "notes" in check and got != want:
            clause = "same-flattened-sequence-of-length-and-pitches" if pitches_only(got) != pitches_only(want) \
                else "each-note-keeps-channel-and-velocity"
            findings = []
            explained = False
            if infile is not None:
                # stage 1: did the writer put the music into the file?
                if infile != want:
                    d = leading_delay_of_first_sounding_bar(spec)
                    if spec["instr"] is not None and d > 0 and want and not want[0][1] and \
                            infile == [(want[0][0] + 2 * d, frozenset())] + want[1:]:
                        findings.append("midi-out-instrument-delay-emitted-thrice")
                    else:
                        findings = None
                # stage 2: did the reader return what the file says?
                if findings is not None:
                    if got == infile:
                        explained = True
                    else:
                        fd = first_nonzero_delta_before_note(trk)
                        if fd and drop_leading(infile, fd) == got:
                            findings.append("midi-in-leading-rest-dropped")
                            explained = True
            what = "track %d: written %r; file %r; read back %r" % (ti, sh(want), sh(infile) if infile is not None
                                                                    else None, sh(got))
            if explained and findings:
                for fid in findings:
                    R.fail(group, clause, what, inputs, finding=fid)
            else:
                R.fail(group, clause, what, inputs)
        if "name" in check and rt.name != spec["name"]:
            R.fail(group, "track-name-comes-back", "track %d: %r written, %r read back" % (ti, spec["name"], rt.name),
                   inputs)
        if "instr" in check and spec["instr"] is not None and want:
            nr = getattr(rt.instrument, "instrument_nr", None)
            if nr != spec["instr"]:
                R.fail(group, "midi-instrument-number-comes-back", "track %d: instrument %r written, %r read back"
                       % (ti, spec["instr"], nr), inputs)
        if "meterkey" in check and spec["bars"]:
            meters = set(b["meter"] for b in spec["bars"])
            keys = set(b["key"] for b in spec["bars"])
            if len(meters) == 1 and len(keys) == 1:
                meter, key = list(meters)[0], list(keys)[0]
                gm = [tuple(b.meter) for b in rt.bars]
                if not gm or any(m != meter for m in gm):
                    R.fail(group, "meter-of-every-bar-comes-back", "track %d: meter %r written, bars read back have %r"
                           % (ti, meter, gm[:6]), inputs)
                gk = [getattr(b.key, "key", b.key) for b in rt.bars]
                if not gk or any(k != key for k in gk):
                    want_sig = W.key_signature(key)
                    fid = None
                    if trk is not None:
                        sigs = file_signatures(trk)
                        if sigs != {want_sig}:
                            if key not in W.LETTERS and sigs == {W.key_signature(key[0].upper())}:
                                fid = "midi-out-key-signature-first-letter"
                        elif want_sig != (0, 0):
                            fid = "midi-in-key-signature-one-byte"
                    R.fail(group, "key-of-every-bar-comes-back", "track %d: key %r written, file carries %r, bars read "
                           "back have %r" % (ti, key, sorted(sigs) if trk is not None else None, gk[:6]), inputs,
                           finding=fid)


# ------------------------------------------------------------------------------------------------ generators
# ... plus float values 288.0/k (k ticks exactly, but 288/value in double arithmetic may land just below k)
INTEGRAL = [v for v in W.VALUES_INTEGRAL + [4 / 1.5, 8 / 1.5, 2 / 1.5, 16 / 1.5, 4 / 1.75, 1.5, 2 / 1.75, 8 / 1.75] +
            [288.0 / k for k in (5, 7, 10, 11, 13, 14, 15, 20, 21, 28, 30, 31, 35, 40, 42, 56, 60, 63, 70)]
            if whole_ticks(v) is not None]


def rand_track_one_key(rnd, spellings, keys, vel_lo=1):
    key, meter = rnd.choice(keys), rnd.choice(W.METERS)
    name, instr, bars = W.rand_track(rnd, spellings, INTEGRAL, keys=[key], meters=[meter])
    if instr == "plain":
        instr = None
    fixed = []
    for (k, m, ents) in bars:
        ents = [(v, ns if not isinstance(ns, list) else [(n[0], n[1], n[2], max(n[3], vel_lo)) for n in ns])
                for v, ns in ents]
        fixed.append((k, m, ents))
    return (name, instr, fixed)


def arithmetic_holds(bpm):
    return 60000000 // (60000000 // bpm) == bpm


def run(tier, seed):
    R = Recorder("C17", tier, seed)
    for f in PROPOSED_FINDINGS:
        R.known.append(f) if f["id"] not in [k.get("id") for k in R.known] else None
    rnd = random.Random(seed)
    quick = tier == "quick"
    tmp = tempfile.mkdtemp(prefix="c17_")
    try:
        _vlq(R, rnd, quick)
        _roundtrips(R, tmp, rnd, quick)
        _reader_alone(R, tmp, rnd, quick)
        _tempo(R, tmp, rnd, quick)
        _reject(R, tmp, rnd, quick)
    finally:
        shutil.rmtree(tmp, ignore_errors=True)
    R.assumptions.append("the written music is read from the plain data of the containers; the file is also decoded "
                         "by bounded/decoders/smf.py to attribute a mismatch to the writer or to the reader")
    R.assumptions.append("float values such as 4/1.5 count as whole-tick values when 288/value is within 1e-9 of an "
                         "integer; the instrument number is only expected back for tracks with at least one note (no "
                         "program change is written otherwise); 'the bpm the format can hold' is taken as the integers "
                         "b >= 4 with 60000000 div (60000000 div b) = b (pure arithmetic of the 3-byte tempo field)")
    R.assumptions.append("the variable-length reader is compared on boundary neighbourhoods, a dense range, a stride "
                         "and a random sample, not on all 2^28 integers; only repeat count 0 is round-tripped")
    return R.result(rule=_RULE[tier], exhaustive=False)


_RULE = {
    "quick": "VLQ: 0..2^16 dense, +-200 around every 2^k (k<=28) and +-2000 around 128^k, 10000 random < 2^28; round "
             "trips: every R/N/C pattern of length <= 4 over 3 values, 26 whole-tick values alone and in pairs, 30 "
             "keys x 18 meters, 16 channels x velocities 1..127, instruments 0..127, names of length 0..300, 1-4 "
             "tracks x 0-5 seeded random bars (one key and meter per track, all 30 keys); the reader alone on files of "
             "the independent encoder: 30 keys x 3 meters x 3 leading rests; bpm 4..1000; header tag / "
             "track tag: every single-byte replacement; format numbers 3..600 and 2000 random; header lengths 0..5",
    "thorough": "as quick, plus VLQ 0..2^20 dense, stride 127 over 0..2^28, 500000 random; R/N/C patterns of length "
                "<= 5; many more seeded random compositions; every bpm 4..7745 plus 5000 random larger ones the tempo "
                "field can hold; all format numbers 3..65535; tag corruption also in 2- and 3-track files",
}


def _vlq(R, rnd, quick):
    from mingus.midi.midi_track import MidiTrack
    from mingus.midi.midi_file_in import MidiFile
    mt, mf = MidiTrack(), MidiFile()
    g = "MidiFile.parse_varbyte_as_int"
    vals = set(range(0, 1 << (16 if quick else 20)))
    for k in range(0, 29):
        for d in range(-200, 201):
            vals.add((1 << k) + d)
    for k in range(1, 5):
        for d in range(-2000, 2001):
            vals.add(128 ** k + d)
    for _ in range(10000 if quick else 500000):
        vals.add(rnd.randrange(1 << 28))
    if not quick:
        vals.update(range(0, 1 << 28, 127))
    for v in vals:
        if not 0 <= v < (1 << 28):
            continue
        R.case(g)
        try:
            enc = mt.int_to_varbyte(v)
            fp = io.BytesIO(enc + b"\x7f\xff")
            got = mf.parse_varbyte_as_int(fp)
            if got != (v, len(enc)) or fp.tell() != len(enc):
                R.fail(g, "variable-length-reader-inverts-writer", "%d written as %r read back as %r (stopped at %d)"
                       % (v, enc, got, fp.tell()), v)
            std = smf.vlq(v)
            if enc != std and mf.parse_varbyte_as_int(io.BytesIO(std + b"\x00")) != (v, len(std)):
                R.fail(g, "variable-length-reader-inverts-writer", "standard encoding %r of %d not read back" % (std, v), v)
        except Exception as e:  # noqa
            R.fail(g, "variable-length-reader-inverts-writer", "%d: %s: %s" % (v, type(e).__name__, e), v)
    R.distinct.add((g, len(vals)))


def _roundtrips(R, tmp, rnd, quick):
    spellings = W.all_spellings()
    g = "write_Composition -> MIDI_to_Composition"

    def go(recipe, bpm=120, check=("notes", "name", "instr", "meterkey", "tempo"), group=g):
        R.case(group, (repr(recipe), bpm))
        roundtrip(R, tmp, group, recipe, bpm, check)

    A, B2, N = ("C", 4, 3, 70), ("G", 4, 4, 80), ("C", 4, 1, 64)
    # every pattern of rests / notes / chords
    alphabet = [None, "empty", [A], [A, B2]]
    pats, frontier = [[]], [[]]
    for _ in range(4 if quick else 5):
        frontier = [p + [a] for p in frontier for a in alphabet]
        pats += frontier
    for p in pats:
        ents = [((4, 8, 3)[i % 3], x) for i, x in enumerate(p)]
        go([("p", None, [("C", (4, 4), ents)])])
        if len(p) <= 3:
            go([("p", 40, [("C", (4, 4), ents), ("C", (4, 4), [(2, [B2]), (2, None)]), ("C", (4, 4), ents)])])
    # the SAME Bar object at several places of a track (A A, A B A, ...), with different rests pending before it
    ba = ("C", (4, 4), [(4, [A]), (2, None), (4, None)])
    bb = ("C", (4, 4), [(4, None), (4, [B2]), (2, [N])])
    br = ("C", (4, 4), [(1, None)])
    for bars in ([ba, ("same", 0)], [ba, bb, ("same", 0)], [ba, bb, ("same", 1), ("same", 0)], [br, ba, ("same", 0), ("same", 1)],
                 [bb, ("same", 0), ("same", 0)], [ba, br, ("same", 0)]):
        go([("again", None, bars)])
        go([("again", 40, bars), ("other", None, [bb])], bpm=90)
    # values alone and in pairs
    big = (64, 1)
    for v in INTEGRAL:
        go([("v", None, [("C", big, [(v, [N]), (v, None), (v, [A, B2])])])])
        for w in INTEGRAL:
            go([("v", None, [("C", big, [(v, [N]), (w, [A]), (v, None), (w, None), (w, [B2])])])])
    # whole-bar rests in every position of a three-bar track
    full, rest = ("C", (4, 4), [(4, [N]), (4, [A]), (2, [B2])]), ("C", (4, 4), [(1, None)])
    half = ("C", (4, 4), [(2, None), (2, [N])])
    for a in (full, rest, half):
        for b in (full, rest, half):
            for c in (full, rest, half):
                go([("w", None, [a, b, c])])
    # keys x meters (one key and meter per track)
    for key in W.KEYS30:
        for meter in W.METERS:
            v = meter[1]
            ents = [(v, [N])] * min(meter[0], 3)
            go([("k", None, [(key, meter, ents), (key, meter, ents)])])
    # channels x velocities
    for ch in range(16):
        for vel in range(1, 128):
            go([("c", None, [("C", (4, 4), [(4, [("C", 4, ch, vel), ("E", 4, 15 - ch, 128 - vel)]), (4, [("D", 4, ch, vel)])])])],
               check=("notes",))
    # instruments, names
    for nr in range(128):
        go([("i", nr, [("C", (4, 4), [(4, [("C", 4, nr % 16, 64)]), (4, None), (4, [N])])])])
    for ln in [0, 1, 2, 126, 127, 128, 129, 255, 256, 300]:
        go([("".join(chr(32 + (i * 7) % 95) for i in range(ln)), None, [("C", (4, 4), [(4, [N])])])])
    # every spelling of every MIDI number
    for i in range(0, len(spellings), 4):
        chunk = spellings[i:i + 4]
        go([("s", None, [("C", (4, 4), [(4, [(n, o, 1, 64)]) for n, o in chunk])])], check=("notes",))
    # random compositions: region free of the known deviations first, then everything
    for _ in range(1500 if quick else 15000):
        rc = []
        for _t in range(rnd.randint(1, 4)):
            name, instr, bars = rand_track_one_key(rnd, spellings, ["C"])
            bars = [(k, m, [e for e in ents]) for k, m, ents in bars]
            # no leading rest: drop rests before the first sounding entry
            seen = False
            nb = []
            for k, m, ents in bars:
                ne = []
                for v, ns in ents:
                    if isinstance(ns, list):
                        seen = True
                    if seen:
                        ne.append((v, ns))
                nb.append((k, m, ne))
            rc.append((name, instr, nb))
        go(rc, bpm=rnd.randint(4, 1000))
    for _ in range(2000 if quick else 25000):
        rc = [rand_track_one_key(rnd, spellings, W.KEYS30) for _t in range(rnd.randint(1, 4))]
        go(rc, bpm=rnd.randint(4, 1000))
    # tracks that change key / meter: only the music is compared
    for _ in range(800 if quick else 10000):
        rc = []
        for _t in range(rnd.randint(1, 3)):
            name, instr, bars = W.rand_track(rnd, spellings, INTEGRAL)
            bars = [(k, m, [(v, ns if not isinstance(ns, list) else [(n[0], n[1], n[2], max(n[3], 1)) for n in ns])
                            for v, ns in ents]) for k, m, ents in bars]
            rc.append((name, None if instr == "plain" else instr, bars))
        go(rc, bpm=rnd.randint(4, 1000), check=("notes", "name", "instr", "tempo"))


def _reader_alone(R, tmp, rnd, quick):
    """the reader on files encoded by the independent writer of bounded/decoders/smf.py: shows what the reader does
    with the key signatures and leading rests that the library's own writer currently cannot produce correctly"""
    from mingus.midi import midi_file_in as MI
    g = "MIDI_to_Composition on independently encoded files"
    path = os.path.join(tmp, "ind.mid")
    for key in W.KEYS30:
        for meter in ((4, 4), (6, 8), (3, 2)):
            for lead in (0, 72, 300):
                sf, mi = W.key_signature(key)
                ch, vel = (sf + 7) % 16, 1 + (sf + 7) * 9
                evs = [(0, smf.meta(0x51, (500000).to_bytes(3, "big"))), (0, smf.meta(0x03, b"ind")),
                       (0, smf.meta(0x58, bytes([meter[0], W.log2_exact(meter[1]), 24, 8]))),
                       (0, smf.meta(0x59, bytes([sf & 0xFF, mi])))]
                want = [(lead, frozenset())] if lead else []
                d = lead
                for i, p in enumerate((60, 64, 127, 12)):
                    evs += [(d, bytes([0x90 | ch, p, vel])), (36 * (i + 1), bytes([0x80 | ch, p, vel]))]
                    want.append((36 * (i + 1), frozenset([(p, ch, vel)])))
                    d = 0
                data = smf.build(1, 72, [evs])
                inputs = dict(key=key, meter=meter, leading_rest=lead, file=data.hex())
                R.case(g, (key, meter, lead))
                with open(path, "wb") as f:
                    f.write(data)
                try:
                    c, bpm = MI.MIDI_to_Composition(path)
                except Exception as e:  # noqa
                    known = (sf, mi) != (0, 0) and type(e).__name__ == "NoteFormatError" and \
                        "unrecognized format for key" in str(e)
                    R.fail(g, "key-of-every-bar-comes-back" if known else "reading-the-file-back",
                           "raised %s: %s" % (type(e).__name__, e), inputs,
                           finding="midi-in-key-signature-one-byte" if known else None)
                    continue
                if bpm != 120 or len(c.tracks) != 1 or c.tracks[0].name != "ind":
                    R.fail(g, "tempo-tracks-and-name-come-back", "bpm %r, %d tracks, name %r"
                           % (bpm, len(c.tracks), c.tracks and c.tracks[0].name), inputs)
                    continue
                ok, got = R.guard(g, "same-flattened-sequence-of-length-and-pitches", inputs,
                                  lambda: flat_read(c.tracks[0]))
                if ok and got != want:
                    R.fail(g, "same-flattened-sequence-of-length-and-pitches", "file %r, read back %r"
                           % (sh(want), sh(got)), inputs,
                           finding="midi-in-leading-rest-dropped" if lead and got == drop_leading(want, lead) else None)
                gm = [tuple(b.meter) for b in c.tracks[0].bars]
                if not gm or any(m != meter for m in gm):
                    R.fail(g, "meter-of-every-bar-comes-back", "meter %r in the file, bars have %r" % (meter, gm[:6]),
                           inputs)
                gk = [getattr(b.key, "key", b.key) for b in c.tracks[0].bars]
                if not gk or any(k != key for k in gk):
                    R.fail(g, "key-of-every-bar-comes-back", "key %r = %r in the file, bars have %r"
                           % (key, (sf, mi), gk[:6]), inputs,
                           finding="midi-in-key-signature-one-byte" if (sf, mi) != (0, 0) else None)


def _tempo(R, tmp, rnd, quick):
    from mingus.midi import midi_file_out as MO, midi_file_in as MI
    from mingus.containers.note import Note
    g = "tempo round trip"
    path = os.path.join(tmp, "tempo.mid")
    bpms = list(range(4, 1001 if quick else 7746))
    if not quick:
        while len(bpms) < 7742 + 5000:
            b = rnd.choice([rnd.randint(7746, 60000), rnd.randint(7746, 60000000)])
            if arithmetic_holds(b):
                bpms.append(b)
        bpms += [60000000, 30000000, 20000000]
    for bpm in bpms:
        if not arithmetic_holds(bpm):
            continue
        R.case(g, bpm)
        try:
            MO.write_Note(path, Note("C", 4), bpm)
            back = MI.MIDI_to_Composition(path)[1]
        except Exception as e:  # noqa
            back = "%s: %s" % (type(e).__name__, e)
        if back != bpm:
            R.fail(g, "tempo-read-back-equals-tempo-written", "bpm %d written, %r read back" % (bpm, back), bpm)


def _reject(R, tmp, rnd, quick):
    from mingus.midi import midi_file_in as MI
    g = "MIDI_to_Composition rejects"
    path = os.path.join(tmp, "bad.mid")
    on, off = bytes([0x90, 60, 64]), bytes([0x80, 60, 64])
    trackev = [(0, smf.meta(0x51, (500000).to_bytes(3, "big"))), (0, smf.meta(0x58, bytes([4, 2, 24, 8]))),
               (0, smf.meta(0x59, bytes([0, 0]))), (0, on), (72, off)]

    def attempt(data, clause, what):
        R.case(g, (clause, what))
        with open(path, "wb") as f:
            f.write(data)
        try:
            res = MI.MIDI_to_Composition(path)
        except Exception:  # noqa  (any error is a rejection)
            return
        R.fail(g, clause, "%s: returned %r instead of raising an error" % (what, res), dict(file=data[:64].hex()))

    for ntr in (1, 3) if quick else (1, 2, 3):
        good = smf.build(1, 72, [trackev] * ntr)
        # every byte value on a one-track file; on files of several tracks (where the damaged tag may be a LATER track's:
        # music before it must not be handed back as if the file were sound) a sample in the quick tier
        bvals = list(range(256)) if (ntr == 1 or not quick) else \
            sorted(set([0, 1, 0x20, 0x4d, 0x54, 0x68, 0x72, 0x6b, 0x7f, 0x80, 0xff] + [rnd.randrange(256) for _ in range(6)]))
        # sanity: the unmodified file is accepted (otherwise the rejections below prove nothing)
        R.case(g, ("accepts-wellformed", ntr))
        with open(path, "wb") as f:
            f.write(good)
        try:
            c, bpm = MI.MIDI_to_Composition(path)
            if len(c.tracks) != ntr or bpm != 120:
                R.fail(g, "wellformed-file-is-read", "%d tracks bpm %r" % (len(c.tracks), bpm), good.hex())
        except Exception as e:  # noqa
            R.fail(g, "wellformed-file-is-read", "%s: %s" % (type(e).__name__, e), good.hex())
        for i in range(4):
            for b in bvals:
                if b != good[i]:
                    attempt(good[:i] + bytes([b]) + good[i + 1:], "bad-header-tag-rejected", "header byte %d = %02x" % (i, b))
        pos = 14
        for t in range(ntr):
            for i in range(4):
                for b in bvals:
                    if b != good[pos + i]:
                        attempt(good[:pos + i] + bytes([b]) + good[pos + i + 1:], "bad-track-tag-rejected",
                                "track %d tag byte %d = %02x" % (t, i, b))
            pos += 8 + int.from_bytes(good[pos + 4:pos + 8], "big")
        for tag in (b"MTrk", b"RIFF", b"mthd", b"MThD", b"\x00\x00\x00\x00", b"MTh", b""):
            attempt(tag + good[4:], "bad-header-tag-rejected", "header tag %r" % tag)
        for tag in (b"MThd", b"mtrk", b"MTrK", b"\x00\x00\x00\x00", b"XFIH"):
            attempt(good[:14] + tag + good[18:], "bad-track-tag-rejected", "track tag %r" % tag)
    good = smf.build(1, 72, [trackev])
    fmts = list(range(3, 601)) + [rnd.randint(601, 65535) for _ in range(2000)] + [255, 256, 257, 32768, 65535]
    if not quick:
        fmts = list(range(3, 65536))
    for fmt in fmts:
        attempt(good[:8] + fmt.to_bytes(2, "big") + good[10:], "impossible-format-number-rejected", "format %d" % fmt)
    for hl in range(0, 6):
        attempt(good[:4] + hl.to_bytes(4, "big") + good[8:], "bad-header-rejected", "header length %d" % hl)
    attempt(b"", "bad-header-tag-rejected", "empty file")
    attempt(b"MThd", "bad-header-rejected", "file of 4 bytes")
