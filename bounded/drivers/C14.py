"""C14 bounded stand-in: tracks and compositions accumulate music faithfully.

The REAL Track / Composition / Instrument / Bar code is driven with bounded-exhaustive and seeded operation
sequences; the expectation comes from an independent model written here (exact Fractions for all time
accounting, own pitch arithmetic, own chord speller, own flattening of nested chord lists).  The library is never
asked for an expected value.
"""
import random
import itertools
from fractions import Fraction as F

from bounded.drv import Recorder

PROPOSED_FINDINGS = [
    dict(property="C14", id="rest-with-instrument-raises", function="mingus.containers.track.Track.add_notes",
         clause="rests-accepted-with-or-without-instrument",
         what="Track.add_notes(None, value) (a rest) on a track with an instrument attached raises "
              "UnexpectedObjectError (TypeError for Guitar): the range test is applied to None; so does "
              "from_chords([... None ...]) on such a track",
         witness_code="from mingus.containers.track import Track\nfrom mingus.containers.instrument import Piano\n"
                      "t = Track(Piano())\ntry:\n    observed = t.add_notes(None, 4)\n    holds = observed is True\n"
                      "except Exception as e:\n    observed = type(e).__name__\n    holds = False\n"),
    dict(property="C14", id="guitar-len-on-non-list", function="mingus.containers.instrument.Guitar.can_play_notes",
         clause="in-range-note-accepted",
         what="Guitar.can_play_notes takes len() of its argument before normalising it: a Note object inside the "
              "range raises TypeError (Note has no len), a note string of more than 6 characters inside the range "
              "is refused with the range error",
         witness_code="from mingus.containers.track import Track\nfrom mingus.containers.note import Note\n"
                      "from mingus.containers.instrument import Guitar\nt = Track(Guitar())\n"
                      "try:\n    observed = t.add_notes(Note('A', 4), 4)\n    holds = observed is True\n"
                      "except Exception as e:\n    observed = type(e).__name__\n    holds = False\n"),
    dict(property="C14", id="rejected-item-opens-bar", function="mingus.containers.track.Track.add_notes",
         clause="rejected-item-changes-nothing",
         what="when the last bar is full (or the track is empty) add_notes appends the new bar BEFORE trying to "
              "place the item; an item longer than a whole bar is then reported False but leaves an extra empty "
              "bar behind (len(track), ==, repr change)",
         witness_code="from mingus.containers.track import Track\nt = Track()\nt.add_notes('C', 1)\n"
                      "n = len(t)\nr = t.add_notes('D', 0.5)\nobserved = (r, n, len(t))\n"
                      "holds = (r is False and len(t) == n)\n"),
    dict(property="C14", id="bar-full-tolerance", function="mingus.containers.track.Track.add_notes",
         clause="new-bar-only-when-last-one-is-full",
         what="Bar.is_full() calls a bar full when less than 0.001 of a whole note is left, so with values beyond "
              "1000 (e.g. 1024) a new bar is opened although the last one still has room for the item, and a bar "
              "that is not the last one is not full",
         witness_code="from mingus.containers.track import Track\nt = Track()\n"
                      "for v in (2, 4, 8, 16, 32, 64, 128, 256, 512, 1024):\n    t.add_notes('C', v)\n"
                      "r = t.add_notes('D', 1024)\nobserved = (r, len(t), len(t[0]))\n"
                      "holds = (len(t) == 1 and len(t[0]) == 11)\n"),
    dict(property="C14", id="from-chords-rest-not-split", function="mingus.containers.track.Track.from_chords",
         clause="from-chords-places-every-chord-and-rest",
         what="from_chords adds a rest (None) with a bare add_notes and ignores the result: a rest that does not "
              "fit in the room left in the last bar is silently dropped instead of being split across the bar line",
         witness_code="from mingus.containers.track import Track\nt = Track().from_chords([['C', 'C', 'C'], None], 1)\n"
                      "observed = [[(e[1], e[2] is None) for e in b] for b in t]\n"
                      "holds = sum(1.0 / e[1] for b in t for e in b) == 2.5\n"),
    dict(property="C14", id="from-chords-nested-rest-raises", function="mingus.containers.track.Track.from_chords",
         clause="from-chords-places-every-chord-and-rest",
         what="a rest (None) inside a nested sub-list of from_chords is handed to the chord parser and raises "
              "AttributeError; only top-level None is treated as a rest",
         witness_code="from mingus.containers.track import Track\ntry:\n"
                      "    t = Track().from_chords(['C', ['Am', None]], 1)\n"
                      "    observed = [[(e[1], e[2] is None) for e in b] for b in t]\n"
                      "    holds = observed == [[(1, False)], [(2, False), (2, True)]]\n"
                      "except Exception as e:\n    observed = type(e).__name__\n    holds = False\n"),
    dict(property="C14", id="from-chords-item-longer-than-bar", function="mingus.containers.track.Track.from_chords",
         clause="from-chords-total-length-equals-requested",
         what="from_chords splits an item that does not fit exactly once; when the remainder is itself longer than "
              "a bar (item longer than the room left plus one bar) the remainder is rejected and silently lost",
         witness_code="from mingus.containers.track import Track\nfrom mingus.containers.bar import Bar\n"
                      "t = Track()\nt.add_bar(Bar('C', (1, 4)))\nt.from_chords(['C'], 1)\n"
                      "observed = [[e[1] for e in b] for b in t]\n"
                      "holds = sum(1.0 / e[1] for b in t for e in b) == 1.0\n"),
    dict(property="C14", id="from-chords-float-drift", function="mingus.containers.track.Track.from_chords",
         clause="from-chords-total-length-equals-requested",
         what="the first piece of a split chord gets the value 1.0/space_left; Bar.place_notes adds 1.0/value back, "
              "which for some positions (e.g. 7/64 into a 7/8 bar) exceeds the bar length by one ulp, so the piece "
              "is refused and lost",
         witness_code="from mingus.containers.track import Track\nfrom mingus.containers.bar import Bar\n"
                      "t = Track()\nt.add_bar(Bar('C', (7, 8)))\n"
                      "for v in (16, 32, 64):\n    t.add_notes('C', v)\nt.from_chords(['G'], 1)\n"
                      "observed = [[e[1] for e in b] for b in t]\n"
                      "holds = abs(sum(1.0 / e[1] for b in t for e in b) - (7.0 / 64 + 1)) < 1e-9\n"),
    dict(property="C14", id="track-eq-rest-vs-notes-raises", function="mingus.containers.track.Track.__eq__",
         clause="equality-follows-contents",
         what="comparing two tracks (bars) whose first difference is a rest in one and notes in the other raises "
              "TypeError (NoteContainer.__eq__ takes len(None)) instead of answering False",
         witness_code="from mingus.containers.track import Track\na = Track()\na.add_notes('C', 4)\nb = Track()\n"
                      "b.add_notes(None, 4)\ntry:\n    observed = (a == b)\n    holds = observed is False\n"
                      "except Exception as e:\n    observed = type(e).__name__\n    holds = False\n"),
    dict(property="C14", id="composition-eq-is-identity", function="mingus.containers.composition.Composition",
         clause="equality-follows-contents",
         what="Composition defines no __eq__: two compositions with equal tracks compare unequal (identity)",
         witness_code="from mingus.containers.composition import Composition\nfrom mingus.containers.track import Track\n"
                      "a = Composition()\nb = Composition()\n"
                      "for c in (a, b):\n    t = Track()\n    t.add_notes('C', 4)\n    c.add_track(t)\n"
                      "observed = (a == b)\nholds = observed is True\n"),
]

# ---------------------------------------------------------------------------------------------------------------
# independent vocabulary
# ---------------------------------------------------------------------------------------------------------------
LETTERS = "CDEFGAB"
PC = {"C": 0, "D": 2, "E": 4, "F": 5, "G": 7, "A": 9, "B": 11}


def pitch(name, octave):
    return 12 * octave + PC[name[0]] + name[1:].count("#") - name[1:].count("b")


def normal_contents(notes):
    """what a note container keeps of a list of (name, octave): one note per pitch (the first), low to high"""
    seen, out = set(), []
    for n, o in notes:
        p = pitch(n, o)
        if p not in seen:
            seen.add(p)
            out.append((n, o))
    out.sort(key=lambda x: pitch(*x))
    return tuple(out)


def spell(root, semis, steps):
    """note `steps` letters and `semis` semitones above root (a name)"""
    li = (LETTERS.index(root[0]) + steps) % 7
    letter = LETTERS[li]
    want = (PC[root[0]] + root[1:].count("#") - root[1:].count("b") + semis) % 12
    acc = (want - PC[letter]) % 12
    if acc > 6:
        acc -= 12
    return letter + ("#" * acc if acc >= 0 else "b" * -acc)


CHORD_SHAPES = {"": [(4, 2), (7, 4)], "m": [(3, 2), (7, 4)], "7": [(4, 2), (7, 4), (10, 6)],
                "m7": [(3, 2), (7, 4), (10, 6)], "M7": [(4, 2), (7, 4), (11, 6)], "dim": [(3, 2), (6, 4)],
                "aug": [(4, 2), (8, 4)]}
CHORD_ROOTS = ["C", "D", "E", "F", "G", "A", "B", "Bb", "Eb", "F#", "C#", "Ab"]


def chord_contents(shorthand):
    """notes of a chord shorthand, stacked upwards from octave 4 (each tone less than an octave above the last)"""
    root = shorthand[0]
    i = 1
    while i < len(shorthand) and shorthand[i] in "#b" and not shorthand[i:].startswith("dim"):
        root += shorthand[i]
        i += 1
    names = [root] + [spell(root, s, st) for s, st in CHORD_SHAPES[shorthand[i:]]]
    out, o, last = [], 4, None
    for n in names:
        if last is not None and pitch(n, o) < last:
            o += 1
        out.append((n, o))
        last = pitch(n, o)
    return tuple(out)


def value_table():
    """(value handed to the library, exact length in whole notes, label)"""
    out = []
    for k in range(8):
        out.append((2 ** k, F(1, 2 ** k), "1/%d" % 2 ** k))
    for b in (1, 2, 4, 8, 16, 32):
        ln = F(3, 2 * b)
        out.append((float(1 / ln), ln, "dotted 1/%d" % b))
    for b in (2, 4, 8):
        ln = F(7, 4 * b)
        out.append((float(1 / ln), ln, "double-dotted 1/%d" % b))
    for b in (2, 4, 8, 16):
        out.append((b * 3 // 2, F(2, 3 * b), "triplet 1/%d" % b))
    for b in (4, 8, 16):
        out.append((b * 5 / 4.0, F(4, 5 * b), "quintuplet 1/%d" % b))
    for b in (4, 8):
        out.append((b * 7 // 4, F(4, 7 * b), "septuplet 1/%d" % b))
    out.append((0.5, F(2), "double whole"))
    return out


KEYS = ["C", "G", "D", "F", "Bb", "Eb", "A", "a", "e", "d", "f#", "c#", "Gb"]
METERS = [(4, 4), (3, 4), (2, 4), (6, 8), (2, 2), (5, 4), (7, 8), (12, 8), (3, 2), (9, 8), (1, 4), (0, 0)]
NAMES = ["C", "D", "E", "F", "G", "A", "B", "C#", "Eb", "F#", "Bb", "Ab", "G#", "Db", "Cb", "B#", "E#", "Fb",
         "F##", "Bbb"]


# ---------------------------------------------------------------------------------------------------------------
# the model
# ---------------------------------------------------------------------------------------------------------------
class MBar(object):
    def __init__(self, key, meter):
        self.key, self.meter = key, tuple(meter)
        self.L = F(meter[0], meter[1]) if meter[1] else F(0)
        self.entries = []          # [beat, value, contents, length]
        self.used = F(0)
        self.excused = False       # closed while not full by the user (add_bar) or inside a reported finding

    def full(self):
        return self.L > 0 and self.used == self.L

    def room(self, length):
        return self.L == 0 or self.used + length <= self.L

    def put(self, value, contents, length):
        self.entries.append([self.used, value, contents, length])
        self.used += length

    def heir(self):
        return MBar(self.key, self.meter)


class MTrack(object):
    def __init__(self):
        self.bars = []
        self.accepted = F(0)       # total accepted length

    def close_last_by_user(self):
        if self.bars and not self.bars[-1].full():
            self.bars[-1].excused = True

    def flat(self):
        return [e for b in self.bars for e in b.entries]


def snap(track):
    out = []
    for b in track.bars:
        ents = []
        for e in b.bar:
            c = e[2]
            ents.append((e[0], e[1], None if c is None else tuple((n.name, n.octave) for n in c.notes)))
        out.append((getattr(b.key, "key", b.key), tuple(b.meter), ents))
    return out


def value_ok(v, length, exact_value):
    if exact_value is not None:
        return v == exact_value and type(v) is type(exact_value)
    try:
        return abs(1.0 / v - float(length)) <= 1e-9
    except Exception:
        return False


def diff_state(sn, mt):
    """first difference between a library snapshot and the model: (clause, text) or None"""
    if len(sn) != len(mt.bars):
        return ("new-bar-only-when-last-one-is-full", "track has %d bars, expected %d" % (len(sn), len(mt.bars)))
    for i, ((key, meter, ents), mb) in enumerate(zip(sn, mt.bars)):
        if key != mb.key or meter != mb.meter:
            return ("new-bar-inherits-key-and-meter", "bar %d has key %r meter %r, expected %r %r"
                    % (i, key, meter, mb.key, mb.meter))
        if len(ents) != len(mb.entries):
            return ("iterating-yields-accepted-items-in-order", "bar %d holds %d entries, expected %d: %r"
                    % (i, len(ents), len(mb.entries), ents))
        for j, ((beat, v, c), (mbeat, mv, mc, ln)) in enumerate(zip(ents, mb.entries)):
            if abs(beat - float(mbeat)) > 1e-9:
                return ("iterating-yields-accepted-items-in-order", "bar %d entry %d starts at %r, expected %s"
                        % (i, j, beat, mbeat))
            if not value_ok(v, ln, mv):
                return ("iterating-yields-accepted-items-with-their-values", "bar %d entry %d has value %r, expected "
                        "%r (length %s)" % (i, j, v, mv, ln))
            if c != mc:
                return ("iterating-yields-accepted-items-with-their-contents", "bar %d entry %d holds %r, expected %r"
                        % (i, j, c, mc))
    return None


# ---------------------------------------------------------------------------------------------------------------
# driver
# ---------------------------------------------------------------------------------------------------------------
def run(tier, seed):
    import warnings
    with warnings.catch_warnings():
        warnings.simplefilter("ignore")
        from mingus.containers.note import Note
        from mingus.containers.note_container import NoteContainer
        from mingus.containers.bar import Bar
        from mingus.containers.track import Track
        from mingus.containers.composition import Composition
        from mingus.containers.instrument import Instrument, Piano, Guitar, MidiInstrument
        from mingus.containers.mt_exceptions import InstrumentRangeError

    R = Recorder("C14", tier, seed)
    for f in PROPOSED_FINDINGS:
        R.known.append(f) if f["id"] not in [k.get("id") for k in R.known] else None
    rnd = random.Random(seed)
    quick = tier == "quick"
    VALUES = value_table()
    EXACT = dict((repr(v), ln) for v, ln, _ in VALUES)
    POW2 = [(v, ln) for v, ln, lab in VALUES if lab.startswith("1/")]
    TOL = F(1, 1000)
    class section(object):
        """an unexpected exception inside a case is a failure of that case's main clause, not a driver crash"""
        def __init__(self, group, clause, where):
            self.group, self.clause, self.where = group, clause, where

        def __enter__(self):
            return self

        def __exit__(self, et, ev, tb):
            if et is not None and issubclass(et, Exception):
                import traceback
                fr = traceback.extract_tb(tb)[-1]
                R.fail(self.group, self.clause, "unexpected %s: %s (%s:%d)" % (et.__name__, ev, fr.name, fr.lineno),
                       self.where)
                return True
            return False


    # ---- items ------------------------------------------------------------------------------------------------
    def make_item(spec):
        """(library object, expected contents) for an item description"""
        kind = spec[0]
        if kind == "rest":
            return None, None
        if kind == "str":
            return spec[1], ((spec[1], 4),)
        if kind == "stro":
            return "%s-%d" % (spec[1], spec[2]), ((spec[1], spec[2]),)
        if kind == "note":
            return Note(spec[1], spec[2]), ((spec[1], spec[2]),)
        if kind == "nc":
            return NoteContainer([Note(n, o) for n, o in spec[1]]), normal_contents(spec[1])
        if kind == "lnotes":
            return [Note(n, o) for n, o in spec[1]], normal_contents(spec[1])
        if kind == "lstr":
            return ["%s-%d" % (n, o) for n, o in spec[1]], normal_contents(spec[1])
        raise ValueError(spec)

    def rand_notes(lo, hi, k):
        out = []
        for _ in range(k):
            p = rnd.randint(lo, hi)
            cands = [(n, o) for n in NAMES for o in range(0, 10) if pitch(n, o) == p]
            out.append(rnd.choice(cands))
        return out

    def rand_item(lo=36, hi=84, rests=True, kinds=None):
        kinds = kinds or ["str", "stro", "note", "nc", "lnotes", "lstr", "nc", "note"] + (["rest"] * 2 if rests else [])
        kind = rnd.choice(kinds)
        if kind == "rest":
            return ("rest",)
        if kind == "str":
            return ("str", rnd.choice([n for n in NAMES if lo <= pitch(n, 4) <= hi] or ["C"]))
        if kind in ("stro", "note"):
            n, o = rand_notes(lo, hi, 1)[0]
            return (kind, n, o)
        return (kind, rand_notes(lo, hi, rnd.randint(1, 5)))

    def inst_range(inst):
        return pitch(inst.range[0].name, inst.range[0].octave), pitch(inst.range[1].name, inst.range[1].octave)

    # ---- one add_notes / '+' step -----------------------------------------------------------------------------
    def observe_add(group, inputs, mt, value, contents, length, accepted_obs, dbars, float_refuses=False):
        """statement-required transition of the model, reconciled with what the library did; False = violation"""
        exact_value = value
        if not mt.bars:
            last, opens = None, True
            target = MBar("C", (4, 4))
        else:
            last = mt.bars[-1]
            opens = last.full()
            target = last.heir() if opens else last
        if (not opens) and last.L > 0 and last.entries and 0 < last.L - last.used < TOL and dbars == 1:
            R.fail(group, "new-bar-only-when-last-one-is-full", "a new bar was opened although %s of a whole note "
                   "was left in the last bar (is_full tolerance)" % (last.L - last.used), inputs,
                   finding="bar-full-tolerance")
            last.excused = True
            opens, target = True, last.heir()
        fits = target.room(length)
        if accepted_obs and not fits:
            # an over-full bar: not a clause of this property by itself; shows up once the bar is not the last one
            fits = True
        if fits and not accepted_obs and target.L > 0 and target.used + length == target.L and not opens \
                and float_refuses:
            R.case("float-boundary-adopted", None)      # exact fit refused after float drift: Bar's business (C13)
            return True
        if fits != accepted_obs:
            R.fail(group, "item-with-room-is-accepted", "item of length %s refused although the %s bar has %s left"
                   % (length, "new" if opens else "last", "no limit" if target.L == 0 else target.L - target.used),
                   inputs)
            return False
        want_dbars = 1 if (opens and fits) else 0
        if not fits and opens and dbars == 1:
            R.fail(group, "rejected-item-changes-nothing", "rejected item left an extra empty bar behind", inputs,
                   finding="rejected-item-opens-bar")
            mt.bars.append(target)
            return True
        if dbars != want_dbars:
            R.fail(group, "new-bar-only-when-last-one-is-full" if dbars > want_dbars else
                   "every-bar-except-the-last-is-full", "bar count changed by %d, expected %d (last bar %s)"
                   % (dbars, want_dbars, "full" if opens else "not full"), inputs)
            return False
        if fits:
            if opens:
                mt.bars.append(target)
            target.put(exact_value, contents, length)
            mt.accepted += length
        return True

    def check_invariants(group, inputs, track, mt):
        """clauses that can be read off the library state alone (exact arithmetic on the stored values)"""
        total = F(0)
        for i, b in enumerate(track.bars):
            s = F(0)
            for e in b.bar:
                ln = EXACT.get(repr(e[1]))
                if ln is None:
                    ln = (1 / F(e[1])).limit_denominator(1 << 20)
                s += ln
            total += s
            L = F(b.meter[0], b.meter[1]) if b.meter[1] else F(0)
            if i < len(track.bars) - 1 and not (L > 0 and s == L):
                if i < len(mt.bars) and mt.bars[i].excused:
                    continue
                R.fail(group, "every-bar-except-the-last-is-full", "bar %d of %d holds %s of %s"
                       % (i, len(track.bars), s, L), inputs)
                return False
        if total != mt.accepted:
            R.fail(group, "entry-lengths-sum-to-accepted-lengths", "entries sum to %s, accepted items to %s"
                   % (total, mt.accepted), inputs)
            return False
        return True

    def check_iteration(group, inputs, track, mt):
        want = [(float(e[0]), e[1], e[2]) for e in mt.flat()]
        for label, fn in (("get_notes", lambda: [(b, v, None if c is None else tuple((n.name, n.octave) for n in c))
                                                 for b, v, c in track.get_notes()]),
                          ("for bar in track: for entry in bar",
                           lambda: [(e[0], e[1], None if e[2] is None else tuple((n.name, n.octave) for n in e[2]))
                                    for bar in track for e in bar])):
            ok, got = R.guard(group, "iterating-yields-accepted-items-in-order", inputs, fn)
            if not ok:
                return False
            if len(got) != len(want) or any(abs(g[0] - w[0]) > 1e-9 or g[1] != w[1] or g[2] != w[2]
                                            for g, w in zip(got, want)):
                R.fail(group, "iterating-yields-accepted-items-in-order", "%s yields %r, expected %r"
                       % (label, got[:6], want[:6]), inputs)
                return False
        return True

    def full_check(group, inputs, track, mt):
        d = diff_state(snap(track), mt)
        if d:
            R.fail(group, d[0], d[1], inputs)
            return False
        return check_invariants(group, inputs, track, mt) and check_iteration(group, inputs, track, mt)

    def do_add(group, inputs, track, mt, spec, value, length, via):
        """one add_notes / '+' call on the library and the model.  False -> stop this sequence"""
        obj, contents = make_item(spec)
        inst = track.instrument
        before = snap(track)
        nb, ne = len(track.bars), sum(len(b) for b in track.bars)
        # does the float sum of the stored position and this value overshoot the bar (data of the last bar only;
        # used to tell float drift at an exact fit, which is Bar's business, from a refusal without cause)
        float_refuses = bool(track.bars) and track.bars[-1].length != 0.0 and \
            not (track.bars[-1].current_beat + 1.0 / value <= track.bars[-1].length)
        expect_exc = None
        if inst is not None and contents is not None:
            lo, hi = inst_range(inst)
            if any(not (lo <= pitch(n, o) <= hi) for n, o in contents):
                expect_exc = InstrumentRangeError
        try:
            if via == "+":
                ret = track + obj
            elif via == "add_notes-default":
                ret = track.add_notes(obj)
            else:
                ret = track.add_notes(obj, value)
            exc = None
        except Exception as e:  # noqa
            ret, exc = None, e
        if exc is not None:
            unchanged = snap(track) == before
            if expect_exc is not None and isinstance(exc, expect_exc):
                if not unchanged:
                    R.fail(group, "out-of-range-note-refused-with-range-error", "refused item changed the track",
                           inputs)
                    return False
                return True
            if contents is None and inst is not None and type(exc).__name__ in ("UnexpectedObjectError", "TypeError"):
                R.fail(group, "rests-accepted-with-or-without-instrument", "rest raised %s: %s"
                       % (type(exc).__name__, exc), inputs, finding="rest-with-instrument-raises")
                return unchanged
            if isinstance(inst, Guitar) and (
                    (spec[0] == "note" and isinstance(exc, TypeError)) or
                    (expect_exc is None and spec[0] in ("str", "stro") and len(obj) > 6
                     and isinstance(exc, InstrumentRangeError))):
                R.fail(group, "in-range-note-accepted" if expect_exc is None else
                       "out-of-range-note-refused-with-range-error",
                       "%r raised %s: %s" % (obj, type(exc).__name__, exc), inputs, finding="guitar-len-on-non-list")
                return unchanged
            R.fail(group, "in-range-note-accepted" if inst is not None and expect_exc is None else
                   "out-of-range-note-refused-with-range-error" if expect_exc else "iterating-yields-accepted-items-in-order",
                   "unexpected %s: %s" % (type(exc).__name__, exc), inputs)
            return False
        if expect_exc is not None:
            R.fail(group, "out-of-range-note-refused-with-range-error", "out-of-range item %r was not refused "
                   "(returned %r)" % (obj, ret), inputs)
            return False
        dbars = len(track.bars) - nb
        dents = sum(len(b) for b in track.bars) - ne
        if ret is not True and ret is not False:
            R.fail(group, "rejected-item-changes-nothing", "returned %r, expected True/False" % (ret,), inputs)
            return False
        if dents != (1 if ret else 0):
            R.fail(group, "rejected-item-changes-nothing" if not ret else "iterating-yields-accepted-items-in-order",
                   "reported %r but the number of entries changed by %d" % (ret, dents), inputs)
            return False
        if not ret:
            after = snap(track)
            if after[:nb] != before:
                R.fail(group, "rejected-item-changes-nothing", "rejected item altered the existing bars", inputs)
                return False
        return observe_add(group, inputs, mt, value, contents, length, ret, dbars, float_refuses)

    def do_add_bar(track, mt, key, meter, prefill, via):
        b = Bar(key, meter)
        mb = MBar(key, meter)
        for spec, v, ln in prefill:
            obj, contents = make_item(spec)
            if mb.room(ln) and b.place_notes(obj, v):
                mb.put(v, contents, ln)
                mt.accepted += ln
        mt.close_last_by_user()
        ret = (track + b) if via == "+" else track.add_bar(b)
        mt.bars.append(mb)
        return ret is track

    INSTRUMENTS = [("none", lambda: None), ("generic", Instrument), ("piano", Piano), ("guitar", Guitar),
                   ("midi", MidiInstrument)]

    def custom_instrument():
        i = Instrument()
        lo = rnd.randint(12, 60)
        hi = lo + rnd.randint(5, 40)
        i.set_range((Note().from_int(lo), Note().from_int(hi)))
        return i

    # =========================================================================================================
    # 1. bounded-exhaustive value sequences (every prefix is itself enumerated, so the state is compared at the
    #    end of each sequence; return value / bar count / entry count are checked at every step)
    # =========================================================================================================
    G = "Track.add_notes (exhaustive value sequences)"
    alpha = [(1, F(1)), (2, F(1, 2)), (4, F(1, 4)), (8, F(1, 8)), (float(1 / F(3, 8)), F(3, 8)), (6, F(1, 6))]
    maxlen = 5 if quick else 6
    ex_meters = [(4, 4), (3, 4), (6, 8)] if quick else [(4, 4), (3, 4), (6, 8), (2, 2), (5, 4), (7, 8), (2, 4)]
    kinds_cycle = [("str", "C"), ("rest",), ("nc", [("C", 4), ("E", 4), ("G", 4)]), ("note", "F#", 5),
                   ("lstr", [("A", 3), ("C", 4)])]
    sid = 0
    for meter in ex_meters:
        with section(G, 'iterating-yields-accepted-items-in-order', ("meter", meter)):
            for n in range(1, maxlen + 1):
                for seq in itertools.product(range(len(alpha)), repeat=n):
                    sid += 1
                    inputs = {"meter": meter, "values": [alpha[i][0] for i in seq], "items": "cycle from %d" % (sid % 5)}
                    track, mt = Track(), MTrack()
                    if meter != (4, 4):
                        do_add_bar(track, mt, "G", meter, [], "add_bar")
                    ok = True
                    for pos, i in enumerate(seq):
                        R.case(G, (meter, seq[:pos + 1]))
                        v, ln = alpha[i]
                        if not do_add(G, inputs, track, mt, kinds_cycle[(sid + pos) % 5], v, ln, "add_notes"):
                            ok = False
                            break
                    if ok:
                        full_check(G, inputs, track, mt)

    # =========================================================================================================
    # 2. seeded sequences with everything: values incl. dotted / tuplets, rests, all item forms, '+', add_bar with
    #    other keys / meters (also pre-filled, also on a non-full last bar), instruments, out-of-range notes
    # =========================================================================================================
    G = "Track add_notes/+/add_bar (seeded sequences)"
    nseq = 700 if quick else 14000
    for s in range(nseq):
        with section(G, 'iterating-yields-accepted-items-in-order', ("seed", seed, "sequence", s)):
            iname, mk = rnd.choice(INSTRUMENTS)
            inst = custom_instrument() if (iname == "generic" and rnd.random() < 0.5) else mk()
            track, mt = Track(inst), MTrack()
            if inst is None:
                lo, hi = 0, 119
            else:
                lo, hi = inst_range(inst)
            ops = []
            inputs = {"instrument": repr(inst), "ops": ops}
            vals = VALUES if rnd.random() < 0.7 else POW2
            for step in range(rnd.randint(4, 40)):
                r = rnd.random()
                R.case(G, (s, step))
                if r < 0.08:
                    key, meter = rnd.choice(KEYS), rnd.choice(METERS)
                    pre = []
                    for _ in range(rnd.choice([0, 0, 1, 3])):
                        v, ln = rnd.choice(vals)[:2]
                        pre.append((rand_item(24, 96), v, ln))
                    via = rnd.choice(["add_bar", "+"])
                    ops.append(("add_bar", key, meter, pre, via))
                    if not do_add_bar(track, mt, key, meter, pre, via):
                        R.fail(G, "indexing-length-equality-follow-contents", "add_bar / '+' did not return the track",
                               inputs)
                        break
                else:
                    out_of_range = inst is not None and rnd.random() < 0.12
                    if out_of_range:
                        side = rnd.choice(["low", "high"])
                        if (side == "low" and lo > 0) or hi >= 119:
                            if lo == 0:
                                continue
                            p = rnd.randint(max(0, lo - 14), lo - 1)
                        else:
                            p = rnd.randint(hi + 1, min(hi + 14, 119))
                        cands = [(n, o) for n in NAMES for o in range(0, 10) if pitch(n, o) == p]
                        bad = rnd.choice(cands)
                        kind = rnd.choice(["stro", "note", "nc", "lnotes", "lstr"])
                        if kind in ("stro", "note"):
                            spec = (kind, bad[0], bad[1])
                        else:
                            good = rand_notes(lo, hi, rnd.randint(0, 3))
                            allnotes = good + [bad]
                            rnd.shuffle(allnotes)
                            spec = (kind, allnotes)
                    else:
                        spec = rand_item(lo, hi)
                    via = rnd.choice(["add_notes"] * 4 + ["+", "add_notes-default"])
                    if spec[0] in ("rest", "lnotes", "lstr") and via == "+":
                        via = "add_notes"
                    if via == "add_notes":
                        v, ln = rnd.choice(vals)[:2]
                    else:
                        v, ln = 4, F(1, 4)
                    ops.append((via, spec, v))
                    if not do_add(G, inputs, track, mt, spec, v, ln, via):
                        break
                if not full_check(G, inputs, track, mt):
                    break
            else:
                # Track.test_integrity reports exactly "every bar except the last is full"
                want = all(b.full() for b in mt.bars[:-1])
                ok, got = R.guard("Track.test_integrity", "every-bar-except-the-last-is-full", inputs, track.test_integrity)
                R.case("Track.test_integrity", s)
                if ok and got != want:
                    tolerant = any((not b.full()) and b.L > 0 and b.entries and 0 < b.L - b.used < TOL for b in mt.bars[:-1])
                    R.fail("Track.test_integrity", "every-bar-except-the-last-is-full", "test_integrity() is %r, bars "
                           "hold %r" % (got, [(str(b.used), str(b.L)) for b in mt.bars]), inputs,
                           finding="bar-full-tolerance" if tolerant else None)
                # indexing and length follow the bars
                R.case("Track indexing/len", s)
                if len(track) != len(mt.bars):
                    R.fail("Track indexing/len", "indexing-length-equality-follow-contents", "len(track) = %d, %d bars"
                           % (len(track), len(mt.bars)), inputs)
                for i in range(len(mt.bars)):
                    ok, b = R.guard("Track indexing/len", "indexing-length-equality-follow-contents", inputs,
                                    lambda: (track[i], track[i - len(mt.bars)]))
                    if ok and not (b[0] is b[1] and len(b[0]) == len(mt.bars[i].entries)
                                   and tuple(b[0].meter) == mt.bars[i].meter):
                        R.fail("Track indexing/len", "indexing-length-equality-follow-contents",
                               "track[%d] is not bar %d" % (i, i), inputs)

    # =========================================================================================================
    # 3. instruments: every instrument x every pitch around its range x item form; rests
    # =========================================================================================================
    G = "Track.add_notes with instrument (range sweep)"
    for iname, mk in INSTRUMENTS[1:] + [("custom", custom_instrument)]:
        with section(G, 'in-range-note-accepted', ("instrument", iname)):
            inst0 = mk()
            lo, hi = inst_range(inst0)
            pitches = list(range(max(0, lo - 13), lo + 3)) + list(range(hi - 2, hi + 14)) + \
                ([lo + (hi - lo) // 2] if quick else list(range(lo + 3, hi - 2, 5)))
            for p in pitches:
                for n, o in [(n, o) for n in NAMES[:16] for o in range(0, 11) if pitch(n, o) == p]:
                    for kind in ("stro", "note", "nc", "lnotes", "lstr"):
                        track, mt = Track(inst0), MTrack()
                        spec = (kind, n, o) if kind in ("stro", "note") else (kind, [(n, o)])
                        inputs = {"instrument": repr(inst0), "item": spec}
                        R.case(G, (iname, n, o, kind))
                        if do_add(G, inputs, track, mt, spec, 4, F(1, 4), "add_notes"):
                            full_check(G, inputs, track, mt)
            # long spellings of in-range notes (text of more than six characters)
            for spec in (("stro", "Abbbb", 5), ("stro", "C####", 4), ("str", "Fbbbbbb"), ("stro", "Bbbbbb", 4),
                         ("note", "Abbbb", 5), ("lstr", [("Abbbb", 5)])):
                names_octs = [(spec[1], spec[2] if len(spec) > 2 else 4)] if spec[0] != "lstr" else spec[1]
                if not all(lo <= pitch(n, o) <= hi for n, o in names_octs):
                    continue
                track, mt = Track(inst0), MTrack()
                inputs = {"instrument": repr(inst0), "item": spec}
                R.case(G, (iname, "long", repr(spec)))
                if do_add(G, inputs, track, mt, spec, 4, F(1, 4), "add_notes"):
                    full_check(G, inputs, track, mt)
            # a chord with one note outside, the others inside
            for _ in range(20 if quick else 200):
                good = rand_notes(lo, hi, rnd.randint(1, 4))
                p = rnd.choice([q for q in (lo - 1, lo - 7, hi + 1, hi + 9) if 0 <= q <= 119] or [hi + 1])
                bad = rnd.choice([(n, o) for n in NAMES for o in range(0, 11) if pitch(n, o) == p])
                notes = good + [bad]
                rnd.shuffle(notes)
                kind = rnd.choice(["nc", "lnotes", "lstr"])
                track, mt = Track(inst0), MTrack()
                inputs = {"instrument": repr(inst0), "item": (kind, notes)}
                R.case(G, (iname, "chord", tuple(notes), kind))
                do_add(G, inputs, track, mt, ("nc", good), 4, F(1, 4), "add_notes")
                if do_add(G, inputs, track, mt, (kind, notes), 4, F(1, 4), "add_notes"):
                    full_check(G, inputs, track, mt)
    G = "Track.add_notes rest (every instrument)"
    for iname, mk in INSTRUMENTS + [("custom", custom_instrument)]:
        with section(G, 'rests-accepted-with-or-without-instrument', ("instrument", iname)):
            for v, ln, lab in VALUES:
                inst = mk()
                track, mt = Track(inst), MTrack()
                inputs = {"instrument": repr(inst), "value": v}
                R.case(G, (iname, v))
                ok = do_add(G, inputs, track, mt, ("rest",), v, ln, "add_notes")
                if ok:
                    full_check(G, inputs, track, mt)

    # =========================================================================================================
    # 4. values beyond 1000: the is_full tolerance
    # =========================================================================================================
    G = "Track.add_notes (values up to 4096)"
    big = [(2 ** k, F(1, 2 ** k)) for k in range(0, 13)]
    for s in range(60 if quick else 1200):
        with section(G, 'new-bar-only-when-last-one-is-full', ("seed", seed, "sequence", s)):
            track, mt = Track(), MTrack()
            meter = rnd.choice([(4, 4), (3, 4), (2, 4), (6, 8)])
            do_add_bar(track, mt, "C", meter, [], "add_bar")
            ops = []
            inputs = {"meter": meter, "values": ops}
            # fill up to one tiny value short of the bar, then go on
            Lm = F(meter[0], meter[1])
            tiny = rnd.choice(big[8:])
            target = Lm - tiny[1]
            for v, ln in big:
                while mt.bars[-1].used + ln <= target and not mt.bars[-1].full() and len(ops) < 200:
                    ops.append(v)
                    R.case(G, (s, len(ops)))
                    if not do_add(G, inputs, track, mt, ("str", "C"), v, ln, "add_notes"):
                        break
            for _ in range(6):
                v, ln = rnd.choice(big[6:])
                ops.append(v)
                R.case(G, (s, len(ops)))
                if not do_add(G, inputs, track, mt, ("str", "D"), v, ln, "add_notes"):
                    break
                if not full_check(G, inputs, track, mt):
                    break

    # =========================================================================================================
    # 5. from_chords
    # =========================================================================================================
    G = "Track.from_chords"
    chord_names = [r + q for r in CHORD_ROOTS for q in CHORD_SHAPES]

    def rand_chords(depth, allow_nested_rest):
        out = []
        for _ in range(rnd.randint(1, 4 if depth else 6)):
            r = rnd.random()
            if r < 0.2 and depth < 3:
                out.append(rand_chords(depth + 1, allow_nested_rest))
            elif r < 0.38 and (depth == 0 or allow_nested_rest):
                out.append(None)
            else:
                out.append(rnd.choice(chord_names))
        return out

    def flatten(chords, value, length, depth=0):
        for c in chords:
            if isinstance(c, list):
                for x in flatten(c, value * 2, length / 2, depth + 1):
                    yield x
            else:
                yield (c, value, length, depth)

    def model_from_chords(mt, req):
        """statement: every item in order, whole when it fits, otherwise split at the bar line(s)"""
        for c, value, length, depth in req:
            contents = None if c is None else chord_contents(c)
            left, first = length, True
            while left > 0:
                if not mt.bars:
                    mt.bars.append(MBar("C", (4, 4)))
                if mt.bars[-1].full():
                    mt.bars.append(mt.bars[-1].heir())
                b = mt.bars[-1]
                piece = left if b.L == 0 else min(left, b.L - b.used)
                if piece <= 0:      # an over-full or excused bar cannot take anything: open the next one
                    mt.bars.append(b.heir())
                    continue
                b.put(value if (first and piece == left) else None, contents, piece)
                mt.accepted += piece
                left -= piece
                first = False

    def find_region(track, mt, req, inst):
        """which reported finding (if any) the first deviating item of this from_chords call falls into.  `fb` mirrors
        the float bookkeeping of the library bars (length, current_beat, entries) so that a disagreement between
        float and exact arithmetic can be told apart from a different defect; it only labels, it is no oracle."""
        fb = [[b.length, b.current_beat, len(b.bar)] for b in track.bars]
        probe = MTrack()
        probe.bars = [_copy_bar(b) for b in mt.bars]

        def f_add(v):
            if not fb:
                fb.append([1.0, 0.0, 0])
            lb = fb[-1]
            if lb[0] != 0.0 and lb[2] > 0 and lb[1] >= lb[0] - 0.001:
                fb.append([lb[0], 0.0, 0])
            b = fb[-1]
            if b[1] + 1.0 / v <= b[0] + 1e-9 or b[0] == 0.0:      # Bar.place_notes' acceptance test
                b[1] += 1.0 / v
                b[2] += 1
                return True
            return False

        for c, value, length, depth in req:
            if c is None and depth > 0:
                return "from-chords-nested-rest-raises"
            if not probe.bars:
                probe.bars.append(MBar("C", (4, 4)))
            lastb = probe.bars[-1]
            if lastb.L > 0 and not lastb.full() and lastb.entries and 0 < lastb.L - lastb.used < TOL:
                return "bar-full-tolerance"
            start_room = lastb.L if lastb.full() else (lastb.L - lastb.used)
            fits = lastb.L == 0 or length <= start_room
            if f_add(value) != fits:
                return "from-chords-float-drift"
            if not fits:
                b = fb[-1]
                dur = 1.0 / (b[0] - b[1])
                if not f_add(dur):          # the piece that should fill the bar overshoots it in floats
                    return "from-chords-float-drift"
                if c is None:
                    return "from-chords-rest-not-split"
                if length > start_room + lastb.L:
                    return "from-chords-item-longer-than-bar"
                if not f_add(1 / (1.0 / value - 1.0 / dur)):
                    return "from-chords-float-drift"
            model_from_chords(probe, [(c, value, length, depth)])
        return None

    def from_chords_case(s, exhaustive_spec=None):
        if exhaustive_spec is None:
            iname, mk = rnd.choice(INSTRUMENTS[:1] * 3 + INSTRUMENTS)
            inst = mk()
            track, mt = Track(inst), MTrack()
            ops = []
            pre_vals = POW2[:6] if rnd.random() < 0.6 else VALUES
            if rnd.random() < 0.5:
                key, meter = rnd.choice(KEYS), rnd.choice(METERS[:-1] if rnd.random() < 0.9 else METERS)
                do_add_bar(track, mt, key, meter, [], "add_bar")
                ops.append(("add_bar", key, meter))
            for _ in range(rnd.choice([0, 0, 1, 2, 3, 5])):
                v, ln = rnd.choice(pre_vals)[:2]
                spec = rand_item(48, 72, rests=inst is None, kinds=["str", "note", "nc", "rest"] if inst is None
                                 else ["str", "stro", "nc"])
                ops.append(("add_notes", spec, v))
                if not do_add(G, {"ops": ops}, track, mt, spec, v, ln, "add_notes"):
                    return
            chords = rand_chords(0, rnd.random() < 0.15)
            dur = rnd.choice([1, 1, 2, 2, 4, 8, 0.5] if rnd.random() < 0.85 else [float(1 / F(3, 4)), 3, 1, 2])
        else:
            inst = None
            track, mt = Track(), MTrack()
            meter, prefix, chords, dur = exhaustive_spec
            ops = [("add_bar", "C", meter)] + [("add_notes", ("str", "E"), v) for v in prefix]
            if meter != (4, 4):
                do_add_bar(track, mt, "C", meter, [], "add_bar")
            for v in prefix:
                if not do_add(G, {"ops": ops}, track, mt, ("str", "E"), v, F(1, v), "add_notes"):
                    return
        inputs = {"instrument": repr(inst), "before": ops, "chords": chords, "duration": dur}
        base_len = (1 / F(dur)).limit_denominator(64)
        req = list(flatten(chords, dur, base_len))
        nbefore = len(mt.flat())
        # region of the reported findings this call falls into (decided before the call)
        try:
            region = find_region(track, mt, req, inst)
        except Exception:  # noqa
            region = None
        model_from_chords(mt, req)
        try:
            ret = track.from_chords(chords, dur)
            exc = None
        except Exception as e:  # noqa
            ret, exc = None, e
        clause_by_region = {"from-chords-nested-rest-raises": "from-chords-places-every-chord-and-rest",
                            "rest-with-instrument-raises": "rests-accepted-with-or-without-instrument",
                            "from-chords-rest-not-split": "from-chords-places-every-chord-and-rest",
                            "from-chords-item-longer-than-bar": "from-chords-total-length-equals-requested",
                            "from-chords-float-drift": "from-chords-total-length-equals-requested",
                            "bar-full-tolerance": "new-bar-only-when-last-one-is-full"}
        if exc is not None:
            # an exception ends the call wherever it is raised: label it by the item that raises it
            region = None
            if type(exc).__name__ in ("UnexpectedObjectError", "TypeError") and inst is not None and \
                    any(c is None and depth == 0 for c, _, _, depth in req):
                region = "rest-with-instrument-raises"
            elif isinstance(exc, AttributeError) and any(c is None and depth > 0 for c, _, _, depth in req):
                region = "from-chords-nested-rest-raises"
            R.fail(G, clause_by_region.get(region, "from-chords-places-every-chord-and-rest"),
                   "raised %s: %s" % (type(exc).__name__, exc), inputs, finding=region)
            return
        if ret is not track:
            R.fail(G, "from-chords-places-every-chord-and-rest", "from_chords did not return the track", inputs)
        sn = snap(track)
        d = diff_state(sn, mt)
        if d is None:
            check_invariants(G, inputs, track, mt)
            check_iteration_fc(inputs, track, mt)
            return
        # name the clause from the statement's point of view
        got = [(v, c) for (_, _, ents) in sn for (_, v, c) in ents][nbefore:]
        got_total = sum(((1 / F(v)).limit_denominator(1 << 20) for v, c in got), F(0))
        want_total = sum((length for _, _, length, _ in req), F(0))
        got_seq = [k for k, _ in itertools.groupby([c for v, c in got])]
        want_seq = [k for k, _ in itertools.groupby([None if c is None else chord_contents(c) for c, _, _, _ in req])]
        if got_seq != want_seq:
            clause = "from-chords-places-every-chord-and-rest"
        elif got_total != want_total:
            clause = "from-chords-total-length-equals-requested"
        else:
            clause = "from-chords-splits-at-the-bar-line"
        R.fail(G, clause_by_region.get(region, clause) if region else clause,
               "%s (placed %s of %s whole notes)" % (d[1], got_total, want_total), inputs, finding=region)

    def check_iteration_fc(inputs, track, mt):
        want = [(float(e[0]), e[2]) for e in mt.flat()]
        got = [(b, None if c is None else tuple((n.name, n.octave) for n in c)) for b, v, c in track.get_notes()]
        if len(got) != len(want) or any(abs(g[0] - w[0]) > 1e-9 or g[1] != w[1] for g, w in zip(got, want)):
            R.fail(G, "from-chords-places-every-chord-and-rest", "get_notes yields %r, expected %r"
                   % (got[:6], want[:6]), inputs)

    def _copy_bar(b):
        nb = MBar(b.key, b.meter)
        nb.entries = [list(e) for e in b.entries]
        nb.used = b.used
        nb.excused = b.excused
        return nb

    # 5a. bounded-exhaustive: meters x prefixes of power-of-two values x chord lists of <= 3 items over
    #     {chord, rest, [chord, chord]} x durations
    fc_items = ["C", None, ["Am", "Dm"], "G7"]
    fc_meters = [(4, 4), (3, 4), (6, 8)] if quick else [(4, 4), (3, 4), (6, 8), (2, 4), (5, 4), (7, 8), (1, 4)]
    prefixes = [(), (2,), (4,), (8,), (2, 4), (4, 8), (2, 4, 8), (16,)] if quick else \
        [()] + [p for n in (1, 2, 3) for p in itertools.product((2, 4, 8, 16), repeat=n)]
    prefixes = list(prefixes) + [(32,), (64,), (32, 64), (16, 32, 64), (32, 128), (8, 32, 128)]   # odd positions
    if (7, 8) not in fc_meters:
        fc_meters = fc_meters + [(7, 8)]
    durs = (1, 2, 4) if quick else (0.5, 1, 2, 4, 8)
    k = 0
    for meter in fc_meters:
        with section(G, 'from-chords-places-every-chord-and-rest', ("meter", meter)):
            for prefix in prefixes:
                if sum(F(1, v) for v in prefix) > F(meter[0], meter[1]):
                    continue
                for n in (1, 2, 3) if not quick else (1, 2):
                    for ch in itertools.product(range(len(fc_items)), repeat=n):
                        for dur in durs:
                            k += 1
                            R.case(G, ("ex", meter, prefix, ch, dur))
                            from_chords_case(k, (meter, prefix, [fc_items[i] for i in ch], dur))
    # 5c. history: a track built from a chord list, then edited by its owner (transposed, first chord thickened), must
    #     not change what a LATER from_chords call places -- on a new track or on the same one
    H = "Track.from_chords after an earlier track was edited"
    for ci, chords_h in enumerate((["C", ["Am", "F"], None, "G7"], ["Dm"], ["C", "C", "C", "C"], [["Em", "Am"], "D7"])):
        for dur in (1, 2, 4):
            with section(H, 'from-chords-places-every-chord-and-rest', ("history", ci, dur)):
                R.case(H, ("history", ci, dur))
                inputs = {"first": chords_h, "duration": dur}
                t1 = Track().from_chords(chords_h, dur)
                t1.transpose("3")
                for b in t1:
                    for e in b:
                        if e[2] is not None:
                            e[2].add_note("B-5")
                            break
                    break
                base_len = (1 / F(dur)).limit_denominator(64)
                for label, tr in (("new track", Track()), ("the edited track", t1)):
                    mt = MTrack()
                    if tr is t1:
                        # what the edited track holds now is read back from it; only what is ADDED is judged
                        before = snap(tr)
                        nb = sum(len(ents) for (_, _, ents) in before)
                    else:
                        nb = 0
                    req = list(flatten(chords_h, dur, base_len))
                    tr2 = Track() if tr is not t1 else tr
                    tr2.from_chords(chords_h, dur)
                    got = [(v, c) for (_, _, ents) in snap(tr2) for (_, v, c) in ents][nb:]
                    want_c = [None if c is None else chord_contents(c) for c, _, _, _ in req]
                    got_c = [k for k, _ in itertools.groupby([c for v, c in got])]
                    want_g = [k for k, _ in itertools.groupby(want_c)]
                    if got_c != want_g:
                        R.fail(H, "from-chords-places-every-chord-and-rest",
                               "%s holds %r after from_chords, the chord list asks for %r" % (label, got_c[:6], want_g[:6]),
                               dict(inputs, target=label))
    # 5b. seeded: nested lists to depth 3, all chord qualities, instruments, mixed prefixes, other meters
    for s in range(1200 if quick else 24000):
        with section(G, 'from-chords-places-every-chord-and-rest', ("seed", seed, "case", s)):
            R.case(G, ("rnd", s))
            from_chords_case(s)

    # =========================================================================================================
    # 6. equality of tracks
    # =========================================================================================================
    G = "Track.__eq__"

    def build(ops):
        track, mt = Track(), MTrack()
        for spec, v, ln in ops:
            if not do_add(G, {"ops": ops}, track, mt, spec, v, ln, "add_notes"):
                return None, None
        return track, mt

    def eq_key(mt):
        return [[(e[0], e[3], None if e[2] is None else frozenset(pitch(n, o) for n, o in e[2])) for e in b.entries]
                for b in mt.bars]

    for s in range(500 if quick else 8000):
        with section(G, 'equality-follows-contents', ("seed", seed, "pair", s)):
            ops = []
            for _ in range(rnd.randint(1, 10)):
                v, ln = rnd.choice(POW2[:5] if rnd.random() < 0.7 else VALUES[:17])[:2]
                ops.append((rand_item(40, 80, kinds=["str", "note", "nc", "rest", "lstr"]), v, ln))
            ops2 = list(ops)
            how = rnd.choice(["same", "same", "pitch", "value", "drop", "rest-swap", "append", "octave", "octave"])
            i = rnd.randrange(len(ops))
            if how == "octave":
                # the same names one octave away (a melody and its doubling): equal names are not equal contents
                cand = [k for k, o in enumerate(ops) if o[0][0] in ("note", "stro", "nc", "lnotes")]
                if cand:
                    i = rnd.choice(cand)
                    it = ops[i][0]
                    d = rnd.choice([-1, 1])
                    if it[0] in ("note", "stro"):
                        ops2[i] = ((it[0], it[1], max(0, it[2] + d)), ops[i][1], ops[i][2])
                    else:
                        ops2[i] = ((it[0], [(n, max(0, o + d)) for n, o in it[1]]), ops[i][1], ops[i][2])
                else:
                    how = "same"
            elif how == "pitch":
                ops2[i] = (rand_item(40, 80, rests=False, kinds=["note", "nc"]), ops[i][1], ops[i][2])
            elif how == "value":
                v, ln = rnd.choice(POW2[:6])
                ops2[i] = (ops[i][0], v, ln)
            elif how == "drop":
                del ops2[i]
            elif how == "rest-swap":
                ops2[i] = (("rest",) if ops[i][0][0] != "rest" else ("note", "C", 4), ops[i][1], ops[i][2])
            elif how == "append":
                ops2.append((("str", "D"), 4, F(1, 4)))
            a, ma = build(ops)
            b, mb = build(ops2)
            if a is None or b is None:
                continue
            R.case(G, (s, how))
            inputs = {"ops_a": ops, "ops_b": ops2}
            want = eq_key(ma) == eq_key(mb)
            rest_vs_notes = any((x[2] is None) != (y[2] is None) for p, q in zip(eq_key(ma), eq_key(mb))
                                for x, y in zip(p, q))
            for label, fn, w in (("==", lambda: a == b, want), ("!=", lambda: a != b, not want),
                                 ("== (swapped)", lambda: b == a, want)):
                try:
                    got = fn()
                except Exception as e:  # noqa
                    R.fail(G, "equality-follows-contents", "%s raised %s: %s" % (label, type(e).__name__, e), inputs,
                           finding="track-eq-rest-vs-notes-raises" if (isinstance(e, TypeError) and rest_vs_notes
                                                                       and not want) else None)
                    continue
                if bool(got) != w:
                    R.fail(G, "equality-follows-contents", "a %s b is %r, expected %r" % (label, got, w), inputs)

    # =========================================================================================================
    # 7. compositions
    # =========================================================================================================
    G = "Composition add_track/add_note/+"
    for s in range(300 if quick else 6000):
        with section(G, 'add-reaches-exactly-the-selected-tracks', ("seed", seed, "sequence", s)):
            comp = Composition()
            tracks, models = [], []
            selected = []
            ops = []
            inputs = {"ops": ops}
            alive = True
            if len(comp) != 0:
                R.fail(G, "indexing-length-equality-follow-contents", "new composition has length %d" % len(comp), inputs)
            for step in range(rnd.randint(2, 25)):
                R.case(G, (s, step))
                r = rnd.random()
                if r < 0.25 or not tracks:
                    t, m = Track(), MTrack()
                    for _ in range(rnd.choice([0, 0, 1, 3])):
                        v, ln = rnd.choice(POW2[:5])
                        do_add(G, inputs, t, m, rand_item(40, 80), v, ln, "add_notes")
                    via = rnd.choice(["add_track", "+"])
                    ops.append((via, "track with %d entries" % len(m.flat())))
                    if via == "+":
                        comp + t
                    else:
                        comp.add_track(t)
                    tracks.append(t)
                    models.append(m)
                    selected = [len(tracks) - 1]
                    if list(comp.selected_tracks) != selected:
                        R.fail(G, "add-reaches-exactly-the-selected-tracks", "after adding track %d the selection is %r"
                               % (len(tracks) - 1, comp.selected_tracks), inputs)
                        alive = False
                elif r < 0.45:
                    selected = sorted(rnd.sample(range(len(tracks)), rnd.randint(0, len(tracks))))
                    comp.selected_tracks = list(selected)
                    ops.append(("select", selected))
                elif r < 0.5 and len(selected) == 1:
                    key, meter = rnd.choice(KEYS), rnd.choice(METERS[:8])
                    b = Bar(key, meter)
                    ops.append(("+bar", key, meter))
                    models[selected[0]].close_last_by_user()
                    comp + b
                    models[selected[0]].bars.append(MBar(key, meter))
                else:
                    spec = rand_item(40, 80, rests=False, kinds=["str", "stro", "note", "nc"])
                    via = rnd.choice(["add_note", "+"])
                    ops.append((via, spec))
                    obj, contents = make_item(spec)
                    before = [(len(t.bars), sum(len(b) for b in t.bars)) for t in tracks]
                    ok, _ = R.guard(G, "add-reaches-exactly-the-selected-tracks", inputs,
                                    (lambda: comp + obj) if via == "+" else (lambda: comp.add_note(obj)))
                    if not ok:
                        alive = False
                    for i, t in enumerate(tracks):
                        dbars = len(t.bars) - before[i][0]
                        dents = sum(len(b) for b in t.bars) - before[i][1]
                        if i in selected:
                            if dents not in (0, 1) or not observe_add(G, inputs, models[i], 4, contents, F(1, 4),
                                                                      dents == 1, dbars):
                                alive = False
                        elif dbars or dents:
                            R.fail(G, "add-reaches-exactly-the-selected-tracks", "track %d is not selected (%r) but "
                                   "changed" % (i, selected), inputs)
                            alive = False
                if not alive:
                    break
                # indexing, length, contents of every track
                if len(comp) != len(tracks):
                    R.fail(G, "indexing-length-equality-follow-contents", "len(composition) = %d with %d tracks"
                           % (len(comp), len(tracks)), inputs)
                    break
                bad = False
                for i, t in enumerate(tracks):
                    if comp[i] is not t or comp[i - len(tracks)] is not t:
                        R.fail(G, "indexing-length-equality-follow-contents", "composition[%d] is not track %d" % (i, i),
                               inputs)
                        bad = True
                        break
                    d = diff_state(snap(t), models[i])
                    if d:
                        R.fail(G, "add-reaches-exactly-the-selected-tracks", "track %d (selection %r): %s"
                               % (i, selected, d[1]), inputs)
                        bad = True
                        break
                if bad:
                    break
            else:
                # replacing a track by index; equality with an identically built composition
                if tracks:
                    i = rnd.randrange(len(tracks))
                    nt = Track()
                    nt.add_notes("G", 2)
                    comp[i] = nt
                    if comp[i] is not nt or len(comp) != len(tracks):
                        R.fail(G, "indexing-length-equality-follow-contents", "composition[%d] = track did not store it"
                               % i, inputs)
                    comp[i] = tracks[i]
                R.case("Composition.__eq__", s)
                other = Composition()
                for t in tracks:
                    other.add_track(t)
                third = Composition()
                for t in tracks:
                    third.add_track(t)
                extra = Track()
                extra.add_notes("C", 4)
                third.add_track(extra)
                for label, fn, w in (("same tracks ==", lambda: comp == other, True),
                                     ("same tracks !=", lambda: comp != other, False),
                                     ("itself ==", lambda: comp == comp, True),
                                     ("one more track ==", lambda: comp == third, False)):
                    ok, got = R.guard("Composition.__eq__", "equality-follows-contents", inputs, fn)
                    if ok and bool(got) != w:
                        R.fail("Composition.__eq__", "equality-follows-contents", "%s is %r, expected %r" % (label, got, w),
                               inputs, finding="composition-eq-is-identity" if label.startswith("same tracks") else None)

    R.assumptions.append("whether an item fits is Bar.place_notes' float comparison (C13): an exact fit refused after "
                         "float drift is adopted from the library, not judged here (group float-boundary-adopted "
                         "counts them); an item that fits with room to spare must be accepted")
    R.assumptions.append("bars handed to add_bar while the last bar is not full are the caller's doing and are excused "
                         "from 'every bar except the last is full'")
    R.assumptions.append("tracks without a tuning (from_chords does not re-finger chords); chord lists use 7 chord "
                         "qualities on 12 roots spelled by the driver's own speller; Guitar chords have <= 6 notes")
    R.assumptions.append("equality is judged on beats, values and pitch sets (NoteContainer equality is by pitch); "
                         "key/meter-only differences are not tested")
    return R.result(
        "exhaustive: all add_notes sequences of length <= %d over 6 values (1,2,4,8,dotted 4,triplet 4) x %d meters, "
        "item forms cycled; from_chords over %d meters x %d power-of-two prefixes x chord lists of <= %d items over "
        "{chord, rest, nested pair, seventh} x %d durations; every instrument x every pitch within 13 semitones of "
        "its range ends x 16 spellings x 5 item forms; rests x %d values x 6 instruments.  seeded: %d mixed "
        "sequences of 4..40 ops (28 values incl. dotted/tuplets, 12 meters incl. (0,0), 13 keys, 5+1 instruments, "
        "add_bar with pre-filled bars), from_chords nested to depth 3, equality pairs, compositions of <= 25 ops"
        % (maxlen, len(ex_meters), len(fc_meters), len(prefixes), 2 if quick else 3, len(durs), len(VALUES), nseq),
        exhaustive=False)
