"""C16 bounded stand-in: the bytes written by mingus.midi.midi_file_out are decoded by an independent Standard MIDI
File reader (bounded/decoders/smf.py) and compared with a model of the written music that is computed from the plain
data of the containers with exact Fractions (never with the code under test)."""
import os
import random
import shutil
import tempfile
from collections import Counter
from fractions import Fraction

from bounded.drv import Recorder
from bounded.decoders import smf

PROPOSED_FINDINGS = [
    dict(property="C16", id="midi-key-signature-first-letter", function="mingus.midi.midi_track.MidiTrack.set_key",
         clause="key-signature-per-bar",
         region="bar.key.key not in ('C','D','E','F','G','A','B')",
         what="set_key passes key.name[0] (the capital first letter of the display name, e.g. 'E' of 'E flat major') to "
              "key_signature_event, so every key with an accidental and every minor key is written as the major key "
              "of its letter: Eb major -> FF 59 02 04 00 (4 sharps), a minor -> 3 sharps major. Only the 7 natural "
              "major keys are written correctly",
         witness_code="from mingus.midi.midi_track import MidiTrack\nfrom mingus.containers.bar import Bar\n"
                      "t = MidiTrack()\nt.track_data = b''\nt.set_key(Bar('Eb', (4, 4)).key)\n"
                      "observed = t.track_data.hex()\nholds = t.track_data == b'\\x00\\xff\\x59\\x02\\xfd\\x00'\n"),
    dict(property="C16", id="midi-instrument-delay-emitted-thrice",
         function="mingus.midi.midi_track.MidiTrack.play_Note",
         clause="note-on-at-entry-start",
         region="track.instrument has instrument_nr and the first sounding entry of a repetition is preceded by a "
                "rest inside its bar",
         what="with a MidiInstrument attached, play_Note emits bank select, program change and note-on each with the "
              "pending delta time, so a rest of d ticks before the first note becomes 3*d ticks and every later "
              "event of the track is 2*d ticks late",
         witness_code="import os, tempfile\nfrom mingus.containers import Bar, Track\n"
                      "from mingus.containers.instrument import MidiInstrument\n"
                      "from mingus.midi import midi_file_out\n"
                      "b = Bar('C', (4, 4))\nb.place_rest(4)\nb.place_notes('C-4', 4)\n"
                      "t = Track(MidiInstrument())\nt + b\n"
                      "d = tempfile.mkdtemp()\nf = os.path.join(d, 'w.mid')\nmidi_file_out.write_Track(f, t)\n"
                      "data = open(f, 'rb').read()\nos.remove(f)\nos.rmdir(d)\n"
                      "i = data.index(b'\\xff\\x59\\x02') + 5\nj = data.index(b'\\x91\\x3c\\x40')\n"
                      "observed = data[i:j + 3].hex()\n"
                      "# [dt] Bn cc vv [dt] Cn pp [dt] 9n kk vv: the quarter rest (72 ticks) must be spent once\n"
                      "holds = j == i + 8 and data[i] + data[i + 4] + data[i + 7] == 72\n"),
    dict(property="C16", id="midi-bank-select-args-swapped", function="mingus.midi.midi_track.MidiTrack.select_bank",
         clause="bank-select-and-program-change-on-first-note-channel",
         region="track.instrument has instrument_nr and the first note's channel != 0",
         what="select_bank calls controller_event(BANK_SELECT, channel, bank) although the signature is "
              "controller_event(channel, contr_nr, contr_val): the event written is controller number <channel> on "
              "channel 0 (B0 <channel> 01), not a bank select on the first note's channel",
         witness_code="from mingus.midi.midi_track import MidiTrack\nt = MidiTrack()\n"
                      "observed = t.select_bank(5, 1).hex()\nholds = t.select_bank(5, 1) == b'\\x00\\xb5\\x00\\x01'\n"),
    dict(property="C16", id="midi-track-repeat-drops-trailing-rest",
         function="mingus.midi.midi_track.MidiTrack.play_Track",
         clause="note-on-at-entry-start",
         region="write_Track / write_Composition with repeat >= 1 and a track whose last bar ends in rests",
         what="play_Track resets self.delay = 0, so rests at the end of the last bar of a track are dropped when the "
              "track is repeated: the repetition starts early by that many ticks (write_Bar with repeat keeps them)",
         witness_code="import os, tempfile\nfrom mingus.containers import Bar, Track\n"
                      "from mingus.midi import midi_file_out\n"
                      "b = Bar('C', (4, 4))\nb.place_notes('C-4', 4)\nb.place_rest(4)\nt = Track()\nt + b\n"
                      "d = tempfile.mkdtemp()\nf = os.path.join(d, 'w.mid')\n"
                      "midi_file_out.write_Track(f, t, repeat=1)\n"
                      "data = open(f, 'rb').read()\nos.remove(f)\nos.rmdir(d)\n"
                      "k = data.index(b'\\xff\\x58', data.index(b'\\x81\\x3c\\x40'))\n"
                      "observed = data[k - 1]   # delta time of the time signature that opens the repetition\n"
                      "holds = observed == 72\n"),
]

MAJORS = ["Cb", "Gb", "Db", "Ab", "Eb", "Bb", "F", "C", "G", "D", "A", "E", "B", "F#", "C#"]
MINORS = ["ab", "eb", "bb", "f", "c", "g", "d", "a", "e", "b", "f#", "c#", "g#", "d#", "a#"]
KEYS30 = MAJORS + MINORS
_BASE = {"C": 0, "D": 2, "E": 4, "F": 5, "G": 7, "A": 9, "B": 11}
_FIFTHS = {"F": -1, "C": 0, "G": 1, "D": 2, "A": 3, "E": 4, "B": 5}
LETTERS = "CDEFGAB"
ACCS = ["", "#", "b", "##", "bb"]


# ------------------------------------------------------------------------------------------------ the model
def midi_pitch(name, octave):
    """the note's pitch number + 12"""
    return 12 * octave + _BASE[name[0]] + name[1:].count("#") - name[1:].count("b") + 12


def key_signature(key):
    """(count of sharps (>0) / flats (<0), 1 for minor) of a key written 'Eb' / 'f#' - by position on the line of
    fifths, not by table lookup"""
    minor = key[0].islower()
    pos = _FIFTHS[key[0].upper()] + 7 * key[1:].count("#") - 7 * key[1:].count("b") - (3 if minor else 0)
    return pos, (1 if minor else 0)


def entry_ticks(value, arith="exact"):
    """round(288/value): on the exact quotient, or (arith == "float") in double arithmetic.  The two differ only for
    float values whose quotient is within an ulp of a tie (e.g. 48/1.75 -> 10.5); either reading is accepted."""
    if arith == "float":
        return int(round(288 / value))
    return int(round(Fraction(288) / Fraction(value)))


def all_spellings():
    """every (name, octave) with <= 2 accidentals whose MIDI number lies in 0..127"""
    out = []
    for o in range(-1, 11):
        for l in LETTERS:
            for a in ACCS:
                if 0 <= midi_pitch(l + a, o) <= 127:
                    out.append((l + a, o))
    return out


def nspec(n):
    return (n.name, n.octave, n.channel, n.velocity)


def container_spec(nc):
    return [] if nc is None else [nspec(n) for n in nc.notes]


def bar_spec(bar):
    return dict(key=bar.key.key, meter=(bar.meter[0], bar.meter[1]),
                entries=[(e[1], container_spec(e[2])) for e in bar.bar])


def track_spec(track):
    ins = track.instrument
    return dict(name=track.name, instr=getattr(ins, "instrument_nr", None) if ins is not None else None,
                bars=[bar_spec(b) for b in track.bars])


def note_events(t0, t1, notes, out):
    for (name, octave, ch, vel) in notes:
        p = midi_pitch(name, octave)
        out[(t0, "on", p, ch, vel)] += 1
        out[(t1, "off", p, ch, vel)] += 1


def model_track(spec, repeat, whole_track, quirks=(), arith="exact"):
    """expected decoded content of one track chunk.  spec: track spec (whole_track) or a dict with only 'bars'.
    quirks: names of the known deviations to imitate (used only to attribute a mismatch to a known finding)."""
    ev = Counter()
    tsig, ksig = [], []
    t = 0
    delay = 0                 # rest ticks since the last bar line or sounding entry (what the writer has pending)
    first = None              # first note of the first sounding entry
    firstset = None
    for rep in range(repeat + 1):
        pending_instr = whole_track and spec.get("instr") is not None
        if whole_track and rep > 0 and "droptrail" in quirks:
            t -= delay
        if whole_track:
            delay = 0
        for bar in spec["bars"]:
            delay = 0
            tsig.append(bar["meter"])
            ksig.append(key_signature(bar["key"]))
            for value, notes in bar["entries"]:
                d = entry_ticks(value, arith)
                if notes:
                    if pending_instr:
                        if "triple" in quirks:
                            t += 2 * delay
                        pending_instr = False
                    if first is None:
                        first = notes[0]
                        firstset = set(n[2] for n in notes)
                    note_events(t, t + d, notes, ev)
                    delay = 0
                else:
                    delay += d
                t += d
    return dict(notes=ev, tsig=tsig, ksig=ksig, first=first, firstchannels=firstset)


def log2_exact(n):
    k = n.bit_length() - 1
    return k if n == 1 << k else None


# ------------------------------------------------------------------------------------------------ the driver
class Ctx(object):
    def __init__(self, R, tmp):
        self.R, self.tmp = R, tmp
        self.path = os.path.join(tmp, "c16.mid")


def observed_notes(track):
    c = Counter()
    for e in track.events:
        if e.kind == "note_on":
            c[(e.tick, "on", e.a, e.channel, e.b)] += 1
        elif e.kind == "note_off":
            c[(e.tick, "off", e.a, e.channel, e.b)] += 1
    return c


_PARSE_CLAUSE = {"header": "one-header-length-6-format-1-72-ticks", "track-count": "track-count-equals-track-chunks",
                 "chunk-length": "chunk-length-field-matches-content", "end-of-track": "chunk-ends-in-end-of-track",
                 "delta-time": "delta-time-valid-variable-length-quantity", "event": "every-event-well-formed"}


def short(c, n=6):
    return sorted(c.items())[:n]


def check_written(cx, group, kind, obj, recipe, bpm, repeat):
    """write obj with the real writer, decode independently, compare with the model"""
    from mingus.midi import midi_file_out as MO
    R = cx.R
    inputs = dict(kind=kind, recipe=recipe, bpm=bpm, repeat=repeat)
    writer = {"note": MO.write_Note, "container": MO.write_NoteContainer, "bar": MO.write_Bar,
              "track": MO.write_Track, "composition": MO.write_Composition}[kind]
    if os.path.exists(cx.path):
        os.remove(cx.path)
    ok, res = R.guard(group, "bytes-produced", inputs, lambda: writer(cx.path, obj, bpm, repeat))
    if not ok:
        return None
    if res is not True or not os.path.exists(cx.path):
        R.fail(group, "bytes-produced", "writer returned %r / wrote no file" % (res,), inputs)
        return None
    with open(cx.path, "rb") as f:
        data = f.read()
    try:
        s = smf.parse(data)
    except smf.SMFError as e:
        R.fail(group, _PARSE_CLAUSE[e.clause], "independent reader: %s; bytes %s" % (e, data[:120].hex()), inputs)
        return None
    if s.format != 1 or s.division != 72 or s.header_length != 6:
        R.fail(group, "one-header-length-6-format-1-72-ticks",
               "format %d division %d header length %d" % (s.format, s.division, s.header_length), inputs)
    # the model
    if kind == "note":
        specs = [dict(bars=[dict(key="C", meter=None, entries=[(4, [nspec(obj)])])])]
    elif kind == "container":
        specs = [dict(bars=[dict(key="C", meter=None, entries=[(4, container_spec(obj))])])]
    elif kind == "bar":
        specs = [dict(bars=[bar_spec(obj)])]
    elif kind == "track":
        specs = [track_spec(obj)]
    else:
        specs = [track_spec(t) for t in obj.tracks]
    whole = kind in ("track", "composition")
    if len(s.tracks) != len(specs):
        R.fail(group, "track-count-equals-track-chunks", "%d track chunk(s) for %d written track(s)"
               % (len(s.tracks), len(specs)), inputs)
        return s
    for ti, (trk, spec) in enumerate(zip(s.tracks, specs)):
        obs = observed_notes(trk)
        m = model_track(spec, repeat, whole)
        if obs != m["notes"]:
            m2 = model_track(spec, repeat, whole, (), "float")
            if obs == m2["notes"]:
                m = m2
        # ---- notes
        if obs != m["notes"]:
            strip = lambda c: Counter((k[1], k[2], k[3], k[4]) for k in c.elements())
            ons = lambda c: Counter(k for k in c.elements() if k[1] == "on")
            if strip(obs) != strip(m["notes"]):
                R.fail(group, "note-on-and-off-with-pitch-plus-12-channel-velocity",
                       "track %d: written-but-missing %r, unexpected %r" % (ti, short(strip(m["notes"]) - strip(obs)),
                                                                            short(strip(obs) - strip(m["notes"]))),
                       inputs)
            else:
                clause = "note-on-at-entry-start" if ons(obs) != ons(m["notes"]) else "note-off-at-entry-end"
                what = "track %d: expected-but-missing %r, unexpected %r" % (ti, short(m["notes"] - obs),
                                                                            short(obs - m["notes"]))
                finding = None
                if whole:
                    for q, fid in ((("triple",), ["midi-instrument-delay-emitted-thrice"]),
                                   (("droptrail",), ["midi-track-repeat-drops-trailing-rest"]),
                                   (("triple", "droptrail"), ["midi-instrument-delay-emitted-thrice",
                                                              "midi-track-repeat-drops-trailing-rest"])):
                        if q == ("triple",) and spec["instr"] is None:
                            continue
                        if "droptrail" in q and repeat < 1:
                            continue
                        if any(model_track(spec, repeat, whole, q, a)["notes"] == obs for a in ("exact", "float")):
                            finding = fid
                            break
                if finding:
                    for fid in finding:
                        R.fail(group, clause, what, inputs, finding=fid)
                else:
                    R.fail(group, clause, what, inputs)
        # ---- no note hangs or overlaps itself (in stream order)
        active = {}
        bad = None
        for e in trk.events:
            if e.kind == "note_on":
                if active.get((e.channel, e.a)):
                    bad = "note %d on channel %d started at tick %d while already sounding" % (e.a, e.channel, e.tick)
                    break
                active[(e.channel, e.a)] = 1
            elif e.kind == "note_off":
                if not active.get((e.channel, e.a)):
                    bad = "note-off for %d on channel %d at tick %d without a sounding note" % (e.a, e.channel, e.tick)
                    break
                active[(e.channel, e.a)] = 0
        if bad is None and any(active.values()):
            bad = "notes left hanging at the end of the track: %r" % sorted(k for k, v in active.items() if v)
        if bad:
            R.fail(group, "no-note-hangs-or-overlaps-itself", "track %d: %s" % (ti, bad), inputs)
        # ---- tempo
        tempos = [int.from_bytes(e.data, "big") for e in trk.metas(0x51)]
        if not tempos or any(x != 60000000 // bpm for x in tempos):
            R.fail(group, "tempo-60000000-div-bpm", "track %d: tempo events %r, expected %d" % (ti, tempos,
                                                                                               60000000 // bpm), inputs)
        if whole:
            # ---- track name
            names = [e.data for e in trk.metas(0x03)]
            if not names or any(x != spec["name"].encode("ascii") for x in names):
                R.fail(group, "track-name", "track %d: name events %r, written %r" % (ti, names[:3], spec["name"]),
                       inputs)
            # ---- instrument
            if spec["instr"] is not None and m["first"] is not None:
                chans = m["firstchannels"]
                progs = [(e.channel, e.a) for e in trk.of("program")]
                ctrls = [(e.channel, e.a, e.b) for e in trk.of("control")]
                if not progs or any(c not in chans or p != spec["instr"] for c, p in progs) \
                        or len(set(c for c, p in progs)) != 1:
                    R.fail(group, "bank-select-and-program-change-on-first-note-channel",
                           "track %d: program changes %r, expected instrument %d on channel %r"
                           % (ti, progs[:4], spec["instr"], sorted(chans)), inputs)
                if not ctrls or any(c not in chans or n != 0 for c, n, v in ctrls) \
                        or (progs and any(c != progs[0][0] for c, n, v in ctrls)):
                    fch = m["first"][2]
                    known = fch != 0 and bool(ctrls) and all(x == (0, fch, 1) for x in ctrls)
                    R.fail(group, "bank-select-and-program-change-on-first-note-channel",
                           "track %d: controller events (channel, controller, value) %r, expected a bank select "
                           "(controller 0) on channel %r" % (ti, ctrls[:4], sorted(chans)), inputs,
                           finding="midi-bank-select-args-swapped" if known else None)
        if kind in ("bar", "track", "composition"):
            # ---- per bar: time signature, key signature
            ts = [(e.data[0], e.data[1]) for e in trk.metas(0x58)]
            want = [(mt[0], log2_exact(mt[1])) for mt in m["tsig"]]
            if ts != want:
                R.fail(group, "time-signature-per-bar", "track %d: (numerator, log2 denominator) %r, written %r"
                       % (ti, ts[:8], want[:8]), inputs)
            ks = [(e.data[0] - 256 if e.data[0] > 127 else e.data[0], e.data[1]) for e in trk.metas(0x59)]
            if ks != m["ksig"]:
                keys = [b["key"] for b in spec["bars"]] * (repeat + 1)
                letter = [key_signature(k[0].upper()) for k in keys]
                wrong = [i for i in range(min(len(ks), len(keys))) if ks[i] != m["ksig"][i]]
                known = len(ks) == len(keys) and all(ks[i] == letter[i] and keys[i] not in LETTERS for i in wrong)
                R.fail(group, "key-signature-per-bar", "track %d: (sharps/-flats, minor) %r, written keys %r = %r"
                       % (ti, ks[:8], keys[:8], m["ksig"][:8]), inputs,
                       finding="midi-key-signature-first-letter" if known else None)
    return s


# ------------------------------------------------------------------------------------------------ builders
def mk_note(ns):
    from mingus.containers.note import Note
    return Note(ns[0], ns[1], velocity=ns[3], channel=ns[2])


def mk_container(notes):
    from mingus.containers.note_container import NoteContainer
    return NoteContainer([mk_note(n) for n in notes])


def mk_bar(rb):
    """rb = (key, meter, [(value, None | 'empty' | [note specs])]); entries that do not fit are left out"""
    from mingus.containers.bar import Bar
    from mingus.containers.note_container import NoteContainer
    b = Bar(rb[0], rb[1])
    for value, notes in rb[2]:
        if notes is None:
            b.place_rest(value)
        elif notes == "empty":
            b.place_notes(NoteContainer(), value)
        else:
            b.place_notes(mk_container(notes), value)
    return b


def mk_track(rt):
    """rt = (name, instr, [bar recipes]); instr None | int (MidiInstrument number) | 'plain'"""
    from mingus.containers.track import Track
    from mingus.containers.instrument import MidiInstrument, Instrument
    t = Track()
    if rt[1] == "plain":
        t.instrument = Instrument()
    elif rt[1] is not None:
        t.instrument = MidiInstrument()
        t.instrument.instrument_nr = rt[1]
    if rt[0] is not None:
        t.name = rt[0]
    for rb in rt[2]:
        if rb[0] == "same":          # ("same", i): the Bar OBJECT already standing at place i, once more
            t.add_bar(t.bars[rb[1]])
        else:
            t.add_bar(mk_bar(rb))
    return t


_BYSTANDERS = []


def mk_composition(rc):
    """the composition of the recipe -- made in a program that holds other compositions too: one is created (and given
    a track) after this one is complete and stays alive while it is written; a composition is not changed by that"""
    from mingus.containers.composition import Composition
    from mingus.containers.track import Track
    c = Composition()
    for rt in rc:
        c.add_track(mk_track(rt))
    other = Composition()
    other.add_track(Track())
    _BYSTANDERS.append(other)
    del _BYSTANDERS[:-3]
    # the objects are what the RECIPE says (the expected file is worked out from the objects further on: an object that
    # lost its instrument number, its name or its bars to a sibling built later would otherwise go unnoticed)
    if len(c.tracks) != len(rc):
        raise AssertionError("composition built from %d track recipes holds %d tracks" % (len(rc), len(c.tracks)))
    for i, (rt, t) in enumerate(zip(rc, c.tracks)):
        got = track_spec(t)
        if rt[1] not in (None, "plain") and got["instr"] != rt[1]:
            raise AssertionError("track %d was given MIDI instrument number %r and holds %r once the composition is "
                                 "complete" % (i, rt[1], got["instr"]))
        if rt[0] is not None and got["name"] != rt[0]:
            raise AssertionError("track %d was named %r and is named %r once the composition is complete" % (i, rt[0], got["name"]))
        if len(t.bars) != len(rt[2]):
            raise AssertionError("track %d was given %d bars and holds %d" % (i, len(rt[2]), len(t.bars)))
    return c


VALUES_INTEGRAL = [1, 2, 3, 4, 6, 8, 9, 12, 16, 18, 24, 32, 36, 48, 72, 96, 144, 288]
VALUES_ROUNDING = [48 / 1.75, 5, 7, 10, 11, 13, 20, 28, 64, 128, 192, 100, 7.5, 4 / 1.5, 8 / 1.5, 4 / 1.75, 2 / 1.5, 16 / 1.5,
                   3.5, 2.5, 1.5, 576, 577, 1000]
METERS = [(4, 4), (3, 4), (2, 4), (6, 8), (5, 4), (7, 8), (12, 8), (2, 2), (3, 2), (9, 8), (1, 1), (4, 16), (1, 4),
          (3, 8), (6, 4), (13, 16), (2, 1), (5, 8)]


def rand_note(rnd, spellings, ch=None, vel=None):
    name, octave = rnd.choice(spellings)
    return (name, octave, rnd.randrange(16) if ch is None else ch, rnd.randrange(128) if vel is None else vel)


def rand_entry(rnd, spellings, values, p_rest=0.3, ch=None):
    v = rnd.choice(values)
    x = rnd.random()
    if x < p_rest * 0.8:
        return (v, None)
    if x < p_rest:
        return (v, "empty")
    k = 1 if rnd.random() < 0.55 else rnd.randint(2, 5)
    return (v, [rand_note(rnd, spellings, ch=ch) for _ in range(k)])


def rand_bar(rnd, spellings, values, keys=KEYS30, meters=METERS, ch=None):
    shape = rnd.random()
    n = rnd.randint(0, 7)
    ents = [rand_entry(rnd, spellings, values, ch=ch) for _ in range(n)]
    if shape < 0.12:                                   # whole-bar rest
        ents = [(rnd.choice(values), None) for _ in range(rnd.randint(1, 4))]
    elif shape < 0.3 and ents:                         # leading rest(s)
        ents = [(rnd.choice(values), None)] * rnd.randint(1, 2) + ents
    elif shape < 0.48 and ents:                        # trailing rest(s)
        ents = ents + [(rnd.choice(values), None)] * rnd.randint(1, 2)
    return (rnd.choice(keys), rnd.choice(meters), ents)


def rand_name(rnd):
    n = rnd.choice([0, 1, 5, 12, 30, 127, 128, 129, 300]) if rnd.random() < 0.3 else rnd.randint(1, 20)
    return "".join(chr(rnd.randint(32, 126)) for _ in range(n))


def rand_track(rnd, spellings, values, keys=KEYS30, meters=METERS, one_channel=False):
    x = rnd.random()
    instr = None if x < 0.45 else ("plain" if x < 0.5 else rnd.randrange(128))
    ch = rnd.randrange(16) if one_channel else None
    return (rand_name(rnd), instr, [rand_bar(rnd, spellings, values, keys, meters, ch) for _ in range(rnd.randint(0, 5))])


def run(tier, seed):
    from mingus.midi.midi_track import MidiTrack
    R = Recorder("C16", tier, seed)
    for f in PROPOSED_FINDINGS:
        R.known.append(f) if f["id"] not in [k.get("id") for k in R.known] else None
    rnd = random.Random(seed)
    quick = tier == "quick"
    tmp = tempfile.mkdtemp(prefix="c16_")
    try:
        cx = Ctx(R, tmp)
        _vlq(R, MidiTrack, rnd, quick)
        _key_events(R, MidiTrack)
        _run(cx, rnd, quick)
    finally:
        shutil.rmtree(tmp, ignore_errors=True)
    R.assumptions.append("containers are built through the public constructors / place_notes; the model reads their "
                         "plain data (bar.bar, note.name/octave/channel/velocity, bar.key.key, bar.meter, track.name, "
                         "instrument.instrument_nr)")
    R.assumptions.append("round(288/value) is taken as Python's round (ties to even) of the exact quotient; for a float "
                         "value whose quotient lies within an ulp of a tie, round(288/value) in double arithmetic is "
                         "accepted as well")
    R.assumptions.append("when the first sounding container mixes channels, any of its channels is accepted as 'the "
                         "first note's channel'; values of bank select, and the tick of meta / program events are not "
                         "constrained by the statement and not checked; note containers carrying a .bpm attribute and "
                         "non-ASCII track names are outside the statement")
    R.assumptions.append("the variable-length encoder is compared on boundary neighbourhoods, a dense range, a stride "
                         "and a random sample, not on all 2^28 integers")
    return R.result(rule=_RULE[tier], exhaustive=False)


_RULE = {
    "quick": "VLQ: 0..2^17 dense, +-300 around every 2^k (k<=28) and +-3000 around 128^k, 20000 random < 2^28; "
             "key_signature_event / set_key: all 30 keys; write_Note: every spelling (<=2 accidentals) of every MIDI number 0..127, all 16 channels x 128 "
             "velocities, repeat 0..3; write_NoteContainer: sizes 0..6; write_Bar: all 30 keys x 18 meters, numerators "
             "1..255, denominators 2^0..2^7, 42 values (18 integral, 24 rounding incl. ties and a near-tie) alone and in pairs, every R/N/C "
             "pattern of length <= 4, repeat 0..3; write_Track: R/N/C patterns x instrument x leading rest x repeat "
             "0..2, instrument 0..127 x channel 0..15, names of length 0..300, rest runs crossing 2^7/2^14 ticks; "
             "tempo bpm 4..1000; write_Composition: 1-4 tracks x 0-5 random bars, seeded",
    "thorough": "as quick, plus VLQ 0..2^21 dense, stride 61 over 0..2^28, 10^6 random; values 1..1200 and 2000 random "
                "floats; R/N/C patterns of length <= 5; tempo bpm 4..20000 and 3000 random up to 6*10^7; "
                "many more seeded random bars, tracks and compositions",
}


def _vlq(R, MidiTrack, rnd, quick):
    mt = MidiTrack()
    g = "MidiTrack.int_to_varbyte"
    vals = set(range(0, 1 << (17 if quick else 21)))
    for k in range(0, 29):
        for d in range(-300, 301):
            vals.add((1 << k) + d)
    for k in range(1, 5):
        for d in range(-3000, 3001):
            vals.add(128 ** k + d)
    for _ in range(20000 if quick else 1000000):
        vals.add(rnd.randrange(1 << 28))
    if not quick:
        vals.update(range(0, 1 << 28, 61))
    nbad = 0
    for v in vals:
        if not 0 <= v < (1 << 28):
            continue
        R.case(g)
        try:
            got = mt.int_to_varbyte(v)
        except Exception as e:  # noqa
            got = "%s: %s" % (type(e).__name__, e)
        if got != smf.vlq(v):
            nbad += 1
            R.fail(g, "variable-length-encoder-equals-standard-encoding",
                   "int_to_varbyte(%d) = %r, standard %r" % (v, got, smf.vlq(v)), v)
    R.distinct.add((g, len(vals)))
    # the encoder as used for delta times given as int
    for v in (0, 1, 127, 128, 16383, 16384, 2097151, 2097152, (1 << 28) - 1):
        R.case("MidiTrack.set_deltatime", v)
        mt.set_deltatime(v)
        if mt.delta_time != smf.vlq(v):
            R.fail("MidiTrack.set_deltatime", "variable-length-encoder-equals-standard-encoding",
                   "set_deltatime(%d) -> %r" % (v, mt.delta_time), v)


def _key_events(R, MidiTrack):
    """the key signature event of each of the 30 keys, at function level (set_key currently masks most of them)"""
    from mingus.core.keys import Key
    g = "MidiTrack.key_signature_event"
    for key in KEYS30:
        sf, mi = key_signature(key)
        want = b"\x00\xff\x59\x02" + bytes([sf & 0xFF, mi])
        R.case(g, key)
        ok, got = R.guard(g, "key-signature-per-bar", key, lambda: MidiTrack().key_signature_event(key))
        if ok and got != want:
            R.fail(g, "key-signature-per-bar", "key_signature_event(%r) = %s, expected %s" % (key, got.hex(), want.hex()),
                   key)
        R.case("MidiTrack.set_key", key)
        mt = MidiTrack()
        mt.track_data = b""
        ok, _ = R.guard("MidiTrack.set_key", "key-signature-per-bar", key, lambda: mt.set_key(Key(key)))
        if ok and mt.track_data != want:
            letter = key_signature(key[0].upper())
            known = key not in LETTERS and mt.track_data == b"\x00\xff\x59\x02" + bytes([letter[0] & 0xFF, letter[1]])
            R.fail("MidiTrack.set_key", "key-signature-per-bar", "set_key(Key(%r)) wrote %s, expected %s"
                   % (key, mt.track_data.hex(), want.hex()), key,
                   finding="midi-key-signature-first-letter" if known else None)


def _run(cx, rnd, quick):
    R = cx.R
    spellings = all_spellings()
    allvalues = VALUES_INTEGRAL + VALUES_ROUNDING

    def go(group, kind, recipe, bpm=120, repeat=0):
        R.case(group, (kind, repr(recipe), bpm, repeat))
        ok, obj = R.guard(group, "bytes-produced", recipe, lambda: {
            "note": mk_note, "container": mk_container, "bar": mk_bar, "track": mk_track,
            "composition": mk_composition}[kind](recipe))
        if ok:
            return check_written(cx, group, kind, obj, recipe, bpm, repeat)

    # ---------------- write_Note
    for i, (name, octave) in enumerate(spellings):
        go("write_Note", "note", (name, octave, i % 16, (i * 37) % 128), bpm=120, repeat=i % 3)
    for ch in range(16):
        for vel in range(128):
            go("write_Note", "note", ("C", 4, ch, vel))
    for rep in range(0, 4):
        go("write_Note", "note", ("A", 3, 9, 100), repeat=rep)
    # ---------------- write_NoteContainer
    go("write_NoteContainer", "container", [])
    for size in range(1, 7):
        for _ in range(20 if quick else 200):
            go("write_NoteContainer", "container", [rand_note(rnd, spellings) for _ in range(size)],
               bpm=rnd.randint(4, 400), repeat=rnd.randint(0, 3))
    for ch in range(16):
        for vel in (0, 1, 63, 64, 126, 127):
            go("write_NoteContainer", "container", [("C", 4, ch, vel), ("E", 4, 15 - ch, 127 - vel), ("G", 4, ch, vel)])
    # ---------------- write_Bar: keys x meters
    N = ("C", 4, 1, 64)
    for key in KEYS30:
        for meter in METERS:
            go("write_Bar", "bar", (key, meter, [(meter[1], [N])]))
    for num in range(1, 256):
        go("write_Bar", "bar", ("C", (num, 4), [(4, [N])]))
    for k in range(0, 8):
        go("write_Bar", "bar", ("G", (3, 1 << k), [(1 << k, [N])]))
    # values alone and in pairs (integral and rounding tick lengths), with a rest between / before
    vals = allvalues if quick else sorted(set(allvalues + list(range(1, 1201))), key=float)
    big = (64, 1)                                        # a bar long enough for any sequence
    for v in vals:
        go("write_Bar", "bar", ("C", big, [(v, [N])]))
        go("write_Bar", "bar", ("C", big, [(v, None), (v, [N]), (v, None), (v, [N, ("E", 4, 2, 3)])]), repeat=1)
    for v in allvalues:
        for w in allvalues:
            go("write_Bar", "bar", ("F", big, [(v, [N]), (w, [("D", 5, 0, 1)]), (v, None), (w, [N])]))
    if not quick:
        for _ in range(2000):
            v = rnd.choice([rnd.uniform(0.25, 600), rnd.randint(1, 64) / rnd.choice([1.5, 1.75, 1.875]),
                            rnd.randint(1, 32) * rnd.choice([3, 5, 7]) / 2.0])
            go("write_Bar", "bar", ("C", big, [(v, None), (v, [N]), (v, [N])]))
    # every pattern of rests / notes / chords up to length 4 (5), quarter and eighth values
    A, B2 = ("C", 4, 3, 70), ("G", 4, 4, 80)
    alphabet = [None, "empty", [A], [A, B2]]
    maxlen = 4 if quick else 5
    pats = [[]]
    frontier = [[]]
    for _ in range(maxlen):
        frontier = [p + [a] for p in frontier for a in alphabet]
        pats += frontier
    for p in pats:
        ents = [((4, 8, 3)[i % 3], x) for i, x in enumerate(p)]
        go("write_Bar", "bar", ("D", (4, 4), ents), repeat=len(p) % 3)
    for rep in range(0, 4):
        go("write_Bar", "bar", ("Bb", (3, 4), [(4, None), (4, [A]), (4, None)]), repeat=rep)
    # ---------------- write_Track: patterns x instrument x repeat
    short_pats = [p for p in pats if len(p) <= 3]
    for p in short_pats:
        for instr in (None, 17):
            for rep in (0, 1, 2):
                bars = [("C", (4, 4), [(4, x) for x in p]), ("C", (4, 4), [(2, [B2]), (2, None)])]
                go("write_Track", "track", ("T", instr, bars if len(p) % 2 else bars[:1]), repeat=rep)
    for nr in range(128):
        for ch in range(16):
            lead = (nr + ch) % 3
            ents = [(4, None)] * lead + [(4, [("C", 4, ch, 64), ("E", 4, ch, 64)]), (4, [("D", 4, (ch + 1) % 16, 5)])]
            go("write_Track", "track", ("i", nr, [("C", (4, 4), ents)]), repeat=0)
    for ln in [0, 1, 2, 126, 127, 128, 129, 255, 256, 300] + ([] if quick else list(range(3, 126, 7))):
        go("write_Track", "track", ("".join(chr(32 + (i * 7) % 95) for i in range(ln)), None,
                                    [("C", (4, 4), [(4, [N])])]))
    # rest runs whose accumulated delta crosses the 1-, 2- and 3-byte boundaries of the variable-length quantity
    for nbars in (0, 1, 2, 56, 57, 58) if quick else (0, 1, 2, 3, 55, 56, 57, 58, 59, 120):
        bars = [("C", (4, 4), [(1, None)])] * nbars + [("C", (4, 4), [(16, None), (4, [N]), (1, None)])]
        go("write_Track", "track", ("rests", None, bars + bars[-1:]))
        go("write_Bar", "bar", ("C", (nbars + 2, 1), [(1, None)] * nbars + [(32, None), (4, [N])]), repeat=1)
    for v in (128, 127, 129, 3, 2.25):                   # deltas 2, 2, 2, 96, 128 around the 1-byte boundary
        go("write_Bar", "bar", ("C", big, [(v, None), (2.25, [N]), (2.26, [N]), (2.24, [N])]))
    for _ in range(1500 if quick else 25000):
        go("write_Track", "track", rand_track(rnd, spellings, allvalues), bpm=rnd.randint(4, 600),
           repeat=rnd.choice([0, 0, 1, 2, 3]))
    for _ in range(1500 if quick else 25000):
        go("write_Bar", "bar", rand_bar(rnd, spellings, allvalues), bpm=rnd.randint(4, 600),
           repeat=rnd.choice([0, 0, 1, 2, 4]))
    # the SAME Bar object more than once in a track (A A, A B A, A B B A): every occurrence is written where it stands,
    # with whatever rest is pending before it
    def same_bar_again(form):
        def build(rt):
            t = mk_track((rt[0], rt[1], []))
            made = [mk_bar(rb) for rb in rt[2]]
            for i in form:
                t.add_bar(made[i % len(made)])
            return t
        return build
    fixed = [("C", (4, 4), [(4, [N]), (2, None), (4, None)]), ("C", (4, 4), [(4, None), (4, [B2]), (2, [N])]),
             ("C", (4, 4), [(1, None)])]
    for form in ((0, 0), (0, 1, 0), (0, 1, 1, 0), (2, 0, 2, 0), (0, 2, 0), (1, 1, 1)):
        for instr in (None, 40):
            recipe = ("again", instr, fixed)
            R.case("write_Track", ("same bar object again", form, instr))
            ok, obj = R.guard("write_Track", "bytes-produced", (recipe, form), lambda: same_bar_again(form)(recipe))
            if ok:
                check_written(cx, "write_Track", "track", obj, (recipe, "bars in the order %r (same objects)" % (form,)), 120, 0)
    for _ in range(150 if quick else 3000):
        rt = rand_track(rnd, spellings, allvalues)
        if not rt[2]:
            continue
        form = tuple(rnd.randrange(len(rt[2])) for _j in range(rnd.randint(2, 5)))
        R.case("write_Track", ("same bar object again", form))
        ok, obj = R.guard("write_Track", "bytes-produced", (rt, form), lambda: same_bar_again(form)(rt))
        if ok:
            check_written(cx, "write_Track", "track", obj, (rt, "bars in the order %r (same objects)" % (form,)),
                          rnd.randint(4, 600), rnd.choice([0, 0, 1]))
    # ---------------- tempo
    for bpm in range(4, 1001 if quick else 20001):
        go("tempo", "bar" if bpm % 2 else "note", ("C", (4, 4), [(4, [N])]) if bpm % 2 else N, bpm=bpm)
    if not quick:
        for _ in range(3000):
            go("tempo", "note", N, bpm=rnd.randint(4, 60000000))
    go("tempo", "track", ("t", 5, [("C", (4, 4), [(4, [N])])]), bpm=60000000)
    # ---------------- write_Composition
    for ntr in range(1, 5):
        for _ in range(300 if quick else 5000):
            rc = [rand_track(rnd, spellings, allvalues) for _ in range(ntr)]
            go("write_Composition", "composition", rc, bpm=rnd.randint(4, 400), repeat=rnd.choice([0, 0, 1, 2]))
    # compositions restricted to the region free of the known deviations (natural major keys, no trailing rest
    # repeated, channel 0 instruments without leading rest are not forced: the full model must hold exactly)
    for _ in range(600 if quick else 10000):
        rc = [rand_track(rnd, spellings, VALUES_INTEGRAL, keys=list(LETTERS), one_channel=True)
              for _ in range(rnd.randint(1, 4))]
        go("write_Composition", "composition", rc, bpm=rnd.randint(4, 400), repeat=0)
