"""C19 bounded stand-in: notation exports (LilyPond, MusicXML) decode back to the same music.

The REAL exporters (mingus.extra.lilypond.from_Note / from_NoteContainer / from_Bar / from_Track /
from_Composition and mingus.extra.musicxml.from_Composition [+ from_Track / from_Bar wrappers]) are run on
enumerated and seeded containers; their text is decoded by independent readers (bounded/decoders/ly.py: a
LilyPond-subset reader written from the notation reference; bounded/decoders/mxml.py: xml.etree) and compared
with a model of the input that the driver keeps itself:

  * pitch   = (letter, net alteration, octave) read off the Note objects that were put in,
  * value   = (base, dots, actual:normal) chosen by the driver; the number handed to the library is
              1 / ((1/base) * (2 - 2**-dots) * normal/actual) computed with exact Fractions (then float / int, or
              built with value.dots / value.tuplet as a user would); the library's value.determine is never used,
  * length in quarter notes = 4 * (1/base) * (2 - 2**-dots) * normal/actual (exact Fraction),
  * key signature = own circle-of-fifths arithmetic (F C G D A E B = -1..5, +7 per sharp, -3 for minor),
  * LilyPond semantics: absolute octaves (c' = octave 4), Dutch names, \\times n/m multiplies lengths by n/m.
"""
import itertools
import random
from fractions import Fraction

from bounded.drv import Recorder

LETTERS = "CDEFGAB"
NAMES = [l + a for l in LETTERS for a in ("", "#", "##", "b", "bb")]          # all names up to double accidentals
OCTAVES = list(range(0, 9))
MAJOR_KEYS = ["Cb", "Gb", "Db", "Ab", "Eb", "Bb", "F", "C", "G", "D", "A", "E", "B", "F#", "C#"]
MINOR_KEYS = ["ab", "eb", "bb", "f", "c", "g", "d", "a", "e", "b", "f#", "c#", "g#", "d#", "a#"]
KEYS = MAJOR_KEYS + MINOR_KEYS                                                # all 30 keys
BASES = [Fraction(1, 4), Fraction(1, 2)] + [Fraction(2 ** k) for k in range(0, 8)]   # longa, breve, 1 .. 128
KINDS = [(0, (1, 1)), (1, (1, 1)), (2, (1, 1)), (3, (1, 1)), (4, (1, 1)),     # plain, 1-4 dots
         (0, (3, 2)), (0, (5, 4)), (0, (7, 4))]                               # triplet, quintuplet, septuplet
SPECS = [(b, d, r) for b in BASES for (d, r) in KINDS]                        # the full value vocabulary (80)
TITLES = ["Untitled", "", "Plain title", "Tom & Jerry", "a < b > c", "<b>bold</b>", "it's", "x &amp; y", "]]>",
          "<!-- c -->", "  padded  ", "caf\u00e9 \u266f", "<?pi?>", "&#38;", "a\tb", "1 < 2 && 3 > 2"]
QUOTED = ['say "hi"', 'back\\slash', '"', 'a"b<c>&\'d', '\\"']                # need LilyPond string escaping

PROPOSED_FINDINGS = [
    dict(property="C19", id="xml-chord-flag-only-on-last-note",
         function="mingus.extra.musicxml._bar2musicxml", clause="holds",
         what="one shared <chord/> element is created per bar and re-appended to every note of every chord "
              "(first note included), so in the output only the last note of the last chord of a bar carries "
              "<chord/>; the property wants every chord note after the first marked (and not the first)",
         witness_code=(
             "import xml.etree.ElementTree as ET\n"
             "from mingus.containers import Bar, Track, Composition, NoteContainer\n"
             "import mingus.extra.musicxml as X\n"
             "b = Bar('C', (4, 4)); b.place_notes(NoteContainer(['C', 'E', 'G']), 4)\n"
             "t = Track(); t.add_bar(b); c = Composition(); c.add_track(t)\n"
             "observed = [n.find('chord') is not None for n in ET.fromstring(X.from_Composition(c)).iter('note')]\n"
             "holds = observed == [False, True, True]\n")),
    dict(property="C19", id="xml-duration-ignores-dots-and-tuplets",
         function="mingus.extra.musicxml._bar2musicxml", clause="holds",
         what="<duration> is computed from the base value only (lcm*4/base), so a dotted or tuplet entry gets the "
              "duration of the plain base value; duration/divisions is not the entry's length in quarter notes",
         witness_code=(
             "import xml.etree.ElementTree as ET\n"
             "from fractions import Fraction\n"
             "from mingus.containers import Bar, Track, Composition\n"
             "import mingus.extra.musicxml as X\n"
             "b = Bar('C', (4, 4)); b.place_notes('C', 8.0 / 1.5); b.place_notes('D', 12)\n"
             "t = Track(); t.add_bar(b); c = Composition(); c.add_track(t)\n"
             "m = ET.fromstring(X.from_Composition(c)).find('part/measure')\n"
             "div = Fraction(m.find('attributes/divisions').text.strip())\n"
             "observed = [str(Fraction(n.find('duration').text.strip()) / div) for n in m.iter('note')]\n"
             "holds = observed == ['3/4', '1/3']\n")),
    dict(property="C19", id="xml-multiple-dots-collapsed",
         function="mingus.extra.musicxml._bar2musicxml", clause="holds",
         what="the same <dot/> node is appended once per dot, which only moves it: an entry with 2, 3 or 4 dots is "
              "written with a single <dot/>",
         witness_code=(
             "import xml.etree.ElementTree as ET\n"
             "from mingus.containers import Bar, Track, Composition\n"
             "import mingus.extra.musicxml as X\n"
             "b = Bar('C', (4, 4)); b.place_notes('C', 4 * 4.0 / 7)\n"
             "t = Track(); t.add_bar(b); c = Composition(); c.add_track(t)\n"
             "observed = [len(n.findall('dot')) for n in ET.fromstring(X.from_Composition(c)).iter('note')]\n"
             "holds = observed == [2]\n")),
    dict(property="C19", id="xml-longa-breve-zero-divisions",
         function="mingus.extra.musicxml._bar2musicxml", clause="holds",
         what="divisions is the lcm of int(base value): int(0.25) = int(0.5) = 0, so a bar holding a longa or a "
              "breve gets <divisions>0</divisions> and <duration>0</duration> for every entry (two such entries: "
              "ZeroDivisionError)",
         witness_code=(
             "import xml.etree.ElementTree as ET\n"
             "from mingus.containers import Bar, Track, Composition\n"
             "import mingus.extra.musicxml as X\n"
             "b = Bar('C', (6, 2)); b.place_notes('C', 0.5); b.place_notes('D', 2)\n"
             "t = Track(); t.add_bar(b); c = Composition(); c.add_track(t)\n"
             "m = ET.fromstring(X.from_Composition(c)).find('part/measure')\n"
             "observed = (m.find('attributes/divisions').text.strip(), [n.find('duration').text.strip() for n in m.iter('note')])\n"
             "holds = float(observed[0]) != 0 and [float(d) / float(observed[0]) for d in observed[1]] == [8.0, 2.0]\n")),
    dict(property="C19", id="xml-empty-bar-typeerror",
         function="mingus.extra.musicxml._bar2musicxml", clause="holds",
         what="a composition containing an empty Bar cannot be exported: _lcm(terms=[]) falls through to None*None "
              "and raises TypeError instead of producing an empty numbered measure",
         witness_code=(
             "from mingus.containers import Bar, Track, Composition\n"
             "import mingus.extra.musicxml as X\n"
             "t = Track(); t.add_bar(Bar('C', (4, 4))); c = Composition(); c.add_track(t)\n"
             "try:\n"
             "    X.from_Composition(c); observed = 'exported'; holds = True\n"
             "except Exception as e:\n"
             "    observed = 'raised %s' % type(e).__name__; holds = False\n")),
    dict(property="C19", id="xml-same-track-twice-duplicate-part-id",
         function="mingus.extra.musicxml._composition2musicxml", clause="holds",
         what="part ids are str(id(track)): a composition that holds the same Track object twice gets two parts "
              "(and two score-parts) with the same id, so the parts are not uniquely identified",
         witness_code=(
             "import xml.etree.ElementTree as ET\n"
             "from mingus.containers import Bar, Track, Composition\n"
             "import mingus.extra.musicxml as X\n"
             "b = Bar('C', (4, 4)); b.place_notes('C', 4)\n"
             "t = Track(); t.add_bar(b); c = Composition(); c.add_track(t); c.add_track(t)\n"
             "ids = [p.get('id') for p in ET.fromstring(X.from_Composition(c)).findall('part')]\n"
             "observed = len(ids), len(set(ids))\n"
             "holds = observed == (2, 2)\n")),
    dict(property="C19", id="ly-header-string-not-escaped",
         function="mingus.extra.lilypond.from_Composition", clause="holds",
         what="title / author / subtitle are pasted between double quotes without escaping: a '\"' or a backslash "
              "in them ends or corrupts the LilyPond string, so the header no longer carries the text",
         witness_code=(
             "from mingus.containers import Composition\n"
             "import mingus.extra.lilypond as L\n"
             "c = Composition(); c.set_title('say \"hi\"')\n"
             "observed = L.from_Composition(c)\n"
             "holds = 'title = \"say \\\\\"hi\\\\\"\"' in observed\n")),
]


# ------------------------------------------------------------------------------------------------ model
def spec_whole(spec):
    """length in whole notes of a value (base, dots, (actual, normal))"""
    base, dots, (a, n) = spec
    return (Fraction(1) / base) * (2 - Fraction(1, 2 ** dots)) * Fraction(n, a)


def spec_number(spec):
    return 1 / spec_whole(spec)


def spec_forms(spec, V):
    """the numbers a user may hand to the library for this value: float, int when integral, library-built"""
    num = spec_number(spec)
    forms = [float(num)]
    if num.denominator == 1:
        forms.append(int(num))
    base, dots, (a, n) = spec
    fb = float(base) if base < 1 else int(base)
    if dots:
        forms.append(V.dots(fb, dots))
    elif (a, n) != (1, 1):
        forms.append(V.tuplet(fb, a, n))
    out = []
    for f in forms:
        if not any(type(f) is type(g) and f == g for g in out):
            out.append(f)
    return out


def pitch_of(name, octave):
    return (name[0], name[1:].count("#") - name[1:].count("b"), octave)


def key_parts(key):
    """'bb' -> ('B', -1, 'minor'), 'F#' -> ('F', 1, 'major')"""
    return (key[0].upper(), key[1:].count("#") - key[1:].count("b"), "minor" if key[0].islower() else "major")


def key_fifths(key):
    letter, alter, mode = key_parts(key)
    return "FCGDAEB".index(letter) - 1 + 7 * alter - (3 if mode == "minor" else 0)


def describe_bar(bm):
    return (bm["key"], bm["meter"], [(e["notes"], e["value"]) for e in bm["entries"]])


def describe_comp(cm):
    return {"title": cm["title"], "subtitle": cm["subtitle"], "author": cm["author"],
            "tracks": [{"name": t["name"], "instrument": t["instrument"], "same_as": t.get("same_as"),
                        "bars": [describe_bar(b) for b in t["bars"]]} for t in cm["tracks"]]}


class Builder(object):
    """builds real containers from plain descriptions and keeps the model next to them"""

    def __init__(self):
        from mingus.containers import Note, NoteContainer, Bar, Track, Composition
        from mingus.containers.instrument import Instrument, MidiInstrument
        import mingus.core.value as V
        self.Note, self.NoteContainer, self.Bar, self.Track, self.Composition = Note, NoteContainer, Bar, Track, Composition
        self.Instrument, self.MidiInstrument, self.V = Instrument, MidiInstrument, V

    def container(self, notes):
        """notes: list of (name, octave) -> (NoteContainer, model list as actually held by the container)"""
        nc = self.NoteContainer([self.Note(n, o) for (n, o) in notes])
        self.looked_at(nc)
        return nc, [(x.name, x.octave) for x in nc.notes]

    def looked_at(self, nc):
        """what a program does with a chord before it prints it: read-only looks, some of which stop early (an unequal
        comparison, a search that finds its note, a loop that breaks).  None of this may show in the export."""
        k = len(nc.notes)
        if k == 0:
            return
        other = self.NoteContainer()
        other.notes = [self.Note("CDEFGAB"[i % 7], i // 7) for i in range(k)]     # same size, no common pitch
        try:
            nc == other
            other == nc
            for _n in nc:
                break
            nc[0], nc[-1], len(nc), (nc.notes[0] in nc), nc.get_note_names()
        except Exception:  # noqa  (a failure here is C12's business; the export checks below are what counts)
            pass

    def bar(self, key, meter, entries, rest_as_empty_container=False):
        """entries: [(notes, spec, number)]; notes None = place_rest, [] = an empty NoteContainer (also a rest).
        Entries that do not fit the meter are skipped.  -> (Bar, model)"""
        b = self.Bar(key, meter)
        model = {"key": key, "meter": tuple(meter), "entries": []}
        for (notes, spec, number) in entries:
            if notes is None or len(notes) == 0:
                as_empty = rest_as_empty_container or notes is not None
                ok = b.place_notes(self.NoteContainer(), number) if as_empty else b.place_rest(number)
                held = None
            else:
                nc, held = self.container(notes)
                ok = b.place_notes(nc, number)
            if ok:
                model["entries"].append({"notes": held, "spec": spec, "value": number})
        assert len(b.bar) == len(model["entries"])
        # what was REFUSED leaves no trace in an export: a meter that is none, and an item that does not fit any more
        try:
            b.set_meter((meter[0] if meter[0] else 3, 5))
        except Exception:  # noqa
            pass
        try:
            if tuple(meter) != (0, 0) and b.space_left() < 1.0:
                b.place_notes(self.NoteContainer([self.Note("C", 4)]), 1.0 / (b.space_left() + 1.0))
        except Exception:  # noqa
            pass
        return b, model

    def composition(self, desc):
        """desc: dict(title, subtitle, author, tracks=[dict(name, instrument, bars=[(key, meter, entries)],
        same_as=index or None)]) -> (Composition, model)"""
        c = self.Composition()
        c.set_title(desc["title"], desc["subtitle"])
        c.set_author(desc["author"])
        cm = {"title": desc["title"], "subtitle": desc["subtitle"], "author": desc["author"], "tracks": []}
        objs = []
        for td in desc["tracks"]:
            if td.get("copy_of") is not None:
                # a COPY of an earlier track (a doubled voice): another object with the same content
                import copy as _copy
                t = (_copy.deepcopy if td.get("deep", True) else _copy.copy)(objs[td["copy_of"]])
                tm = dict(cm["tracks"][td["copy_of"]])
                tm["same_as"] = None
                objs.append(t)
                c.add_track(t)
                cm["tracks"].append(tm)
                continue
            if td.get("same_as") is not None:
                t = objs[td["same_as"]]
                tm = dict(cm["tracks"][td["same_as"]])
                tm["same_as"] = td["same_as"]
            else:
                inst = None
                if td["instrument"] is not None:
                    kind, iname = td["instrument"]
                    inst = self.MidiInstrument() if kind == "midi" else self.Instrument()
                    inst.name = iname
                t = self.Track(inst)
                t.name = td["name"]
                tm = {"name": td["name"], "instrument": td["instrument"], "bars": [], "same_as": None}
                built = []
                for bd in td["bars"]:
                    if bd[0] == "same":          # the SAME Bar object once more (A B A forms, repeats)
                        b, bm = built[bd[1]]
                    else:
                        (key, meter, entries) = bd
                        b, bm = self.bar(key, meter, entries)
                    built.append((b, bm))
                    t.add_bar(b)
                    tm["bars"].append(bm)
            objs.append(t)
            c.add_track(t)
            cm["tracks"].append(tm)
        return c, cm


# ------------------------------------------------------------------------------------------------ LilyPond checks
class LyCheck(object):
    def __init__(self, R):
        from bounded.decoders import ly
        self.R, self.ly = R, ly

    def parse(self, group, text, inputs):
        if not isinstance(text, str):
            self.R.fail(group, "ly-decodes-under-subset-reader", "exporter returned %r" % (text,), inputs)
            return None
        try:
            return self.ly.parse(text)
        except self.ly.LyError as e:
            self.R.fail(group, "ly-decodes-under-subset-reader", "%s in %r" % (e, text[:300]), inputs)
            return None

    def event(self, group, ev, factor, held, spec, inputs, what, check_ratio=True):
        """one decoded event against one model entry (spec None: no duration was asked for)"""
        R = self.R
        # chords and rests
        if held is None or len(held) == 0:
            if ev.pitches is not None:
                R.fail(group, "ly-chords-and-rests-in-order", "%s: rest decoded as %r" % (what, ev), inputs)
        else:
            want = [pitch_of(n, o) for (n, o) in held]
            if ev.pitches is None:
                R.fail(group, "ly-chords-and-rests-in-order", "%s: %r decoded as a rest" % (what, held), inputs)
            else:
                if len(ev.pitches) != len(want):
                    R.fail(group, "ly-chords-and-rests-in-order",
                           "%s: %d notes decoded as %d: %r" % (what, len(want), len(ev.pitches), ev), inputs)
                elif list(ev.pitches) != want:
                    R.fail(group, "ly-note-letter-accidentals-octave",
                           "%s: %r decoded as %r" % (what, want, ev.pitches), inputs)
        # value
        if spec is None:
            if ev.base is not None or ev.dots:
                R.fail(group, "ly-base-value-dots", "%s: duration %r written although none was given" % (what, ev), inputs)
            return
        base, dots, (a, n) = spec
        if ev.base != base or ev.dots != dots:
            R.fail(group, "ly-base-value-dots",
                   "%s: value %r (base %s, %d dots) decoded as base %s, %d dots" % (what, spec, base, dots, ev.base, ev.dots),
                   inputs)
        if check_ratio and factor != Fraction(n, a):
            R.fail(group, "ly-tuplet-ratio",
                   "%s: tuplet %d:%d decoded with \\times factor %s" % (what, a, n, factor), inputs)

    def bar_items(self, group, items, bm, inputs, key_rule, time_rule, what="bar"):
        """items of one decoded bar block against the bar model.
        key_rule / time_rule: 'required' (must be shown, and right) or 'free' (right if shown).
        -> (key shown?, time shown?)"""
        R = self.R
        try:
            events, keys, times = self.ly.flatten(items)
        except self.ly.LyError as e:
            R.fail(group, "ly-decodes-under-subset-reader", "%s: %s" % (what, e), inputs)
            return None, None
        wk = key_parts(bm["key"])
        for (k, pos) in keys:
            if (k.letter, k.alter, k.mode) != wk or pos != 0 or len(keys) > 1:
                R.fail(group, "ly-key-where-shown", "%s in key %r shows %r before entry %d (%d \\key in the bar)"
                       % (what, bm["key"], k, pos, len(keys)), inputs)
        if key_rule == "required" and not keys:
            R.fail(group, "ly-key-where-shown", "%s: key %r asked for but not written" % (what, bm["key"]), inputs)
        for (t, pos) in times:
            if (t.num, t.den) != tuple(bm["meter"]) or pos != 0 or len(times) > 1:
                R.fail(group, "ly-time-signature-where-shown", "%s in %r shows %r before entry %d (%d \\time in the bar)"
                       % (what, bm["meter"], t, pos, len(times)), inputs)
        if time_rule == "required" and not times:
            R.fail(group, "ly-time-signature-where-shown", "%s: meter %r asked for but not written" % (what, bm["meter"]),
                   inputs)
        if len(events) != len(bm["entries"]):
            R.fail(group, "ly-chords-and-rests-in-order", "%s: %d entries decoded as %d events"
                   % (what, len(bm["entries"]), len(events)), inputs)
        else:
            for i, ((ev, f), e) in enumerate(zip(events, bm["entries"])):
                self.event(group, ev, f, e["notes"], e["spec"], inputs, "%s entry %d" % (what, i))
        return bool(keys), bool(times)

    def track_block(self, group, block, tm, inputs, what="track"):
        R = self.R
        ly = self.ly
        if not all(isinstance(it, ly.Block) for it in block.items) or len(block.items) != len(tm["bars"]):
            R.fail(group, "ly-bars-in-order", "%s with %d bars decoded as %r" % (what, len(tm["bars"]), block.items), inputs)
            return
        prev = None
        for i, (blk, bm) in enumerate(zip(block.items, tm["bars"])):
            ks, ts = self.bar_items(group, blk.items, bm, inputs, "free", "free", "%s bar %d" % (what, i))
            if ks is None:
                return
            if prev is not None:
                if prev["key"] != bm["key"] and not ks:
                    R.fail(group, "ly-key-where-changed-between-bars",
                           "%s: key changes %r -> %r at bar %d but no \\key is written" % (what, prev["key"], bm["key"], i),
                           inputs)
                if tuple(prev["meter"]) != tuple(bm["meter"]) and not ts:
                    R.fail(group, "ly-time-signature-where-changed-between-bars",
                           "%s: meter changes %r -> %r at bar %d but no \\time is written"
                           % (what, prev["meter"], bm["meter"], i), inputs)
            prev = bm

    def composition(self, group, text, cm, inputs):
        R = self.R
        quoted = [s for s in (cm["title"], cm["author"], cm["subtitle"]) if '"' in s or "\\" in s]
        if not isinstance(text, str):
            R.fail(group, "ly-decodes-under-subset-reader", "exporter returned %r" % (text,), inputs)
            return
        try:
            sc = self.ly.parse(text)
        except self.ly.LyError as e:
            if quoted:
                R.fail(group, "ly-header-title-author-subtitle", "header text %r breaks the LilyPond string: %s" % (quoted, e),
                       inputs, finding="ly-header-string-not-escaped")
            else:
                R.fail(group, "ly-decodes-under-subset-reader", "%s in %r" % (e, text[:300]), inputs)
            return
        h = sc.header
        if h is None:
            R.fail(group, "ly-header-title-author-subtitle", "no \\header block", inputs)
        else:
            bad = []
            if h.get("title") != cm["title"]:
                bad.append(("title", cm["title"], h.get("title")))
            if h.get("composer") != cm["author"]:
                bad.append(("composer", cm["author"], h.get("composer")))
            if cm["subtitle"] not in (h.get("subtitle"), h.get("opus")) and not (cm["subtitle"] == "" and "subtitle" not in h
                                                                                 and "opus" not in h):
                bad.append(("subtitle", cm["subtitle"], (h.get("subtitle"), h.get("opus"))))
            if bad:
                # known region: some field holds '"' or '\', which is pasted unescaped and shifts / alters the strings
                R.fail(group, "ly-header-title-author-subtitle", "header fields (field, given, decoded): %r" % (bad,), inputs,
                       finding="ly-header-string-not-escaped" if quoted else None)
        if len(sc.blocks) != len(cm["tracks"]):
            if quoted:
                return
            R.fail(group, "ly-tracks-in-order", "%d tracks decoded as %d top-level music blocks"
                   % (len(cm["tracks"]), len(sc.blocks)), inputs)
            return
        for i, (blk, tm) in enumerate(zip(sc.blocks, cm["tracks"])):
            self.track_block(group, blk, tm, inputs, "track %d" % i)


# ------------------------------------------------------------------------------------------------ MusicXML checks
class XmlCheck(object):
    def __init__(self, R):
        from bounded.decoders import mxml
        self.R, self.mx = R, mxml

    def export(self, group, fn, obj, cm, inputs):
        """run the exporter; classify exceptions.  -> text or None"""
        R = self.R
        bars = [b for t in cm["tracks"] for b in t["bars"]]
        try:
            return fn(obj)
        except TypeError as e:
            if any(len(b["entries"]) == 0 for b in bars) and "NoneType" in str(e):
                R.fail(group, "xml-one-numbered-measure-per-bar", "composition with an empty bar: TypeError: %s" % e, inputs,
                       finding="xml-empty-bar-typeerror")
            else:
                R.fail(group, "xml-well-formed", "unexpected TypeError: %s" % e, inputs)
        except ZeroDivisionError as e:
            if any(sum(1 for x in b["entries"] if x["spec"][0] < 1) >= 1 for b in bars):
                R.fail(group, "xml-duration-over-divisions", "bar with longa/breve: ZeroDivisionError: %s" % e, inputs,
                       finding="xml-longa-breve-zero-divisions")
            else:
                R.fail(group, "xml-well-formed", "unexpected ZeroDivisionError: %s" % e, inputs)
        except Exception as e:  # noqa
            R.fail(group, "xml-well-formed", "unexpected %s: %s" % (type(e).__name__, e), inputs)
        return None

    def document(self, group, text, cm, inputs, check_meta=True):
        R, mx = self.R, self.mx
        if not isinstance(text, str):
            R.fail(group, "xml-well-formed", "exporter returned %r" % (text,), inputs)
            return
        try:
            doc = mx.parse(text)
        except mx.ParseError as e:
            R.fail(group, "xml-well-formed", "not well-formed: %s" % e, inputs)
            return
        except mx.MxmlError as e:
            R.fail(group, "xml-well-formed", "not a score-partwise document: %s" % e, inputs)
            return
        tracks = cm["tracks"]
        # titles, authors
        if check_meta:
            if (doc["title"] or "") != cm["title"]:
                R.fail(group, "xml-titles-authors-names-unaltered", "title %r read back as %r" % (cm["title"], doc["title"]),
                       inputs)
            composers = [t for (ty, t) in doc["creators"] if ty == "composer"]
            if composers != ([cm["author"]] if cm["author"] != "" else []) and composers != [cm["author"]]:
                R.fail(group, "xml-titles-authors-names-unaltered", "author %r read back as %r" % (cm["author"], composers),
                       inputs)
        # parts <-> part list <-> tracks
        pl, parts = doc["part_list"], doc["parts"]
        if len(parts) != len(tracks) or len(pl) != len(tracks) or doc["n_part_lists"] != 1:
            R.fail(group, "xml-one-part-per-track-matching-part-list", "%d tracks -> %d <part>, %d <score-part>, %d <part-list>"
                   % (len(tracks), len(parts), len(pl), doc["n_part_lists"]), inputs)
            return
        if [p["id"] for p in parts] != [s["id"] for s in pl]:
            R.fail(group, "xml-one-part-per-track-matching-part-list", "part ids %r differ from part-list ids %r"
                   % ([p["id"] for p in parts], [s["id"] for s in pl]), inputs)
        ids = [p["id"] for p in parts]
        if any(i is None or i.strip() == "" for i in ids):
            R.fail(group, "xml-part-uniquely-identified", "part without id: %r" % (ids,), inputs)
        elif len(set(ids)) != len(ids):
            # known region: exactly the repeated Track objects share an id
            groups = {}
            for idx, t in enumerate(tracks):
                root = t["same_as"] if t.get("same_as") is not None else idx
                groups.setdefault(root, []).append(ids[idx])
            explained = all(len(set(v)) == 1 for v in groups.values()) and \
                len(set(v[0] for v in groups.values())) == len(groups)
            R.fail(group, "xml-part-uniquely-identified", "part ids are not unique: %r" % (ids,), inputs,
                   finding="xml-same-track-twice-duplicate-part-id" if explained and len(groups) < len(tracks) else None)
        for ti, (tm, sp, part) in enumerate(zip(tracks, pl, parts)):
            if check_meta:
                if (sp["name"] or "") != tm["name"]:
                    R.fail(group, "xml-titles-authors-names-unaltered", "track name %r read back as %r" % (tm["name"], sp["name"]),
                           inputs)
                if tm["instrument"] is not None:
                    got = [(i["name"] or "") for i in sp["instruments"]]
                    if got != [tm["instrument"][1]]:
                        R.fail(group, "xml-titles-authors-names-unaltered", "instrument name %r read back as %r"
                               % (tm["instrument"][1], got), inputs)
            self.part(group, part, tm, inputs, "track %d" % ti)

    def part(self, group, part, tm, inputs, what):
        R = self.R
        ms = part["measures"]
        if len(ms) != len(tm["bars"]):
            R.fail(group, "xml-one-numbered-measure-per-bar", "%s: %d bars -> %d measures" % (what, len(tm["bars"]), len(ms)),
                   inputs)
            return
        nums = [m["number"] for m in ms]
        if [n.strip() if n is not None else n for n in nums] != [str(i + 1) for i in range(len(ms))]:
            R.fail(group, "xml-one-numbered-measure-per-bar", "%s: measure numbers %r" % (what, nums), inputs)
        for bi, (m, bm) in enumerate(zip(ms, tm["bars"])):
            self.measure(group, m, bm, inputs, "%s bar %d" % (what, bi))

    def measure(self, group, m, bm, inputs, what):
        R, num = self.R, self.mx.num
        if len(m["attributes"]) != 1:
            R.fail(group, "xml-meter", "%s: %d <attributes> elements" % (what, len(m["attributes"])), inputs)
            return
        at = m["attributes"][0]
        # meter
        try:
            ok = at["n_times"] == 1 and (num(at["beats"]), num(at["beat_type"])) == tuple(Fraction(x) for x in bm["meter"])
        except self.mx.MxmlError:
            ok = False
        if not ok:
            R.fail(group, "xml-meter", "%s: meter %r written as %r/%r" % (what, bm["meter"], at["beats"], at["beat_type"]), inputs)
        # key signature and mode
        try:
            okf = at["n_keys"] == 1 and num(at["fifths"]) == key_fifths(bm["key"])
        except self.mx.MxmlError:
            okf = False
        if not okf:
            R.fail(group, "xml-key-signature-and-mode", "%s: key %r (fifths %d) written as fifths %r"
                   % (what, bm["key"], key_fifths(bm["key"]), at["fifths"]), inputs)
        if at["mode"] != key_parts(bm["key"])[2]:
            R.fail(group, "xml-key-signature-and-mode", "%s: key %r written with mode %r" % (what, bm["key"], at["mode"]), inputs)
        # expected note elements
        exp = []     # (pitch or None, chord flag, entry index, entry)
        for ei, e in enumerate(bm["entries"]):
            if not e["notes"]:
                exp.append((None, False, ei, e))
            else:
                for j, (n, o) in enumerate(e["notes"]):
                    exp.append((pitch_of(n, o), j > 0, ei, e))
        got = m["notes"]
        if len(got) != len(exp):
            R.fail(group, "xml-one-note-element-per-note-or-rest", "%s: %d notes/rests -> %d <note> elements"
                   % (what, len(exp), len(got)), inputs)
            return
        # pitch
        for i, (g, (p, _c, ei, e)) in enumerate(zip(got, exp)):
            if p is None:
                if not g["rest"] or g["has_pitch"]:
                    R.fail(group, "xml-one-note-element-per-note-or-rest", "%s entry %d: rest written as %r" % (what, ei, g), inputs)
                continue
            try:
                dec = (g["step"], int(num(g["alter"])) if g["alter"] is not None else 0, num(g["octave"]))
                okp = (not g["rest"]) and g["n_pitch"] == 1 and dec == (p[0], p[1], Fraction(p[2])) and \
                    (g["alter"] is None or num(g["alter"]).denominator == 1)
            except self.mx.MxmlError:
                okp = False
            if not okp:
                R.fail(group, "xml-step-alteration-octave", "%s entry %d: pitch %r written as step=%r alter=%r octave=%r rest=%r"
                       % (what, ei, p, g["step"], g["alter"], g["octave"], g["rest"]), inputs)
        # chord membership
        want_flags = [c for (_p, c, _ei, _e) in exp]
        got_flags = [g["chord"] for g in got]
        if got_flags != want_flags:
            # signature of the known deviation: only the last note of the last chord (>= 2 notes) of the bar is marked
            sig = [False] * len(exp)
            last = [i for i, (p, _c, _ei, e) in enumerate(exp) if p is not None and len(e["notes"]) >= 2]
            if last:
                sig[last[-1]] = True
            R.fail(group, "xml-chord-membership", "%s: chord marks %r, expected %r" % (what, got_flags, want_flags), inputs,
                   finding="xml-chord-flag-only-on-last-note" if (last and got_flags == sig) else None)
        # dots
        for g, (_p, _c, ei, e) in zip(got, exp):
            d = e["spec"][1]
            if g["dots"] != d:
                R.fail(group, "xml-dots", "%s entry %d: %d dots written as %d <dot/>" % (what, ei, d, g["dots"]), inputs,
                       finding="xml-multiple-dots-collapsed" if (d >= 2 and g["dots"] == 1) else None)
        # duration / divisions = length in quarter notes
        if not exp:
            return
        has_long = any(e["spec"][0] < 1 for e in bm["entries"])
        try:
            div = num(at["divisions"])
        except self.mx.MxmlError:
            div = None
        if div is None or div <= 0:
            R.fail(group, "xml-duration-over-divisions", "%s: divisions written as %r" % (what, at["divisions"]), inputs,
                   finding="xml-longa-breve-zero-divisions" if (has_long and div == 0) else None)
            return
        for g, (_p, _c, ei, e) in zip(got, exp):
            want = 4 * spec_whole(e["spec"])
            try:
                q = num(g["duration"]) / div if g["durations"] == 1 else None
            except self.mx.MxmlError:
                q = None
            if q != want:
                base, dots, ratio = e["spec"]
                undotted = (dots > 0 or ratio != (1, 1)) and q == Fraction(4) / base
                R.fail(group, "xml-duration-over-divisions",
                       "%s entry %d: value %r lasts %s quarter notes, duration/divisions = %r/%r = %s"
                       % (what, ei, e["spec"], want, g["duration"], at["divisions"], q), inputs,
                       finding="xml-duration-ignores-dots-and-tuplets" if undotted else None)


# ------------------------------------------------------------------------------------------------ generators
def rnd_notes(rnd, k):
    """k notes with pairwise different pitch numbers (NoteContainer drops equal pitches)"""
    out, seen = [], set()
    tries = 0
    while len(out) < k and tries < 200:
        tries += 1
        n, o = rnd.choice(NAMES), rnd.choice(OCTAVES)
        p = 12 * o + {"C": 0, "D": 2, "E": 4, "F": 5, "G": 7, "A": 9, "B": 11}[n[0]] + n[1:].count("#") - n[1:].count("b")
        if p in seen:
            continue
        seen.add(p)
        out.append((n, o))
    return out


def rnd_entry(rnd, V, specs=SPECS, rest_p=0.2):
    spec = rnd.choice(specs)
    number = rnd.choice(spec_forms(spec, V))
    if rnd.random() < rest_p:
        return (None if rnd.random() < 0.6 else [], spec, number)
    k = rnd.choice((1, 1, 1, 2, 3, 3, 4, 5))
    return (rnd_notes(rnd, k), spec, number)


def rnd_bar_desc(rnd, V, meters, specs=SPECS, maxlen=8, empty_p=0.05):
    key, meter = rnd.choice(KEYS), rnd.choice(meters)
    if rnd.random() < empty_p:
        return (key, meter, [])
    room = Fraction(meter[0], meter[1])
    entries = []
    n = rnd.randint(1, maxlen)
    tries = 0
    while len(entries) < n and tries < 40:
        tries += 1
        e = rnd_entry(rnd, V, specs)
        w = spec_whole(e[1])
        if w <= room:
            entries.append(e)
            room -= w
    # keep a safety margin for the library's float bookkeeping: entries that do not fit are dropped by Builder.bar
    return (key, meter, entries)


SHORT_SPECS = [s for s in SPECS if s[0] >= 1]
PLAIN_SPECS = [s for s in SPECS if s[0] >= 1 and s[1] == 0 and s[2] == (1, 1)]


def _fixed_ids():
    import json
    import os
    from bounded.drv import VERIF
    try:
        with open(os.path.join(VERIF, "known_findings.json")) as f:
            return set(x.get("id") for x in json.load(f).get("fixed", []) if x.get("id"))
    except (OSError, ValueError):
        return set()


# ------------------------------------------------------------------------------------------------ run
def run(tier, seed):
    import mingus.extra.lilypond as L
    import mingus.extra.musicxml as X
    R = Recorder("C19", tier, seed)
    # proposed findings count as known until they are copied into known_findings.json (ids recorded there as
    # fixed are not re-proposed, so a regression of a fixed deviation is reported as a violation)
    fixed_ids = _fixed_ids()
    for f in PROPOSED_FINDINGS:
        R.known.append(f) if f["id"] not in [k.get("id") for k in R.known] and f["id"] not in fixed_ids else None
    rnd = random.Random(seed)
    quick = tier == "quick"
    N_NC, N_BAR, N_TRACK, N_COMP, N_WRAP = (1500, 4000, 1500, 700, 100) if quick else (30000, 80000, 30000, 22000, 2500)
    B = Builder()
    V = B.V
    LY = LyCheck(R)
    XM = XmlCheck(R)
    dens = (1, 2, 4, 8, 16, 32, 64, 128)
    if quick:
        meters = [(n, d) for d in (1, 2, 4, 8, 16, 128) for n in (1, 2, 3, 4, 5, 6, 7, 9, 12)]
    else:
        meters = [(n, d) for d in dens for n in range(1, 25)]
    big_meters = [(4, 4), (3, 4), (6, 8), (2, 2), (5, 4), (7, 8), (12, 8), (4, 2), (8, 2), (16, 2), (9, 1)]

    def fit_meter(whole):
        for m in ((4, 4), (4, 2), (8, 2), (16, 2), (32, 2), (64, 2)):
            if whole <= Fraction(m[0], m[1]):
                return m
        raise AssertionError(whole)

    # ---------------- LilyPond: from_Note (exhaustive: 35 names x octaves 0..8 x standalone)
    g = "lilypond.from_Note"
    for name in NAMES:
        for o in OCTAVES:
            for standalone in (True, False):
                R.case(g, (name, o, standalone))
                inputs = {"note": (name, o), "standalone": standalone}
                ok, text = R.guard(g, "ly-decodes-under-subset-reader", inputs,
                                   lambda: L.from_Note(B.Note(name, o), standalone=standalone))
                if not ok:
                    continue
                sc = LY.parse(g, text if standalone else "{ %s }" % text, inputs)
                if sc is None:
                    continue
                evs = sc.blocks[0].items if len(sc.blocks) == 1 else []
                if sc.header is not None or len(evs) != 1 or not isinstance(evs[0], LY.ly.Event):
                    R.fail(g, "ly-chords-and-rests-in-order", "a single note decoded as %r" % (sc.blocks,), inputs)
                    continue
                LY.event(g, evs[0], Fraction(1), [(name, o)], None, inputs, "note")

    # ---------------- LilyPond: from_NoteContainer
    g = "lilypond.from_NoteContainer"

    def nc_case(notes, spec, number, standalone):
        R.case(g, (tuple(notes) if notes is not None else None, number, standalone))
        inputs = {"notes": notes, "duration": number, "standalone": standalone}
        if notes is None:
            nc, held = None, None
        else:
            nc, held = B.container(notes)
        ok, text = R.guard(g, "ly-decodes-under-subset-reader", inputs,
                           lambda: L.from_NoteContainer(nc, number, standalone=standalone))
        if not ok:
            return
        sc = LY.parse(g, text if standalone else "{ %s }" % text, inputs)
        if sc is None:
            return
        evs = sc.blocks[0].items if len(sc.blocks) == 1 else []
        if sc.header is not None or len(evs) != 1 or not isinstance(evs[0], LY.ly.Event):
            R.fail(g, "ly-chords-and-rests-in-order", "one container decoded as %r" % (sc.blocks,), inputs)
            return
        # a bare container has no \times bracket: the tuplet ratio is an attribute of bar entries (checked there)
        LY.event(g, evs[0], Fraction(1), held, spec, inputs, "container", check_ratio=False)

    for spec in SPECS:                       # every value x every form x {note, rest, None, chord}
        for number in spec_forms(spec, V):
            for notes in ([("C", 4)], [], None, [("C", 4), ("Eb", 4), ("G#", 5)]):
                for standalone in (True, False):
                    nc_case(notes, spec, number, standalone)
    for name in NAMES:                       # every name x octave as a single note and inside a chord, no duration
        for o in OCTAVES:
            nc_case([(name, o)], None, None, True)
            other = ("G", 8) if o < 5 else ("D", 0)
            nc_case([(name, o), other], None, None, False)
    for _ in range(N_NC):  # random chords of 1-5 notes with random values
        k = rnd.randint(1, 5)
        spec = rnd.choice(SPECS)
        nc_case(rnd_notes(rnd, k), spec, rnd.choice(spec_forms(spec, V)), rnd.random() < 0.5)

    # ---------------- LilyPond: from_Bar
    g = "lilypond.from_Bar"

    def bar_case(desc, showkey=True, showtime=True, rest_as_empty=False, default_args=False):
        ok, bb = R.guard(g, "ly-decodes-under-subset-reader", desc, lambda: B.bar(desc[0], desc[1], desc[2], rest_as_empty))
        if not ok:
            return
        b, bm = bb
        inputs = {"bar": describe_bar(bm), "showkey": showkey, "showtime": showtime}
        R.case(g, repr(inputs))
        ok, text = R.guard(g, "ly-decodes-under-subset-reader", inputs,
                           (lambda: L.from_Bar(b)) if default_args else (lambda: L.from_Bar(b, showkey, showtime)))
        if not ok:
            return
        sc = LY.parse(g, text, inputs)
        if sc is None:
            return
        if sc.header is not None or len(sc.blocks) != 1:
            R.fail(g, "ly-chords-and-rests-in-order", "one bar decoded as %d blocks" % len(sc.blocks), inputs)
            return
        LY.bar_items(g, sc.blocks[0].items, bm, inputs, "required" if showkey else "free",
                     "required" if showtime else "free")
        # the bar is edited in a way that leaves its beat count alone (every chord replaced by the same names an octave
        # away) and rendered again: the second text is the text of the bar as it is NOW
        if not any(e["notes"] for e in bm["entries"]):
            return
        bm2 = dict(bm, entries=[dict(e) for e in bm["entries"]])
        for i, e in enumerate(bm2["entries"]):
            if e["notes"]:
                moved = [(n, o + 1 if o < 8 else o - 1) for (n, o) in e["notes"]]
                nc, held = B.container(moved)
                b[i] = nc
                e["notes"] = held
        inputs2 = dict(inputs, then="every chord replaced by its names an octave away, rendered again")
        ok, text2 = R.guard(g, "ly-decodes-under-subset-reader", inputs2,
                            (lambda: L.from_Bar(b)) if default_args else (lambda: L.from_Bar(b, showkey, showtime)))
        if not ok:
            return
        sc2 = LY.parse(g, text2, inputs2)
        if sc2 is None:
            return
        if sc2.header is not None or len(sc2.blocks) != 1:
            R.fail(g, "ly-chords-and-rests-in-order", "one bar decoded as %d blocks" % len(sc2.blocks), inputs2)
            return
        LY.bar_items(g, sc2.blocks[0].items, bm2, inputs2, "required" if showkey else "free",
                     "required" if showtime else "free")

    one = [([("C", 4)], (Fraction(4), 0, (1, 1)), 4)]
    for key in KEYS:                          # all 30 keys x meters x show flags (one note, and empty bars)
        for meter in meters:
            for (sk, st) in ((True, True), (True, False), (False, True), (False, False)):
                bar_case((key, meter, one if meter[0] * 4 >= meter[1] else []), sk, st)
        bar_case((key, (4, 4), []), default_args=True)
        bar_case((key, (4, 4), one), default_args=True)
    for spec in SPECS:                        # every value x form as single entry: note, chord, rest (both forms)
        for number in spec_forms(spec, V):
            m = fit_meter(spec_whole(spec))
            bar_case(("C", m, [([("F#", 3)], spec, number)]))
            bar_case(("a", m, [([("Bb", 2), ("D", 3), ("F##", 4)], spec, number)]), False, True)
            bar_case(("Eb", m, [(None, spec, number)]), True, False)
            bar_case(("f#", m, [(None, spec, number)]), False, False, rest_as_empty=True)
    base_pairs = [(b1, b2) for b1 in BASES for b2 in BASES]
    if quick:
        base_pairs = base_pairs[3::9]
    for (b1, b2) in base_pairs:               # every ordered pair of value kinds (dot / tuplet transitions)
        for (k1, k2) in itertools.product(KINDS, repeat=2):
            s1, s2 = (b1, k1[0], k1[1]), (b2, k2[0], k2[1])
            m = fit_meter(spec_whole(s1) + spec_whole(s2))
            bar_case(("G", m, [([("A", 4)], s1, float(spec_number(s1))), ([("B", 4), ("D", 5)], s2, float(spec_number(s2)))]))
    ratio_kinds = [(0, (1, 1)), (0, (3, 2)), (0, (5, 4)), (0, (7, 4)), (1, (1, 1))]
    for ks in itertools.product(ratio_kinds, repeat=3 if quick else 4):   # tuplet bracket open/close sequences
        ents = []
        for i, k in enumerate(ks):
            s = (Fraction(8), k[0], k[1])
            ents.append(([("C", 4 + i % 2)] if i != 1 else None, s, float(spec_number(s))))
        bar_case(("D", (4, 4), ents))
    for name in NAMES:                        # every name x octave inside a bar (single and in a chord)
        for o in OCTAVES:
            bar_case(("C", (4, 4), [([(name, o)], (Fraction(4), 0, (1, 1)), 4),
                                    ([(name, o), ("G", 8) if o < 5 else ("D", 0)], (Fraction(2), 1, (1, 1)), 4 / 3.0)]))
    for _ in range(N_BAR):  # random bars
        bar_case(rnd_bar_desc(rnd, V, meters + big_meters * 4), rnd.random() < 0.7, rnd.random() < 0.7,
                 rest_as_empty=rnd.random() < 0.3)

    # ---------------- LilyPond: from_Track
    g = "lilypond.from_Track"

    def make_track(bars_desc):
        t = B.Track()
        tm = {"name": "Untitled", "instrument": None, "bars": [], "same_as": None}
        for d in bars_desc:
            b, bm = B.bar(d[0], d[1], d[2])
            t.add_bar(b)
            tm["bars"].append(bm)
        return t, tm

    def track_case(bars_desc):
        ok, tt = R.guard(g, "ly-decodes-under-subset-reader", bars_desc, lambda: make_track(bars_desc))
        if not ok:
            return
        t, tm = tt
        inputs = {"track": [describe_bar(b) for b in tm["bars"]]}
        R.case(g, repr(inputs))
        ok, text = R.guard(g, "ly-decodes-under-subset-reader", inputs, lambda: L.from_Track(t))
        if not ok:
            return
        sc = LY.parse(g, text, inputs)
        if sc is None:
            return
        if sc.header is not None or len(sc.blocks) != 1:
            R.fail(g, "ly-bars-in-order", "one track decoded as %d blocks" % len(sc.blocks), inputs)
            return
        LY.track_block(g, sc.blocks[0], tm, inputs)

    track_case([])
    for (k1, k2) in itertools.product(KEYS, repeat=2):          # all ordered key pairs, then back / stay
        k3 = k1 if (KEYS.index(k1) + KEYS.index(k2)) % 2 else k2
        track_case([(k1, (4, 4), one), (k2, (4, 4), one if k2 != "Gb" else []), (k3, (4, 4), one)])
    mlist = meters if quick else meters[::3] + [(4, 4), (3, 4), (6, 8)]
    mlist = mlist[:30] if quick else mlist
    for (m1, m2) in itertools.product(mlist, repeat=2):         # ordered meter pairs, then back / stay
        m3 = m1 if (m1[0] + m2[0]) % 2 else m2
        track_case([("C", m1, []), ("C", m2, [(None, (Fraction(128), 0, (1, 1)), 128)]), ("C", m3, [])])
    for _ in range(N_TRACK):                     # random tracks; keys / meters repeat often
        nk = rnd.sample(KEYS, 2) + ["C"]
        nm = rnd.sample(meters + big_meters, 2) + [(4, 4)]
        bars = []
        for _i in range(rnd.randint(0, 6)):
            d = rnd_bar_desc(rnd, V, nm, maxlen=4)
            bars.append((rnd.choice(nk), d[1], d[2]))
        track_case(bars)

    # ---------------- compositions (LilyPond + MusicXML)
    gl, gx = "lilypond.from_Composition", "musicxml.from_Composition"

    def comp_case(desc, ly=True, xml=True, check_meta=True):
        ok, cc = R.guard(gx, "xml-well-formed", desc, lambda: B.composition(desc))
        if not ok:
            return
        c, cm = cc
        inputs = describe_comp(cm)
        if ly:
            R.case(gl, repr(inputs))
            ok, text = R.guard(gl, "ly-decodes-under-subset-reader", inputs, lambda: L.from_Composition(c))
            if ok:
                LY.composition(gl, text, cm, inputs)
        if xml:
            R.case(gx, repr(inputs))
            text = XM.export(gx, X.from_Composition, c, cm, inputs)
            if text is not None:
                XM.document(gx, text, cm, inputs, check_meta)
        return c, cm

    def tdesc(bars, name="Untitled", instrument=None, same_as=None):
        return {"name": name, "instrument": instrument, "bars": bars, "same_as": same_as}

    def cdesc(tracks, title="Untitled", subtitle="", author=""):
        return {"title": title, "subtitle": subtitle, "author": author, "tracks": tracks}

    simple_bar = ("C", (4, 4), one)
    # titles / authors / subtitles / track names / instrument names with markup characters
    for i, s in enumerate(TITLES):
        s2 = TITLES[(i + 5) % len(TITLES)]
        s3 = TITLES[(i + 9) % len(TITLES)]
        comp_case(cdesc([tdesc([simple_bar], name=s2, instrument=("plain", s3)),
                         tdesc([simple_bar], name=s, instrument=("midi", s2))], title=s, subtitle=s3, author=s2))
        comp_case(cdesc([tdesc([simple_bar], name=s3 or "x", instrument=None)], title=s2, subtitle=s, author=s))
    for s in QUOTED:
        comp_case(cdesc([tdesc([simple_bar], name=s, instrument=("plain", s))], title=s, author="A"))
        comp_case(cdesc([tdesc([simple_bar])], title="T", author=s), xml=True)
        comp_case(cdesc([tdesc([simple_bar])], title="T", subtitle=s), xml=False)
    # the same Bar object more than once in a track (A B A, A A, A B B A): every occurrence is a bar of the output
    bar_b = ("G", (3, 4), [([("D", 4)], (Fraction(4), 0, (1, 1)), 4)] * 3)
    for form in ([0, ("same", 0)], [0, 1, ("same", 0)], [0, 1, ("same", 1), ("same", 0)], [0, ("same", 0), ("same", 0)]):
        bars_f = [simple_bar if x == 0 else bar_b if x == 1 else x for x in form]
        comp_case(cdesc([tdesc(bars_f)]))
        comp_case(cdesc([tdesc(bars_f), tdesc([bar_b])]))
    # structure: 0..4 tracks x 0..3 bars; the same Track object twice
    for nt in range(0, 5):
        for nb in range(0, 4):
            comp_case(cdesc([tdesc([(KEYS[(3 * t + b) % 30], (3 + b, 4), one) for b in range(nb)], name="T%d" % t)
                             for t in range(nt)], title="S", author="me"))
    comp_case(cdesc([tdesc([simple_bar]), tdesc(None, same_as=0)]), ly=True)
    # a track and a copy of it (deep, shallow) are two tracks: two parts, each with its own id
    for deep in (True, False):
        comp_case(cdesc([tdesc([simple_bar], name="voice"), dict(tdesc(None), copy_of=0, deep=deep)]))
        comp_case(cdesc([tdesc([simple_bar], name="a"), tdesc([("G", (3, 4), one)], name="b"), dict(tdesc(None), copy_of=1, deep=deep),
                         dict(tdesc(None), copy_of=0, deep=deep)]))
    comp_case(cdesc([tdesc([simple_bar], name="a"), tdesc([("G", (3, 4), one)], name="b"), tdesc(None, same_as=0),
                     tdesc(None, same_as=1)]))
    # empty bars (alone, between full bars)
    comp_case(cdesc([tdesc([("C", (4, 4), [])])]))
    comp_case(cdesc([tdesc([simple_bar, ("F", (3, 4), []), simple_bar])]))
    # MusicXML systematic: every key x meter (measure attributes)
    for key in KEYS:
        for chunk in range(0, len(meters), 12):
            comp_case(cdesc([tdesc([(key, m, [(None, (Fraction(128), 0, (1, 1)), 128)]) for m in meters[chunk:chunk + 12]])]),
                      ly=False)
    # every name x octave: alone, as first / middle / last note of chords.  MusicXML has an alteration for EVERY legal
    # name, so the mixed spellings (no LilyPond name, hence not in NAMES) are included here: alter = sharps - flats
    for name in NAMES + ["C#b", "Eb#", "F#b", "Gb#", "A##b", "Bb#b", "D#b#"]:
        bars = []
        for o in OCTAVES:
            hi, lo = ("G", 8) if o < 5 else ("D", 0), ("E", 8) if o < 5 else ("F", 0)
            bars.append(("C", (4, 4), [([(name, o)], (Fraction(4), 0, (1, 1)), 4), ([(name, o), hi], (Fraction(4), 0, (1, 1)), 4.0),
                                       ([(name, o), hi, lo], (Fraction(2), 0, (1, 1)), 2)]))
        comp_case(cdesc([tdesc(bars)]), ly=False)
    # every value x form: note, chord, rest; alone and next to a plain quarter
    for spec in SPECS:
        for number in spec_forms(spec, V):
            m = fit_meter(spec_whole(spec) + Fraction(1, 4))
            q = ([("E", 4)], (Fraction(4), 0, (1, 1)), 4)
            comp_case(cdesc([tdesc([("C", m, [([("F#", 3)], spec, number)]),
                                    ("C", m, [(None, spec, number), q]),
                                    ("C", m, [q, ([], spec, number)]),
                                    ("C", m, [q, ([("Bb", 2), ("D", 3)], spec, number)])])]), ly=False)
    # chord-size sequences: every sequence of length 1..3 (quick) / 1..4 over sizes {rest, 1, 2, 3, 5}
    sizes = (0, 1, 2, 3, 5)
    for ln in range(1, 4 if quick else 5):
        for seq in itertools.product(sizes, repeat=ln):
            ents = []
            for i, k in enumerate(seq):
                notes = (None if i % 2 == 0 else []) if k == 0 else [("CEGBD"[j], 3 + i % 2 + j // 3) for j in range(k)]
                ents.append((notes, (Fraction(8), 0, (1, 1)), 8))
            comp_case(cdesc([tdesc([("C", (4, 4), ents)])]), ly=False)
    # plain-valued bars mixing all bases (divisions must suit every entry of the measure)
    for r in range(2, 4 if quick else 5):
        for combo in itertools.combinations([s for s in PLAIN_SPECS], r):
            ents = [([("C", 4)], s, int(spec_number(s))) for s in combo]
            comp_case(cdesc([tdesc([("C", (8, 4), ents), ("C", (8, 4), list(reversed(ents)))])]), ly=False)
    # random compositions
    inst_names = TITLES + ["Piano", "Guitar"]
    for it in range(N_COMP):
        mode = it % 4      # 0: plain values only, 1: values >= whole note base (no longa/breve), 2/3: everything
        specs = PLAIN_SPECS if mode == 0 else SHORT_SPECS if mode == 1 else SPECS
        tracks = []
        for _t in range(rnd.randint(0, 3)):
            bars = [rnd_bar_desc(rnd, V, meters + big_meters * 4, specs, maxlen=6, empty_p=0.0 if mode < 3 else 0.05)
                    for _b in range(rnd.randint(0, 4))]
            inst = None if rnd.random() < 0.4 else (rnd.choice(("plain", "midi")), rnd.choice(inst_names))
            tracks.append(tdesc(bars, name=rnd.choice(TITLES), instrument=inst))
        comp_case(cdesc(tracks, title=rnd.choice(TITLES), subtitle=rnd.choice(TITLES), author=rnd.choice(TITLES)))

    # ---------------- MusicXML wrappers from_Track / from_Bar (a composition of one track / one bar)
    gw = "musicxml.from_Track/from_Bar"
    for it in range(N_WRAP):
        d = rnd_bar_desc(rnd, V, big_meters, PLAIN_SPECS if it % 2 else SHORT_SPECS, maxlen=5, empty_p=0.0)
        b, bm = B.bar(d[0], d[1], d[2])
        if not bm["entries"]:
            continue
        t = B.Track()
        t.add_bar(b)
        cm = {"title": "Untitled", "subtitle": "", "author": "",
              "tracks": [{"name": "Untitled", "instrument": None, "bars": [bm], "same_as": None}]}
        for fn, obj in ((X.from_Track, t), (X.from_Bar, b)):
            R.case(gw, (fn.__name__, repr(describe_bar(bm))))
            text = XM.export(gw, fn, obj, cm, describe_bar(bm))
            if text is not None:
                XM.document(gw, text, cm, describe_bar(bm))

    # ---------------- MusicXML write_Composition: the file holds exactly the text, also when it replaces a longer file
    gf = "musicxml.write_Composition"
    import tempfile, shutil, os as _os
    tmpd = tempfile.mkdtemp(prefix="c19-")
    try:
        long_c, _m1 = B.composition(cdesc([tdesc([simple_bar, ("G", (3, 4), one), simple_bar], name="a"), tdesc([simple_bar], name="b")],
                                          title="A long title " * 5))
        short_c, _m2 = B.composition(cdesc([tdesc([simple_bar])], title="T"))
        base = _os.path.join(tmpd, "piece")
        for label, comp in (("first write", long_c), ("a shorter piece over it", short_c), ("the long one again", long_c)):
            R.case(gf, label)
            ok, _r = R.guard(gf, "xml-well-formed", label, lambda: X.write_Composition(comp, base))
            if not ok:
                continue
            with open(base + ".xml") as fh:
                got = fh.read()
            want = X.from_Composition(comp)
            if got != want:
                R.fail(gf, "xml-well-formed", "%s: the file holds %d characters, from_Composition gives %d (tail %r)"
                       % (label, len(got), len(want), got[-60:]), label)
    finally:
        shutil.rmtree(tmpd, ignore_errors=True)

    R.assumptions.append("names are the 35 spellings with 0-2 like accidentals; mixed spellings such as 'C#b' have no "
                         "LilyPond note name and are outside the quantifier")
    R.assumptions.append("a NoteContainer exported on its own has no \\times bracket; the tuplet ratio is checked on bar "
                         "entries (from_Bar / from_Track / from_Composition), base value and dots on both")
    R.assumptions.append("the first bar of a track: key / meter are checked where written; the statement does not require "
                         "them to be written there (LilyPond defaults C major, 4/4 are what the exporter assumes)")
    R.assumptions.append("meter (0, 0), values outside the vocabulary, control characters in titles, to_pdf / to_png and "
                         "musicxml.from_Note and the compressed (.mxl) form of write_Composition are not exercised; XML schema element order is not checked")
    return R.result(
        rule="LilyPond: from_Note 35 names x octaves 0-8 x standalone (exhaustive); from_NoteContainer 80 values "
             "(10 bases longa..128 x {plain, 1-4 dots, 3:2, 5:4, 7:4}) x float/int/library-built forms x {note, rest, None, chord} "
             "+ %d random chords of 1-5 notes; from_Bar 30 keys x %d meters x 4 show-flag settings, every value as note/chord/"
             "rest, ordered pairs of the 8 value kinds over %d base pairs, all %d-sequences of 5 tuplet/dot kinds, every "
             "name x octave, %d random bars; from_Track all 900 ordered key pairs, %d ordered meter pairs, %d random tracks; "
             "compositions: %d titles with markup x fields, 5 quoted titles, 0-4 tracks x 0-3 bars, repeated Track object, "
             "empty bars, MusicXML 30 keys x %d meters, 35 names x 9 octaves x chord positions, every value x form, all "
             "chord-size sequences up to length %d over {rest,1,2,3,5}, all 2..%d-subsets of the 8 plain bases, %d random "
             "compositions (0-3 tracks x 0-4 bars x <= 6 entries); seed %d"
             % (N_NC, len(meters), len(base_pairs), 3 if quick else 4, N_BAR,
                len(mlist) ** 2, N_TRACK, len(TITLES), len(meters), 3 if quick else 4, 3 if quick else 4,
                N_COMP, seed),
        exhaustive=False)
