"""C18 bounded stand-in: sequencer playback (real Sequencer code, recording subclass + recording observers)
compared with an independent event model built from exact Fractions.

The model knows nothing about the library's scheduler: a piece is described by plain tuples

    note  = (name, octave, channel, velocity)
    entry = (value, notes, bpm)      value: Fraction (4 = quarter, 8/3 = dotted quarter, 6 = quarter triplet)
                                     notes: None (rest) | tuple of notes (maybe empty) ; bpm: None | number
    bar   = (meter, [entry, ...])

and the expected result is a set of sounding intervals (onset s, end s, pitch + 12, channel, velocity) in seconds,
with 240/bpm seconds per whole note and tempo changes taking effect at the onset of the container that carries
them.  The recorded stream is turned into a time line (cumulative sleep) and compared with it.
"""
import random
from collections import Counter
from fractions import Fraction as F

from bounded.drv import Recorder

PID = "C18"

PROPOSED_FINDINGS = [
    dict(property=PID, id="parallel-unequal-rhythms",
         function="mingus.midi.sequencer.Sequencer.play_Bars",
         clause="exactly-one-play-event / nothing-left-sounding / nothing-stopped-that-was-not-started / total-time-slept",
         region="bars (or the bars of tracks at one bar line) played together whose onsets differ: some entry (notes "
                "or rest) of one bar is still running at an onset of another bar; everything before the first such "
                "onset is still checked",
         what="play_Bars (hence play_Tracks, play_Composition) re-plays every bar's current container at each onset "
              "of any bar (start_tick <= tick also holds for a container that is still sounding), derives the step "
              "from the newly played containers only and advances a bar's cursor once per stale copy: a half note "
              "against two quarters is played twice and stopped three times, longer mixes skip notes, sleep for more "
              "than the bar or return {} (which makes play_Tracks give up)",
         witness_code=(
             "from mingus.midi.sequencer import Sequencer\n"
             "from mingus.containers import Bar\n"
             "class S(Sequencer):\n"
             "    def init(self): self.ev = []\n"
             "    def play_event(self, n, c, v): self.ev.append(('play', n))\n"
             "    def stop_event(self, n, c): self.ev.append(('stop', n))\n"
             "    def sleep(self, s): self.ev.append(('sleep', s))\n"
             "a = Bar(); a.place_notes('C-4', 2); a.place_notes('D-4', 2)\n"
             "b = Bar(); [b.place_notes('E-5', 4) for i in range(4)]\n"
             "s = S(); s.play_Bars([a, b], [1, 2], 120)\n"
             "observed = s.ev\n"
             "holds = [e for e in s.ev if e[0] == 'play' and e[1] == 60] == [('play', 60)] and "
             "len([e for e in s.ev if e == ('stop', 60)]) == 1\n")),
    dict(property=PID, id="parallel-partial-bar-replayed",
         function="mingus.midi.sequencer.Sequencer.play_Bars",
         clause="exactly-one-play-event / total-time-slept",
         region="play_Bars / play_Tracks / play_Composition with a bar whose entries do not fill its meter",
         what="play_Bars loops until tick reaches bars[0].length and never moves the cursor past the last entry, "
              "so the last container of a bar that is not full is played again and again until the meter is "
              "used up (one quarter note in a 4/4 bar is played four times); Track.add_notes leaves such a last bar",
         witness_code=(
             "from mingus.midi.sequencer import Sequencer\n"
             "from mingus.containers import Track\n"
             "class S(Sequencer):\n"
             "    def init(self): self.ev = []\n"
             "    def play_event(self, n, c, v): self.ev.append(('play', n))\n"
             "    def stop_event(self, n, c): self.ev.append(('stop', n))\n"
             "    def sleep(self, s): self.ev.append(('sleep', s))\n"
             "t = Track(); t.add_notes('C-4', 4)\n"
             "s = S(); s.play_Tracks([t], [1], 120)\n"
             "observed = s.ev\n"
             "holds = len([e for e in s.ev if e == ('play', 60)]) == 1\n")),
    dict(property=PID, id="parallel-float-tick-shortfall",
         function="mingus.midi.sequencer.Sequencer.play_Bars",
         clause="exactly-one-play-event / total-time-slept",
         region="play_Bars / play_Tracks / play_Composition with full bars whose float steps 1.0/value add up to "
                "less than the float bar length (e.g. six quarter triplets: 6 * (1.0/6) < 1.0)",
         what="the loop 'while tick < bars[0].length' adds 1.0/value floats; when the sum stays one ulp below the "
              "bar length the body runs once more and replays the last container (six quarter-triplets in 4/4: the "
              "sixth is played twice and the bar lasts 7/6 of its length)",
         witness_code=(
             "from mingus.midi.sequencer import Sequencer\n"
             "from mingus.containers import Bar\n"
             "class S(Sequencer):\n"
             "    def init(self): self.ev = []\n"
             "    def play_event(self, n, c, v): self.ev.append(('play', n))\n"
             "    def stop_event(self, n, c): self.ev.append(('stop', n))\n"
             "    def sleep(self, s): self.ev.append(('sleep', s))\n"
             "b = Bar()\n"
             "for x in ['C-4', 'D-4', 'E-4', 'F-4', 'G-4', 'A-4']: assert b.place_notes(x, 6)\n"
             "s = S(); s.play_Bars([b], [1], 120)\n"
             "observed = s.ev\n"
             "holds = len([e for e in s.ev if e[0] == 'play']) == 6 and "
             "abs(sum(e[1] for e in s.ev if e[0] == 'sleep') - 2.0) < 1e-9\n")),
    dict(property=PID, id="tracks-unequal-bar-count",
         function="mingus.midi.sequencer.Sequencer.play_Tracks",
         clause="exactly-one-play-event",
         region="play_Tracks / play_Composition with tracks that do not all have the same number of bars",
         what="play_Tracks plays len(tracks[0]) bar groups: the bars of a longer later track are never played, and "
              "a shorter later track raises IndexError in the middle of playback (notes of the group before are "
              "balanced, the rest of the music is lost)",
         witness_code=(
             "from mingus.midi.sequencer import Sequencer\n"
             "from mingus.containers import Track, Bar\n"
             "class S(Sequencer):\n"
             "    def init(self): self.ev = []\n"
             "    def play_event(self, n, c, v): self.ev.append(('play', n))\n"
             "def tr(names):\n"
             "    t = Track()\n"
             "    for x in names:\n"
             "        b = Bar(); b.place_notes(x, 1); t.add_bar(b)\n"
             "    return t\n"
             "s = S(); s.play_Tracks([tr(['C-4']), tr(['E-5', 'G-5'])], [1, 2], 120)\n"
             "observed = s.ev\n"
             "holds = ('play', 12 + 5 * 12 + 7) in s.ev\n")),
]

BASE = {"C": 0, "D": 2, "E": 4, "F": 5, "G": 7, "A": 9, "B": 11}
TOL = F(1, 10 ** 9)

# a few General MIDI programs (0-based, as sent on the wire) used as an anchor for "the MIDI instrument's program"
# General MIDI level 1 sound set, program numbers 0..127 in order (the standard's list in the spelling mingus uses;
# checked once against the standard's families: 8 per family, piano, chromatic percussion, organ, guitar, bass,
# strings, ensemble, brass, reed, pipe, synth lead, synth pad, synth effects, ethnic, percussive, sound effects)
GM_STANDARD = [
    'Acoustic Grand Piano', 'Bright Acoustic Piano', 'Electric Grand Piano', 'Honky-tonk Piano',
    'Electric Piano 1', 'Electric Piano 2', 'Harpsichord', 'Clavi', 'Celesta', 'Glockenspiel', 'Music Box',
    'Vibraphone', 'Marimba', 'Xylophone', 'Tubular Bells', 'Dulcimer', 'Drawbar Organ', 'Percussive Organ',
    'Rock Organ', 'Church Organ', 'Reed Organ', 'Accordion', 'Harmonica', 'Tango Accordion',
    'Acoustic Guitar (nylon)', 'Acoustic Guitar (steel)', 'Electric Guitar (jazz)', 'Electric Guitar (clean)',
    'Electric Guitar (muted)', 'Overdriven Guitar', 'Distortion Guitar', 'Guitar harmonics', 'Acoustic Bass',
    'Electric Bass (finger)', 'Electric Bass (pick)', 'Fretless Bass', 'Slap Bass 1', 'Slap Bass 2',
    'Synth Bass 1', 'Synth Bass 2', 'Violin', 'Viola', 'Cello', 'Contrabass', 'Tremolo Strings',
    'Pizzicato Strings', 'Orchestral Harp', 'Timpani', 'String Ensemble 1', 'String Ensemble 2',
    'SynthStrings 1', 'SynthStrings 2', 'Choir Aahs', 'Voice Oohs', 'Synth Voice', 'Orchestra Hit', 'Trumpet',
    'Trombone', 'Tuba', 'Muted Trumpet', 'French Horn', 'Brass Section', 'SynthBrass 1', 'SynthBrass 2',
    'Soprano Sax', 'Alto Sax', 'Tenor Sax', 'Baritone Sax', 'Oboe', 'English Horn', 'Bassoon', 'Clarinet',
    'Piccolo', 'Flute', 'Recorder', 'Pan Flute', 'Blown Bottle', 'Shakuhachi', 'Whistle', 'Ocarina',
    'Lead1 (square)', 'Lead2 (sawtooth)', 'Lead3 (calliope)', 'Lead4 (chiff)', 'Lead5 (charang)',
    'Lead6 (voice)', 'Lead7 (fifths)', 'Lead8 (bass + lead)', 'Pad1 (new age)', 'Pad2 (warm)',
    'Pad3 (polysynth)', 'Pad4 (choir)', 'Pad5 (bowed)', 'Pad6 (metallic)', 'Pad7 (halo)', 'Pad8 (sweep)',
    'FX1 (rain)', 'FX2 (soundtrack)', 'FX 3 (crystal)', 'FX 4 (atmosphere)', 'FX 5 (brightness)',
    'FX 6 (goblins)', 'FX 7 (echoes)', 'FX 8 (sci-fi)', 'Sitar', 'Banjo', 'Shamisen', 'Koto', 'Kalimba',
    'Bag pipe', 'Fiddle', 'Shanai', 'Tinkle Bell', 'Agogo', 'Steel Drums', 'Woodblock', 'Taiko Drum',
    'Melodic Tom', 'Synth Drum', 'Reverse Cymbal', 'Guitar Fret Noise', 'Breath Noise', 'Seashore',
    'Bird Tweet', 'Telephone Ring', 'Helicopter', 'Applause', 'Gunshot',
]
assert len(GM_STANDARD) == 128 and len(set(GM_STANDARD)) == 128
GM_ANCHORS = {"Acoustic Grand Piano": 0, "Harpsichord": 6, "Church Organ": 19, "Violin": 40, "Trumpet": 56,
              "Flute": 73, "Gunshot": 127}


# ----------------------------------------------------------------------------------------------------------------
# model
# ----------------------------------------------------------------------------------------------------------------
def pitch(note):
    name, octave = note[0], note[1]
    return 12 * octave + BASE[name[0]] + name[1:].count("#") - name[1:].count("b")


def spell(rnd, p):
    """a random (name, octave) with pitch number p (natural, one sharp or one flat, incl. B#, Cb, E#, Fb)"""
    opts = []
    for letter, b in BASE.items():
        for acc, suf in ((0, ""), (1, "#"), (-1, "b")):
            if (p - b - acc) % 12 == 0 and (p - b - acc) // 12 >= 0:
                opts.append((letter + suf, (p - b - acc) // 12))
    return rnd.choice(sorted(opts))


def close(a, e):
    return abs(a - e) <= TOL * max(1, abs(e))


def bar_len(meter):
    return F(meter[0], meter[1])


def content_len(bar):
    return sum((1 / e[0] for e in bar[1]), F(0))


class Tempo(object):
    """piecewise-constant tempo over musical time (whole notes); seconds = 240/bpm per whole note"""

    def __init__(self, bpm0, changes):
        self.bpm0 = bpm0
        self.changes = sorted(changes.items())

    def sec(self, t):
        s, cur, bpm = F(0), F(0), F(self.bpm0)
        for (at, b) in self.changes:
            if at >= t:
                break
            s += (at - cur) * 240 / bpm
            cur, bpm = at, F(b)
        return s + (t - cur) * 240 / bpm

    def final(self):
        return self.changes[-1][1] if self.changes else self.bpm0


def model(tracks, bpm0, parallel):
    """tracks: list over tracks of list of bars.  Sequential (parallel=False): one track, entries follow each other.
    Parallel: bar k of every track starts at the k-th bar line (sum of the meters of track 0).
    Returns (notes, total_whole_notes, tempo, info)"""
    changes = {}
    raw = []
    ends = []
    for ti, bars in enumerate(tracks):
        t = F(0)
        barstart = F(0)
        after_rest = False
        for bi, (meter, entries) in enumerate(bars):
            if parallel:
                t = barstart
            for (value, notes, bpm) in entries:
                d = 1 / F(value)
                if bpm is not None:
                    changes[t] = bpm
                if notes:
                    for k, n in enumerate(notes):
                        raw.append(dict(on=t, off=t + d, pitch=pitch(n) + 12, ch=n[2], vel=n[3], track=ti,
                                        after_rest=after_rest, bar=bi, k=k))
                after_rest = not notes
                t += d
            barstart += bar_len(meter)
        ends.append(t)
    total = max(ends) if ends else F(0)
    tempo = Tempo(bpm0, changes)
    for n in raw:
        n["son"], n["soff"] = tempo.sec(n["on"]), tempo.sec(n["off"])
    return raw, total, tempo


def onsets(bar):
    t, out = F(0), []
    for e in bar[1]:
        out.append(t)
        t += 1 / F(e[0])
    return out


def first_span(group):
    """bars played together: the earliest onset of one bar that falls strictly inside an entry (notes or rest) of
    another bar (None if all bars have the same onsets) - the region of finding parallel-unequal-rhythms"""
    best = None
    for i, bi in enumerate(group):
        t = F(0)
        for e in bi[1]:
            d = 1 / F(e[0])
            for j, bj in enumerate(group):
                if j != i:
                    for o in onsets(bj):
                        if t < o < t + d and (best is None or o < best):
                            best = o
            t += d
    return best


def float_shortfall(group):
    """does the float sum of the steps between successive onsets of the group stay below the float bar length?
    (region of finding parallel-float-tick-shortfall; describes the input region only, it is not the oracle)"""
    pts = set()
    for b in group:
        t = F(0)
        for e in b[1]:
            t += 1 / F(e[0])
            pts.add(t)
    tick, prev = 0.0, F(0)
    for p in sorted(pts):
        tick += 1.0 / float(1 / (p - prev))
        prev = p
    m = group[0][0]
    return tick < m[0] * (1.0 / m[1])


# ----------------------------------------------------------------------------------------------------------------
# recording sequencer / observers
# ----------------------------------------------------------------------------------------------------------------
def _lib():
    import warnings
    with warnings.catch_warnings():
        warnings.simplefilter("ignore")
        from mingus.midi.sequencer import Sequencer
        from mingus.midi.sequencer_observer import SequencerObserver
        from mingus.containers.note import Note
        from mingus.containers.note_container import NoteContainer
        from mingus.containers.bar import Bar
        from mingus.containers.track import Track
        from mingus.containers.composition import Composition
        from mingus.containers import instrument

    class RecSeq(Sequencer):
        def init(self):
            self.ev = []

        def play_event(self, note, channel, velocity):
            self.ev.append(("play", note, channel, velocity))

        def stop_event(self, note, channel):
            self.ev.append(("stop", note, channel))

        def cc_event(self, channel, control, value):
            self.ev.append(("cc", channel, control, value))

        def instr_event(self, channel, instr, bank):
            self.ev.append(("instr", channel, instr, bank))

        def sleep(self, seconds):
            self.ev.append(("sleep", seconds))

    class RecObs(SequencerObserver):
        def __init__(self):
            self.ev = []
            self.hi = []

        def play_int_note_event(self, int_note, channel, velocity):
            self.ev.append(("play", int_note, channel, velocity))

        def stop_int_note_event(self, int_note, channel):
            self.ev.append(("stop", int_note, channel))

        def cc_event(self, channel, control, value):
            self.ev.append(("cc", channel, control, value))

        def instr_event(self, channel, instr, bank):
            self.ev.append(("instr", channel, instr, bank))

        def sleep(self, seconds):
            self.ev.append(("sleep", seconds))

        def play_Note(self, note, channel, velocity):
            self.hi.append(("play_Note", note, channel, velocity))

        def stop_Note(self, note, channel):
            self.hi.append(("stop_Note", note, channel))

        def play_NoteContainer(self, notes, channel):
            self.hi.append(("play_NC", notes, channel))

        def stop_NoteContainer(self, notes, channel):
            self.hi.append(("stop_NC", notes, channel))

        def play_Bar(self, bar, channel, bpm):
            self.hi.append(("play_Bar", bar, channel, bpm))

        def play_Bars(self, bars, channels, bpm):
            self.hi.append(("play_Bars", bars, channels, bpm))

        def play_Track(self, track, channel, bpm):
            self.hi.append(("play_Track", track, channel, bpm))

        def play_Tracks(self, tracks, channels, bpm):
            self.hi.append(("play_Tracks", tracks, channels, bpm))

        def play_Composition(self, composition, channels, bpm):
            self.hi.append(("play_Composition", composition, channels, bpm))

    class RawListener(object):
        """anything with notify(msg_type, params): keeps the low level messages (types 0..4) as event tuples"""

        def __init__(self):
            self.ev = []
            self.n = 0

        def notify(self, msg_type, params):
            self.n += 1
            p = params
            if msg_type == 0:
                self.ev.append(("play", p["note"], p["channel"], p["velocity"]))
            elif msg_type == 1:
                self.ev.append(("stop", p["note"], p["channel"]))
            elif msg_type == 2:
                self.ev.append(("cc", p["channel"], p["control"], p["value"]))
            elif msg_type == 3:
                self.ev.append(("instr", p["channel"], p["instr"], p["bank"]))
            elif msg_type == 4:
                self.ev.append(("sleep", p["s"]))

    class L(object):
        pass

    L.Sequencer, L.RecSeq, L.RecObs, L.RawListener = Sequencer, RecSeq, RecObs, RawListener
    L.Note, L.NoteContainer, L.Bar, L.Track, L.Composition, L.instrument = Note, NoteContainer, Bar, Track, \
        Composition, instrument
    return L


class Unbuildable(Exception):
    pass


def build_nc(L, notes, bpm):
    """library container for a model entry; the model's note order is the container's own order"""
    if notes is None:
        return None, None
    nc = L.NoteContainer([L.Note(n[0], n[1], velocity=n[3], channel=n[2]) for n in notes])
    if bpm is not None:
        nc.bpm = bpm
    by = dict(((n[0], n[1]), n) for n in notes)
    if len(nc.notes) != len(notes) or len(by) != len(notes):
        raise Unbuildable("container dropped a note")
    order = tuple(by[(x.name, x.octave)] for x in nc.notes)
    return nc, order


def build_bar(L, bar):
    """returns (Bar, bar spec with the notes in container order)"""
    meter, entries = bar
    b = L.Bar("C", meter)
    out = []
    for (value, notes, bpm) in entries:
        nc, order = build_nc(L, notes, bpm)
        v = int(value) if F(value).denominator == 1 else float(value)
        if not b.place_notes(nc, v):
            raise Unbuildable("bar refused value %r" % (value,))
        out.append((F(value), order, bpm))
    return b, (meter, out)


def build_track(L, bars, instr=None):
    t = L.Track(instr)
    spec = []
    for bar in bars:
        b, s = build_bar(L, bar)
        t.add_bar(b)
        spec.append(s)
    return t, spec


# ----------------------------------------------------------------------------------------------------------------
# stream analysis
# ----------------------------------------------------------------------------------------------------------------
def timeline(ev):
    t, out = F(0), []
    for e in ev:
        if e[0] == "sleep":
            t += F(e[1])
        else:
            out.append((t, e))
    return out, t


def analyse(ev, notes, total_s, tempo_changes, check_total=True, until=None):
    """compare a recorded stream with the model's sounding intervals.  Returns [(clause, what, suppressible)].
    `until` (seconds): only the part of the stream before that time is compared (plays with time < until)."""
    out = []
    tl, slept = timeline(ev)
    if any(e[0] == "sleep" and not (e[1] >= 0) for e in ev):
        out.append(("total-time-slept", "negative or NaN sleep in %r" % ([e for e in ev if e[0] == "sleep"][:8],), True))
    if until is not None:
        got = [(t, e) for (t, e) in tl if e[0] == "play" and t < until and not close(t, until)]
        want = sorted([n for n in notes if n["son"] < until], key=lambda n: (n["son"], n["track"], n["k"]))
        gk = sorted([(e[1], e[2], e[3]) for (t, e) in got])
        wk = sorted([(n["pitch"], n["ch"], n["vel"]) for n in want])
        if gk != wk:
            out.append(("exactly-one-play-event", "before the first onset inside another bar's sounding note "
                        "(t<%s s): plays %r, expected %r" % (float(until), gk[:12], wk[:12]), False))
        else:
            exp_on = dict()
            for n in want:
                exp_on.setdefault((n["pitch"], n["ch"], n["vel"]), []).append(n["son"])
            for (t, e) in got:
                lst = exp_on[(e[1], e[2], e[3])]
                if not any(close(t, x) for x in lst):
                    out.append(("ordered-correctly-timed-stream", "play %r at %s s, expected at %r"
                                % (e, float(t), [float(x) for x in lst]), False))
                    break
        return out
    # payload set: every play event is (pitch + 12, own channel, own velocity) of some note of the piece and every
    # note of the piece is played at least once - also checked inside the regions of known findings
    gset = set((e[1], e[2], e[3]) for (t, e) in tl if e[0] == "play")
    wset = set((n["pitch"], n["ch"], n["vel"]) for n in notes)
    if gset - wset:
        out.append(("play-event-pitch-plus-12-own-channel-velocity",
                    "play events (pitch + 12, channel, velocity) that belong to no note of the piece: %r; notes of "
                    "the piece not matched: %r" % (sorted(gset - wset)[:6], sorted(wset - gset)[:6]), False))
    sset = set((e[1], e[2]) for (t, e) in tl if e[0] == "stop")
    if not sset <= set((n["pitch"], n["ch"]) for n in notes):
        out.append(("nothing-stopped-that-was-not-started", "stop events for pitches/channels that are not in the "
                    "piece: %r" % (sorted(sset - set((n["pitch"], n["ch"]) for n in notes))[:6],), False))
    # balance
    sounding = Counter()
    bal = True
    for (t, e) in tl:
        if e[0] == "play":
            if sounding[(e[1], e[2])] > 0:
                out.append(("exactly-one-play-event", "%r played again at %s s while still sounding" % (e, float(t)), True))
                bal = False
                break
            sounding[(e[1], e[2])] += 1
        elif e[0] == "stop":
            if sounding[(e[1], e[2])] <= 0:
                out.append(("nothing-stopped-that-was-not-started", "%r at %s s was not sounding" % (e, float(t)), True))
                bal = False
                break
            sounding[(e[1], e[2])] -= 1
    if bal and any(v > 0 for v in sounding.values()):
        out.append(("nothing-left-sounding", "still sounding at the end: %r" % (sorted(k for k, v in sounding.items() if v > 0)[:6],), True))
        bal = False
    gp = Counter((e[1], e[2], e[3]) for (t, e) in tl if e[0] == "play")
    wp = Counter((n["pitch"], n["ch"], n["vel"]) for n in notes)
    if gp != wp:
        out.append(("exactly-one-play-event", "play events per (pitch, channel, velocity) differ from one per "
                    "sounding note: too many %r, too few %r" % (sorted((gp - wp).items())[:6], sorted((wp - gp).items())[:6]), True))
        bal = False
    gs = Counter((e[1], e[2]) for (t, e) in tl if e[0] == "stop")
    ws = Counter((n["pitch"], n["ch"]) for n in notes)
    if gs != ws:
        out.append(("exactly-one-stop-event", "stop events per (pitch, channel) differ from one per sounding note: "
                    "too many %r, too few %r" % (sorted((gs - ws).items())[:6], sorted((ws - gs).items())[:6]), True))
        bal = False
    if bal:
        # pair each play with the next stop of the same pitch and channel
        open_, got = {}, {}
        for (t, e) in tl:
            if e[0] == "play":
                open_[(e[1], e[2])] = (t, e[3])
            elif e[0] == "stop":
                on, vel = open_.pop((e[1], e[2]))
                got.setdefault((e[1], e[2]), []).append((on, t, vel))
        want = {}
        for n in sorted(notes, key=lambda n: n["son"]):
            want.setdefault((n["pitch"], n["ch"]), []).append(n)
        done = False
        for key in sorted(want):
            for (on, off, vel), n in zip(got[key], want[key]):
                if vel != n["vel"]:
                    out.append(("play-event-pitch-plus-12-own-channel-velocity", "note %r: velocity %r, expected %r"
                                % (key, vel, n["vel"]), False))
                    done = True
                elif not close(on, n["son"]):
                    out.append(("rests-produce-silence-of-their-length" if n["after_rest"] else
                                "ordered-correctly-timed-stream",
                                "note %r starts at %s s, expected %s s" % (key, float(on), float(n["son"])), True))
                    done = True
                elif not close(off - on, n["soff"] - n["son"]):
                    out.append(("stop-after-the-entrys-duration", "note %r at %s s sounds for %s s, expected %s s"
                                % (key, float(on), float(off - on), float(n["soff"] - n["son"])), True))
                    done = True
                if done:
                    break
            if done:
                break
        # order of the play events of each track (entries in order, notes of a container in container order)
        keytrack = {}
        for n in notes:
            keytrack.setdefault((n["pitch"], n["ch"]), set()).add(n["track"])
        if all(len(v) == 1 for v in keytrack.values()):
            for ti in sorted(set(n["track"] for n in notes)):
                w = [(n["pitch"], n["ch"]) for n in sorted((n for n in notes if n["track"] == ti),
                                                          key=lambda n: (n["on"], n["k"]))]
                g = [(e[1], e[2]) for (t, e) in tl if e[0] == "play" and keytrack[(e[1], e[2])] == {ti}]
                if g != w:
                    out.append(("in-order", "track %d: notes played in the order %r, expected %r" % (ti, g[:16], w[:16]), True))
                    break
    if not notes and any(e[0] in ("play", "stop") for (t, e) in tl):
        out.append(("rests-produce-silence-of-their-length", "events %r for music without notes" % (tl[:4],), False))
    if check_total and not close(slept, total_s):
        out.append(("total-time-slept-following-tempo-changes" if tempo_changes else "total-time-slept",
                    "slept %s s, expected %s s" % (float(slept), float(total_s)), True))
    return out


def same_stream(R, group, inputs, seq, observers):
    """observers (SequencerObserver subclasses and bare notify objects) got exactly the hook stream"""
    for o in observers:
        if o.ev != seq.ev:
            i = 0
            while i < min(len(o.ev), len(seq.ev)) and o.ev[i] == seq.ev[i]:
                i += 1
            R.fail(group, "observers-receive-same-event-sequence",
                   "%s got %d events, hooks %d; first difference at %d: observer %r / hook %r"
                   % (type(o).__name__, len(o.ev), len(seq.ev), i, o.ev[i:i + 2], seq.ev[i:i + 2]), inputs)
            return False
    return True


def note_callbacks_mirror(R, group, inputs, obs):
    """the observer's per-note callbacks carry the same notes as the low level events, in the same order"""
    lo = [e for e in obs.ev if e[0] in ("play", "stop")]
    hi = [h for h in obs.hi if h[0] in ("play_Note", "stop_Note")]
    ok = len(lo) == len(hi)
    if ok:
        for e, h in zip(lo, hi):
            if e[0] == "play":
                ok = h[0] == "play_Note" and int(h[1]) + 12 == e[1] and (h[2], h[3]) == (e[2], e[3])
            else:
                ok = h[0] == "stop_Note" and int(h[1]) + 12 == e[1] and h[2] == e[2]
            if not ok:
                break
    if not ok:
        R.fail(group, "observers-receive-same-event-sequence",
               "note callbacks %r do not mirror the events %r" % (hi[:6], lo[:6]), inputs)


# ----------------------------------------------------------------------------------------------------------------
# generators
# ----------------------------------------------------------------------------------------------------------------
def fillings(n, parts):
    """all ordered fillings of n units with the given part sizes (units)"""
    if n == 0:
        return [()]
    out = []
    for p in parts:
        if p <= n:
            out.extend([(p,) + r for r in fillings(n - p, parts)])
    return out


def rand_notes(rnd, k, band, chan=None):
    ps = rnd.sample(range(band[0], band[1]), k)
    out = []
    for p in ps:
        name, octave = spell(rnd, p)
        out.append((name, octave, rnd.randrange(16) if chan is None else chan, rnd.choice((0, 1, 20, 64, 64, 100, 127, rnd.randrange(128)))))
    return tuple(out)


BPMS = (120, 60, 90, 200, 37, 240, 96.5, 133.3)


def rand_entry(rnd, value, band, p_rest=0.2, p_chord=0.3, p_bpm=0.15, chan=None):
    r = rnd.random()
    if r < p_rest:
        return (F(value), None, None)
    if r < p_rest + 0.04:
        notes = ()
    else:
        notes = rand_notes(rnd, rnd.randint(2, 4) if rnd.random() < p_chord else 1, band, chan)
    bpm = rnd.choice(BPMS) if rnd.random() < p_bpm else None
    return (F(value), notes, bpm)


def with_repeats(rnd, entries, p=0.15):
    """now and then an entry repeats the notes of the entry before it (same pitch, channel and velocity start
    again at the instant they stop: the stop has to come first)"""
    out = []
    for e in entries:
        if out and e[1] and out[-1][1] and rnd.random() < p:
            e = (e[0], out[-1][1], e[2])
        out.append(e)
    return out


def rand_rhythm(rnd, meter, finest, exotic=0.0):
    """a filling of the bar: values as Fractions.  Binary values down to `finest`; with probability `exotic` a
    dotted pair (3/8 + 1/8 ...) or a triplet group is used for a span"""
    left = bar_len(meter)
    out = []
    binary = [v for v in (1, 2, 4, 8, 16, 32, 64) if v <= finest]
    while left > 0:
        cands = [F(v) for v in binary if F(1, v) <= left]
        if not cands:
            return None
        v = rnd.choice(cands)
        if exotic and rnd.random() < exotic and v < finest:
            kind = rnd.random()
            if kind < 0.5:
                # dotted v + one of 2v  (3/2 + 1/2 of 1/v ... occupying 2/v) needs 2/v room
                if F(2) / v <= left:
                    pair = [v / F(3, 2), 2 * v]
                    rnd.shuffle(pair)
                    out.extend(pair)
                    left -= F(2) / v
                    continue
            else:
                # three triplets in the time of 1/v... each of value 3v/... : 3 notes of value 3v/2 fill 2/v? use 3
                # notes of value 3*v filling 1/v
                out.extend([3 * v] * 3)
                left -= 1 / v
                continue
        out.append(v)
        left -= 1 / v
    return out


METERS = ((4, 4), (3, 4), (2, 4), (6, 8), (5, 4), (2, 2), (7, 8))


# ----------------------------------------------------------------------------------------------------------------
# the driver
# ----------------------------------------------------------------------------------------------------------------
def run(tier, seed):
    R = Recorder(PID, tier, seed)
    for f in PROPOSED_FINDINGS:
        R.known.append(f) if f["id"] not in [k.get("id") for k in R.known] else None
    rnd = random.Random(seed)
    L = _lib()
    # two sequencers alive at once: listeners belong to the sequencer they were attached to
    from mingus.midi.sequencer import Sequencer as SeqCls
    if SeqCls is not None:
        R.case("two sequencers", "listeners")
        sa, sb = SeqCls(), SeqCls()
        marker = object()
        sa.attach(marker)
        if getattr(sb, "listeners", None) is getattr(sa, "listeners", None) or marker in getattr(sb, "listeners", []):
            R.fail("Sequencer.attach", "every-listener-receives-each-notification",
                   "a listener attached to one sequencer is also a listener of another one", "two sequencers")
        sc = SeqCls()
        if marker in getattr(sc, "listeners", []):
            R.fail("Sequencer.attach", "every-listener-receives-each-notification",
                   "a NEW sequencer starts with the listeners of an earlier one", "new sequencer")
        sa.detach(marker)

    thorough = tier != "quick"

    def rig(twice=False):
        s, o, w = L.RecSeq(), L.RecObs(), L.RawListener()
        s.attach(o)
        s.attach(w)
        if twice:
            s.attach(o)
            s.attach(w)
        return s, o, w

    def report(group, inputs, issues, finding=None):
        for (clause, what, suppressible) in issues:
            R.fail(group, clause, what, inputs, finding=finding if suppressible else None)

    def ret_check(group, inputs, res, want_bpm, finding=None):
        if not (isinstance(res, dict) and "bpm" in res and res["bpm"] == want_bpm):
            R.fail(group, "return-value-reports-final-tempo", "returned %r, final tempo is %r" % (res, want_bpm),
                   inputs, finding=finding)

    # ---------------------------------------------------------------- notes
    g = "Sequencer.play_Note/stop_Note"
    names = [l + a for l in "CDEFGAB" for a in ("", "#", "b")]
    vels = range(128) if thorough else (0, 1, 63, 64, 100, 127)
    s, o, w = rig()
    for name in names:
        for octave in range(0, 9):
            for ch in range(16):
                for vel in vels:
                    R.case(g, (name, octave, ch, vel))
                    del s.ev[:], o.ev[:], o.hi[:], w.ev[:]
                    spec = (name, octave, ch, vel)
                    n = L.Note(name, octave, velocity=vel, channel=ch)
                    ok, r1 = R.guard(g, "exactly-one-play-event", spec, lambda: s.play_Note(n, (ch + 3) % 16, (vel + 5) % 128))
                    if not ok:
                        continue
                    e1 = list(s.ev)
                    ok, r2 = R.guard(g, "exactly-one-stop-event", spec, lambda: s.stop_Note(n, (ch + 3) % 16))
                    if not ok:
                        continue
                    p = pitch(spec) + 12
                    if e1 != [("play", p, ch, vel)]:
                        R.fail(g, "play-event-pitch-plus-12-own-channel-velocity", "play_Note emitted %r, expected %r"
                               % (e1, [("play", p, ch, vel)]), spec)
                    if s.ev[len(e1):] != [("stop", p, ch)]:
                        R.fail(g, "exactly-one-stop-event", "stop_Note emitted %r, expected %r"
                               % (s.ev[len(e1):], [("stop", p, ch)]), spec)
                    if same_stream(R, g, spec, s, (o, w)):
                        note_callbacks_mirror(R, g, spec, o)
                    if [h[1] for h in o.hi] != [n, n]:
                        R.fail(g, "observers-receive-same-event-sequence", "note callbacks did not get the note object: %r" % (o.hi,), spec)

    # ---------------------------------------------------------------- containers
    g = "Sequencer.play_NoteContainer/stop_NoteContainer"
    for i in range(6000 if thorough else 600):
        k = rnd.choice((0, 1, 1, 2, 3, 4, 5, 6))
        notes = rand_notes(rnd, k, (0, 116)) if i % 50 else None
        R.case(g, notes)
        s, o, w = rig(twice=i % 3 == 0)
        try:
            nc, order = build_nc(L, notes, None)
        except Unbuildable:
            continue
        ok, r1 = R.guard(g, "exactly-one-play-event", notes, lambda: s.play_NoteContainer(nc, rnd.randrange(16), rnd.randrange(128)))
        if not ok:
            continue
        e1 = list(s.ev)
        s.sleep(0.5)
        s.notify_listeners(s.MSG_SLEEP, {"s": 0.5})
        ok, r2 = R.guard(g, "exactly-one-stop-event", notes, lambda: s.stop_NoteContainer(nc, rnd.randrange(16)))
        if not ok:
            continue
        wantp = [("play", pitch(n) + 12, n[2], n[3]) for n in (order or ())]
        if e1 != wantp:
            R.fail(g, "in-order" if sorted(e1) == sorted(wantp) else "play-event-pitch-plus-12-own-channel-velocity",
                   "play_NoteContainer emitted %r, expected %r" % (e1, wantp), notes)
        mod = [dict(on=F(0), off=F(1, 2), son=F(0), soff=F(1, 2), pitch=pitch(n) + 12, ch=n[2], vel=n[3], track=0,
                    after_rest=False, k=k2) for k2, n in enumerate(order or ())]
        report(g, notes, analyse(s.ev, mod, F(1, 2), False))
        if same_stream(R, g, notes, s, (o, w)):
            note_callbacks_mirror(R, g, notes, o)

    # ---------------------------------------------------------------- one bar, sequentially
    def seq_case(group, bars, bpm0, what):
        """what: 'bar' | 'track'"""
        inputs = (what, bars, bpm0)
        try:
            if what == "bar":
                obj, spec0 = build_bar(L, bars[0])
                spec = [spec0]
            else:
                obj, spec = build_track(L, bars, rnd.choice((None, None, L.instrument.MidiInstrument("Violin"))))
        except Unbuildable:
            return False
        R.case(group, repr(inputs))
        notes, total, tempo = model([spec], bpm0, parallel=False)
        s, o, w = rig(twice=rnd.random() < 0.3)
        chan = rnd.randrange(16)
        ok, res = R.guard(group, "exactly-one-play-event", inputs,
                          lambda: s.play_Bar(obj, chan, bpm0) if what == "bar" else s.play_Track(obj, chan, bpm0))
        if not ok:
            return True
        report(group, inputs, analyse(s.ev, notes, tempo.sec(total), bool(tempo.changes)))
        ret_check(group, inputs, res, tempo.final())
        if any(e[0] in ("instr", "cc") for e in s.ev):
            R.fail(group, "ordered-correctly-timed-stream", "unexpected instrument/control events %r"
                   % ([e for e in s.ev if e[0] in ("instr", "cc")][:4],), inputs)
        if same_stream(R, group, inputs, s, (o, w)):
            note_callbacks_mirror(R, group, inputs, o)
        return True

    g = "Sequencer.play_Bar"
    # exhaustive: every filling of a 4/4 bar with whole, half, quarter, eighth, each entry a note or a rest
    fill44 = fillings(8, (8, 4, 2, 1))
    for fi, f in enumerate(fill44):
        for mask in range(2 ** len(f)):
            entries = []
            for j, u in enumerate(f):
                if mask >> j & 1:
                    entries.append((F(8, u), None, None))
                else:
                    entries.append((F(8, u), (spell(rnd, 40 + (j * 5 + fi) % 30) + ((fi + j) % 16, (mask * 7 + j) % 128),), None))
            seq_case(g + " (4/4 fillings x rest masks)", [((4, 4), entries)], 120, "bar")
    n_rand = 12000 if thorough else 700
    for i in range(n_rand):
        meter = rnd.choice(METERS)
        rh = rand_rhythm(rnd, meter, rnd.choice((4, 8, 16, 32, 64) if thorough else (4, 8, 16, 32)), exotic=0.25 if i % 2 else 0.0)
        if rh is None:
            continue
        if rnd.random() < 0.25:
            rh = rh[:rnd.randint(0, len(rh))]          # a bar that is not full plays what it holds
        entries = with_repeats(rnd, [rand_entry(rnd, v, (10, 110)) for v in rh])
        seq_case(g, [(meter, entries)], rnd.choice(BPMS), "bar")

    g = "Sequencer.play_Track"
    for i in range(5000 if thorough else 250):
        nb = rnd.randint(0, 8 if thorough else 4)
        bars = []
        for b in range(nb):
            meter = rnd.choice(METERS)
            rh = rand_rhythm(rnd, meter, rnd.choice((4, 8, 16)), exotic=0.2 if i % 2 else 0.0)
            if rh is None:
                rh = [F(meter[1])] * meter[0]
            if b == nb - 1 and rnd.random() < 0.3:
                rh = rh[:rnd.randint(1, len(rh))]
            bars.append((meter, with_repeats(rnd, [rand_entry(rnd, v, (10, 110)) for v in rh])))
        seq_case(g, bars, rnd.choice(BPMS), "track")

    # ---------------------------------------------------------------- bars / tracks together
    def par_case(group, tracks, bpm0, how, instrs=None, channels=None):
        """tracks: list over tracks of list of bars (how='bars': one bar each).  how: 'bars'|'tracks'|'composition'"""
        inputs = (how, tracks, bpm0, instrs, channels)
        nt = len(tracks)
        try:
            if how == "bars":
                objs, spec = [], []
                for tr in tracks:
                    b, sp = build_bar(L, tr[0])
                    objs.append(b)
                    spec.append([sp])
            else:
                objs, spec, want_instr = [], [], []
                for ti, tr in enumerate(tracks):
                    ins, prog = make_instr(instrs[ti] if instrs else None)
                    t, sp = build_track(L, tr, ins)
                    objs.append(t)
                    spec.append(sp)
                    want_instr.append(prog)
        except Unbuildable:
            return False
        R.case(group, repr(inputs))
        if channels is None:
            channels = [rnd.randrange(16) for _ in range(nt)]
        notes, total, tempo = model(spec, bpm0, parallel=True)
        nbars = [len(tr) for tr in spec]
        finding = None
        until = None
        check_total = True
        if len(set(nbars)) > 1:
            finding = "tracks-unequal-bar-count"
        else:
            # the first bar line whose bars fall into the region of a known finding decides the id; everything
            # that sounds before the first troublesome instant of that bar line is still compared (`until`)
            start = F(0)
            for k in range(nbars[0] if nbars else 0):
                gr = [tr[k] for tr in spec]
                cands = []
                sp = first_span(gr)
                if sp is not None:
                    cands.append((sp, 0, "parallel-unequal-rhythms"))
                if any(content_len(b) != bar_len(b[0]) for b in gr):
                    cands.append((min(content_len(b) for b in gr), 1, "parallel-partial-bar-replayed"))
                    check_total = False
                if float_shortfall(gr):
                    cands.append((bar_len(gr[0][0]), 2, "parallel-float-tick-shortfall"))
                if cands:
                    at, _, finding = min(cands)
                    until = tempo.sec(start + at)
                    break
                start += bar_len(gr[0][0])
        s, o, w = rig(twice=rnd.random() < 0.3)
        try:
            if how == "bars":
                res = s.play_Bars(objs, channels, bpm0)
            elif how == "tracks":
                res = s.play_Tracks(objs, channels, bpm0)
            else:
                c = L.Composition()
                for t in objs:
                    c.add_track(t)
                if rnd.random() < 0.5:
                    channels = [x + 1 for x in range(nt)]
                    res = s.play_Composition(c, None, bpm0)
                else:
                    res = s.play_Composition(c, channels, bpm0)
        except Exception as e:  # noqa
            R.fail(group, "exactly-one-play-event", "unexpected %s: %s" % (type(e).__name__, e), inputs, finding=finding)
            same_stream(R, group, inputs, s, (o, w))
            return True
        ev = s.ev
        if how != "bars":
            head = ev[:nt]
            got = sorted((e[1], e[2]) for e in head if e[0] == "instr")
            want = sorted(zip(channels, want_instr))
            if len(got) != nt or got != want or any(e[0] == "instr" for e in ev[nt:]):
                R.fail(group, "one-instrument-change-per-track", "stream starts %r (+%d later instrument events), "
                       "expected first one change per track: (channel, program) %r"
                       % (head, len([e for e in ev[nt:] if e[0] == "instr"]), want), inputs)
            ev = [e for e in ev if e[0] != "instr"]
        elif any(e[0] == "instr" for e in ev):
            R.fail(group, "one-instrument-change-per-track", "play_Bars announced instruments", inputs)
        report(group, inputs, analyse(ev, notes, tempo.sec(total), bool(tempo.changes), check_total=check_total), finding)
        if until is not None:
            report(group, inputs, analyse(ev, notes, None, False, until=until))
        ret_check(group, inputs, res, tempo.final(),
                  finding=finding if finding == "parallel-unequal-rhythms" or
                  (tempo.changes and finding == "tracks-unequal-bar-count") else None)
        if same_stream(R, group, inputs, s, (o, w)):
            note_callbacks_mirror(R, group, inputs, o)
        return True

    gm = L.instrument.MidiInstrument.names
    for nm, prog in GM_ANCHORS.items():
        R.case("General MIDI anchors", nm)
        if not (0 <= prog < len(gm) and gm[prog] == nm and gm.count(nm) == 1):
            R.fail("Sequencer.play_Tracks", "one-instrument-change-per-track",
                   "MidiInstrument.names does not list %r as program %d" % (nm, prog), nm)

    if list(gm) != GM_STANDARD:
        bad = [i for i in range(max(len(gm), 128)) if i >= len(gm) or i >= 128 or gm[i] != GM_STANDARD[i]]
        R.fail("Sequencer.play_Tracks", "one-instrument-change-per-track",
               "MidiInstrument.names deviates from the General MIDI list (%d entries; first deviation at program %d: %r)"
               % (len(gm), bad[0], gm[bad[0]] if bad[0] < len(gm) else None), {"program": bad[0]})
    gm = GM_STANDARD        # the expectation side of the driver never reads the library's own table

    def make_instr(kind):
        """kind: None | 'plain' | 'piano' | 'guitar' | ('midi', program, set_nr) | ('midi-unknown', name)"""
        I = L.instrument
        if kind is None:
            return None, 1
        if kind == "plain":
            return I.Instrument(), 1
        if kind == "piano":
            return I.Piano(), 1
        if kind == "guitar":
            return I.Guitar(), 1
        if kind[0] == "midi":
            m = I.MidiInstrument(gm[kind[1]])
            if kind[2]:
                m.instrument_nr = kind[1]
            # the program of a named General MIDI instrument is its position in the GM list
            return m, kind[1]
        m = I.MidiInstrument(kind[1]) if kind[1] is not None else I.MidiInstrument()
        return m, 1

    def rand_instr():
        r = rnd.random()
        if r < 0.2:
            return None
        if r < 0.35:
            return rnd.choice(("plain", "piano", "guitar"))
        if r < 0.85:
            return ("midi", rnd.randrange(128), rnd.random() < 0.5)
        return ("midi-unknown", rnd.choice((None, "", "Kazoo", "violin", "Piano")))

    def voice(rh, ti, nt, p_rest, p_bpm):
        band = (12 + ti * 24, 12 + ti * 24 + 24)
        return with_repeats(rnd, [rand_entry(rnd, v, band, p_rest=p_rest, p_bpm=p_bpm, p_chord=0.3) for v in rh])

    def dedupe_tempo(tracks):
        """keep at most one tempo-carrying container per onset over all tracks (the model is then unambiguous)"""
        seen = set()
        out = []
        for tr in tracks:
            t = F(0)
            ntr = []
            for (meter, entries) in tr:
                ne = []
                tt = t
                for (v, notes, bpm) in entries:
                    if bpm is not None:
                        if tt in seen:
                            bpm = None
                        else:
                            seen.add(tt)
                    ne.append((v, notes, bpm))
                    tt += 1 / F(v)
                ntr.append((meter, ne))
                t += bar_len(meter)
            out.append(ntr)
        return out

    # play_Bars, equal rhythms: exhaustive over the 4/4 fillings (2 bars), random otherwise
    g = "Sequencer.play_Bars (equal rhythms)"
    for fi, f in enumerate(fill44):
        rh = [F(8, u) for u in f]
        tracks = [[((4, 4), voice(rh, ti, 2, 0.2, 0.1))] for ti in range(2)]
        par_case(g, dedupe_tempo(tracks), 120, "bars")
    for i in range(8000 if thorough else 400):
        meter = rnd.choice(METERS)
        rh = rand_rhythm(rnd, meter, rnd.choice((4, 8, 16, 32)), exotic=0.3 if i % 3 == 0 else 0.0)
        if rh is None:
            continue
        nt = rnd.randint(1, 4)
        tracks = [[(meter, voice(rh, ti, nt, 0.2, 0.12))] for ti in range(nt)]
        par_case(g, dedupe_tempo(tracks), rnd.choice(BPMS), "bars")

    # play_Bars, unequal rhythms: exhaustive over ordered pairs of different 4/4 fillings
    g = "Sequencer.play_Bars (unequal rhythms)"
    for fa in fill44:
        for fb in fill44:
            if fa == fb:
                continue
            tracks = []
            for ti, f in enumerate((fa, fb)):
                tracks.append([((4, 4), [(F(8, u), ((spell(rnd, 30 + ti * 30 + j)) + (ti, 64 + j),), None) for j, u in enumerate(f)])])
            par_case(g, tracks, 120, "bars")
    # exhaustive: four voices over all fillings of a 2/4 bar with half, quarter, eighth (6^4), and (thorough) three
    # voices over all fillings of a 3/4 bar with half, quarter, eighth (18^3); every fourth entry is a rest
    def voices_product(meter, units, parts, nv):
        fl = fillings(units, parts)
        idx = [0] * nv
        n = 0
        while True:
            tracks = []
            for ti in range(nv):
                f = fl[idx[ti]]
                es = []
                for j, u in enumerate(f):
                    notes = None if (n + ti + j) % 4 == 3 else ((spell(rnd, 24 + ti * 24 + j)) + ((ti * 5 + j) % 16, (n + 31 * j) % 128),)
                    es.append((F(units * meter[1], u * meter[0]), notes, None))
                tracks.append([(meter, es)])
            par_case(g if len(set(idx)) > 1 else "Sequencer.play_Bars (equal rhythms)", tracks, 120, "bars")
            n += 1
            k = 0
            while k < nv:
                idx[k] += 1
                if idx[k] < len(fl):
                    break
                idx[k] = 0
                k += 1
            if k == nv:
                break
    voices_product((2, 4), 4, (4, 2, 1), 4)
    if thorough:
        voices_product((3, 4), 6, (4, 2, 1), 3)
    # ... the same pairs, one voice resting wherever the other has an onset inside it (no sounding note spans an
    # onset: outside the finding's region), random subset
    g2 = "Sequencer.play_Bars (unequal rhythms, only rests span onsets)"
    pairs = [(fa, fb) for fa in fill44 for fb in fill44 if fa != fb]
    rnd.shuffle(pairs)
    for (fa, fb) in pairs[:(3080 if thorough else 800)]:
        oa = onsets(((4, 4), [(F(8, u), None, None) for u in fa]))
        ob = onsets(((4, 4), [(F(8, u), None, None) for u in fb]))
        tracks = []
        for ti, (f, other) in enumerate(((fa, ob), (fb, oa))):
            t, es = F(0), []
            for j, u in enumerate(f):
                d = F(u, 8)
                spanned = any(t < x < t + d for x in other)
                if spanned or rnd.random() < 0.15:
                    es.append((F(8, u), None, None))
                else:
                    es.append((F(8, u), rand_notes(rnd, rnd.choice((1, 1, 2)), (20 + 40 * ti, 60 + 40 * ti)),
                               rnd.choice(BPMS) if rnd.random() < 0.1 else None))
                t += d
            tracks.append([((4, 4), es)])
        par_case(g2, dedupe_tempo(tracks), rnd.choice(BPMS), "bars")
    # random: 2-4 bars, any meter, rests, chords, tempo changes
    for i in range(9000 if thorough else 400):
        meter = rnd.choice(METERS)
        nt = rnd.randint(2, 4)
        tracks = []
        for ti in range(nt):
            rh = rand_rhythm(rnd, meter, rnd.choice((4, 8, 16)), exotic=0.2 if i % 4 == 0 else 0.0)
            if rh is None:
                rh = [F(meter[1])] * meter[0]
            tracks.append([(meter, voice(rh, ti, nt, rnd.choice((0.1, 0.5, 0.8)), 0.08))])
        par_case(g, dedupe_tempo(tracks), rnd.choice(BPMS), "bars")
    # bars that are not full / float shortfall
    g = "Sequencer.play_Bars (bars that are not full)"
    for i in range(300 if thorough else 60):
        meter = rnd.choice(METERS)
        rh = rand_rhythm(rnd, meter, 8)
        rh = rh[:rnd.randint(1, len(rh))]
        nt = rnd.randint(1, 3)
        par_case(g, [[(meter, voice(rh, ti, nt, 0.1, 0.0))] for ti in range(nt)], 120, "bars")
    g = "Sequencer.play_Bars (triplet bars)"
    for (meter, v, n) in (((4, 4), 3, 3), ((4, 4), 6, 6), ((4, 4), 12, 12), ((2, 4), 6, 3), ((3, 4), 12, 9), ((4, 4), 24, 24),
                          ((2, 4), 12, 6), ((6, 8), 12, 9), ((4, 4), 5, 5), ((4, 4), 10, 10), ((4, 4), 7, 7)):
        for nt in (1, 2):
            par_case(g, [[(meter, voice([F(v)] * n, ti, nt, 0.0, 0.0))] for ti in range(nt)], 120, "bars")

    # play_Tracks / play_Composition
    for how, g in (("tracks", "Sequencer.play_Tracks"), ("composition", "Sequencer.play_Composition")):
        for i in range(6000 if thorough else 300):
            nt = rnd.randint(1, 4)
            nb = rnd.randint(0 if i % 40 == 0 else 1, 6 if thorough else 3)
            mode = i % 4           # 0,1: equal rhythms, 2: unequal, 3: unequal with rest-heavy voices
            meters = [rnd.choice(METERS) for _ in range(nb)]
            shared = [rand_rhythm(rnd, m, rnd.choice((4, 8, 16)), exotic=0.2 if i % 8 == 1 else 0.0) for m in meters]
            tracks = []
            for ti in range(nt):
                bars = []
                for b in range(nb):
                    rh = shared[b] if mode < 2 else rand_rhythm(rnd, meters[b], rnd.choice((4, 8)))
                    if rh is None:
                        rh = [F(meters[b][1])] * meters[b][0]
                    bars.append((meters[b], voice(rh, ti, nt, 0.7 if mode == 3 else 0.2, 0.1)))
                tracks.append(bars)
            if i % 25 == 7 and nt > 1 and nb > 1:
                k = rnd.randrange(1, nt)
                tracks[k] = tracks[k][:rnd.randint(1, nb - 1)] if rnd.random() < 0.5 else tracks[k] + tracks[k][-1:]
            if i % 25 == 9 and nb >= 1 and mode < 2:
                cut = rnd.randint(1, len(tracks[0][-1][1]))
                tracks = [tr[:-1] + [(tr[-1][0], tr[-1][1][:cut])] for tr in tracks]
            par_case(g, dedupe_tempo(tracks), rnd.choice(BPMS), how, instrs=[rand_instr() for _ in range(nt)])
    # every General MIDI program once, and the non-MIDI kinds
    g = "Sequencer.play_Tracks"
    one = [((4, 4), [(F(1), (("C", 4, 0, 64),), None)])]
    for prog in range(128):
        par_case(g + " (instruments)", [one], 120, "tracks", instrs=[("midi", prog, prog % 2 == 0)], channels=[prog % 16])
    for kind in (None, "plain", "piano", "guitar", ("midi-unknown", None), ("midi-unknown", ""), ("midi-unknown", "Kazoo")):
        par_case(g + " (instruments)", [one], 120, "tracks", instrs=[kind], channels=[9])

    # ---------------------------------------------------------------- control changes
    g = "Sequencer.control_change"
    lo, hi = (-4, 133) if not thorough else (-40, 170)
    chans = (0, 9) if not thorough else (0, 1, 9, 15)
    s, o, w = rig()
    for ch in chans:
        for control in range(lo, hi):
            for value in range(lo, hi):
                R.case(g, (ch, control, value))
                del s.ev[:], o.ev[:], w.ev[:]
                w.n = 0
                ok, res = R.guard(g, "control-changes-refused-emit-nothing", (ch, control, value),
                                  lambda: s.control_change(ch, control, value))
                if not ok:
                    continue
                refused = control < 0 or control > 128 or value < 0 or value > 128
                if refused:
                    if res is not False or s.ev or o.ev or w.n:
                        R.fail(g, "control-changes-refused-emit-nothing", "returned %r, hooks %r, observer %r, %d notifications"
                               % (res, s.ev, o.ev, w.n), (ch, control, value))
                else:
                    if res is not True or s.ev != [("cc", ch, control, value)]:
                        R.fail(g, "control-changes-in-range-emitted-once", "returned %r, hooks %r" % (res, s.ev), (ch, control, value))
                    same_stream(R, g, (ch, control, value), s, (o, w))
    for fname, control in (("modulation", 1), ("main_volume", 7), ("pan", 10)):
        for value in range(-3, 132):
            R.case(g + " (modulation, main_volume, pan)", (fname, value))
            del s.ev[:], o.ev[:], w.ev[:]
            w.n = 0
            ok, res = R.guard(g, "control-changes-refused-emit-nothing", (fname, value), lambda: getattr(s, fname)(3, value))
            if not ok:
                continue
            if value < 0 or value > 128:
                if res is not False or s.ev or o.ev or w.n:
                    R.fail(g, "control-changes-refused-emit-nothing", "%s returned %r, emitted %r" % (fname, res, s.ev), (fname, value))
            elif res is not True or s.ev != [("cc", 3, control, value)] or o.ev != s.ev or w.ev != s.ev:
                R.fail(g, "control-changes-in-range-emitted-once", "%s returned %r, emitted %r / %r" % (fname, res, s.ev, o.ev), (fname, value))
    # floats just outside the range
    for control, value in ((-0.5, 5), (128.5, 5), (5, -0.001), (5, 128.001), (-1e-9, 0), (0, 1e9)):
        R.case(g, (control, value))
        del s.ev[:], o.ev[:], w.ev[:]
        w.n = 0
        ok, res = R.guard(g, "control-changes-refused-emit-nothing", (control, value), lambda: s.control_change(1, control, value))
        if ok and (res is not False or s.ev or o.ev or w.n):
            R.fail(g, "control-changes-refused-emit-nothing", "returned %r, emitted %r" % (res, s.ev), (control, value))

    # ---------------------------------------------------------------- attach / detach
    g = "Sequencer.attach/detach"
    probe_bar = ((4, 4), [(F(4), (("C", 4, 2, 90), ("E", 4, 3, 80)), None), (F(4), None, None), (F(2), (("G", 4, 4, 70),), 90)])
    for i in range(3000 if thorough else 300):
        s = L.RecSeq()
        obs = [L.RecObs() if k % 2 == 0 else L.RawListener() for k in range(4)]
        attached = []
        ops = []
        for step in range(rnd.randint(1, 12)):
            k = rnd.randrange(4)
            if rnd.random() < 0.55:
                ops.append(("attach", k))
                s.attach(obs[k])
                if k not in attached:
                    attached.append(k)
            else:
                ops.append(("detach", k))
                s.detach(obs[k])
                if k in attached:
                    attached.remove(k)
            R.case(g, tuple(ops))
            for x in obs:
                del x.ev[:]
            del s.ev[:]
            what = step % 4
            if what == 0:
                b, _ = build_bar(L, probe_bar)
                s.play_Bar(b, 1, 120)
            elif what == 1:
                s.control_change(1, 7, 100)
                s.control_change(1, 200, 100)
            elif what == 2:
                s.set_instrument(3, 40)
            else:
                n = L.Note("A", 3, velocity=33, channel=5)
                s.play_Note(n)
                s.stop_Note(n)
            if not s.ev:
                R.fail(g, "observers-receive-same-event-sequence", "probe produced no hook events", tuple(ops))
            for k in range(4):
                if k in attached and obs[k].ev != s.ev:
                    dup = len(obs[k].ev) > len(s.ev)
                    R.fail(g, "attaching-twice-stops-duplication" if dup else "observers-receive-same-event-sequence",
                           "observer %d (attached) got %r, hooks %r" % (k, obs[k].ev[:8], s.ev[:8]), tuple(ops))
                elif k not in attached and obs[k].ev:
                    R.fail(g, "detaching-stops-delivery", "observer %d (not attached) still got %r" % (k, obs[k].ev[:6]), tuple(ops))
    # the two plain scenarios of the statement
    R.case(g, "attach twice")
    s, o = L.RecSeq(), L.RecObs()
    s.attach(o)
    s.attach(o)
    b, _ = build_bar(L, probe_bar)
    s.play_Bar(b, 1, 120)
    if o.ev != s.ev or not s.ev:
        R.fail(g, "attaching-twice-stops-duplication", "observer got %d events, hooks %d" % (len(o.ev), len(s.ev)), "attach twice")
    R.case(g, "attach twice, detach once")
    s.detach(o)
    n0 = len(o.ev)
    s.play_Bar(b, 1, 120)
    s.set_instrument(1, 5)
    s.control_change(1, 1, 1)
    if len(o.ev) != n0:
        R.fail(g, "detaching-stops-delivery", "observer got %d more events after detach" % (len(o.ev) - n0), "attach twice, detach once")
    if len([h for h in o.hi if h[0] == "play_Bar"]) != 1:
        R.fail(g, "detaching-stops-delivery", "play_Bar callbacks: %r" % ([h[0] for h in o.hi if h[0] == "play_Bar"],), "attach twice, detach once")

    R.assumptions.append("time is measured as the exact sum of the recorded sleep() arguments; a stream matches the "
                         "model when every onset/duration/total agrees within 1e-9 (relative)")
    R.assumptions.append("'the MIDI instrument's program' is read as the 0-based position of MidiInstrument.name in "
                         "the General MIDI name list (anchored on 7 well-known programs); instrument_nr is left at "
                         "its default or set to the same number; unknown or empty names count as 'otherwise' (1)")
    R.assumptions.append("a tempo change takes effect at the onset of the container that carries it (that container "
                         "included); at most one tempo-carrying container per onset is generated")
    R.assumptions.append("parallel pieces use a separate pitch band per track so that (pitch, channel) identifies the "
                         "track; within a container pitches are distinct; bars of one bar line share their meter")
    R.assumptions.append("for bars that are not full and are played together the total time is not checked (only "
                         "that every note sounds once for its duration); bars of meter (0, 0) are not generated")
    return R.result(
        "play_Note/stop_Note: 21 names x octaves 0..8 x channels 0..15 x %d velocities (exhaustive); containers: %s "
        "seeded (0..6 notes, None); play_Bar: all 56 fillings of 4/4 with 1,2,4,8 x every note/rest mask (2830, "
        "exhaustive) + seeded bars (7 meters, values to 1/32, dotted pairs, triplet groups, chords, rests, empty "
        "containers, tempo changes, partial bars); play_Track: seeded 0..%d bars; play_Bars: the 56 fillings with "
        "equal rhythms, ALL 3080 ordered pairs of different fillings (exhaustive), all 6^4 four-voice combinations of "
        "the fillings of 2/4 with 2,4,8 (thorough: + all 18^3 three-voice combinations for 3/4), rest-spanning variants, seeded "
        "1..4 bars; play_Tracks/play_Composition: seeded 1..4 tracks x 0..%d bars, equal/unequal rhythms, all 128 GM "
        "programs + non-MIDI instruments; control_change: channels %r x control,value in %d..%d (exhaustive) + "
        "wrappers + floats; attach/detach: seeded op sequences over 4 observers (<= 12 ops) checked by a list model"
        % (len(vels), 6000 if thorough else 600, 8 if thorough else 4, 6 if thorough else 3, tuple(chans), lo, hi - 1),
        exhaustive=False)
