"""C10 bounded stand-ins: text forms, Helmholtz shorthand, Hz conversion, copies (real code, enumerated inputs)."""
import math
from bounded.drv import Recorder
from bounded.batteries import all_names, LETTERS


def run(tier, seed):
    from mingus.containers.note import Note
    from mingus.containers import mt_exceptions as cex
    from mingus.core import mt_exceptions as kex
    from contracts.specfuns import base
    R = Recorder("C10", tier, seed)
    names = all_names(2)
    octs = range(0, 10)

    def pitch(name, o):
        return 12 * o + base(name[0]) + name[1:].count("#") - name[1:].count("b")

    for n in names:
        for o in octs:
            # 'Name-octave' text, printed form, copy
            R.case("text-forms", (n, o))
            a = Note(n, o)
            for label, mk in (("name-octave-text", lambda: Note("%s-%d" % (n, o))),
                              ("printed-form", lambda: Note(repr(a).strip("'"))),
                              ("copy", lambda: Note(a)),
                              ("set_note-text", lambda: Note().set_note("%s-%d" % (n, o)))):
                ok, b = R.guard("Note text forms", label, (n, o), mk)
                if ok and not (int(b) == pitch(n, o) and b.name == n and b.octave == o):
                    R.fail("Note text forms", label, "got %r for %s-%d" % (b, n, o), (n, o))
            # copy is independent
            c = Note(a)
            c.augment()
            c.set_velocity(1)
            c.set_channel(2)
            if a.name != n or a.velocity != 64 or a.channel != 1 or c is a:
                R.fail("Note copy", "copy-is-independent", "original changed to %r" % (vars(a),), (n, o))
            # ... whichever way the copy is taken: copy.copy, copy.deepcopy, deepcopy of a list that holds the note
            import copy as _copy
            for how, mk in (("copy.copy", lambda: _copy.copy(a)), ("copy.deepcopy", lambda: _copy.deepcopy(a)),
                            ("copy.deepcopy of a list", lambda: _copy.deepcopy([a, a])[0])):
                ok, c2 = R.guard("Note copy", "copy-is-independent", (n, o, how), mk)
                if not ok:
                    continue
                if c2 is a or (c2.name, c2.octave) != (a.name, a.octave):
                    R.fail("Note copy", "copy-is-independent", "%s of %s-%d gives %s" % (
                        how, n, o, "the note itself" if c2 is a else "%s-%d" % (c2.name, c2.octave)), (n, o, how))
                    continue
                c2.augment()
                c2.octave_up() if o < 8 else c2.octave_down()
                c2.set_velocity(2)
                if (a.name, a.octave, a.velocity) != (n, o, 64):
                    R.fail("Note copy", "copy-is-independent", "after editing its %s the original is %r" % (how, vars(a)), (n, o, how))
                    a.name, a.octave, a.velocity = n, o, 64
            # Helmholtz round trip (sharps and flats)
            R.case("helmholtz", (n, o))
            ok, m = R.guard("Note.from_shorthand", "helmholtz-roundtrip", (n, o),
                            lambda: Note().from_shorthand(Note(n, o).to_shorthand()))
            if ok and (m.name, m.octave) != (n, o):
                R.fail("Note.from_shorthand", "helmholtz-roundtrip",
                       "%s-%d written %r read back %s-%d" % (n, o, Note(n, o).to_shorthand(), m.name, m.octave), (n, o))
            # ... read by a note that held something else: it is THAT note which holds the name and octave afterwards
            held = Note("F#", 6)
            ok, back = R.guard("Note.from_shorthand", "helmholtz-roundtrip", (n, o, "receiver"),
                               lambda: held.from_shorthand(Note(n, o).to_shorthand()))
            if ok and (held.name, held.octave) != (n, o):
                R.fail("Note.from_shorthand", "helmholtz-roundtrip",
                       "a note F#-6 that read %r holds %s-%d afterwards" % (Note(n, o).to_shorthand(), held.name, held.octave),
                       (n, o, "receiver"))
            # shape of the shorthand itself
            sh = Note(n, o).to_shorthand()
            want = (n if o < 3 else n.lower()) + ("," * (2 - o) if o < 2 else "'" * (o - 3) if o > 3 else "")
            if sh != want:
                R.fail("Note.to_shorthand", "helmholtz-form", "%s-%d -> %r, expected %r" % (n, o, sh, want), (n, o))
    # from_int / int round trip over the MIDI range and beyond
    for i in range(0, 300):
        R.case("from_int", i)
        b = Note().from_int(i)
        if int(b) != i or "b" in b.name[1:]:
            R.fail("Note.from_int", "int-roundtrip", "from_int(%d) -> %r" % (i, b), i)
        held = Note("F#", 6)
        held.from_int(i)
        if int(held) != i:
            R.fail("Note.from_int", "int-roundtrip", "a note F#-6 set from the integer %d holds %r" % (i, held), (i, "receiver"))
    # malformed names are rejected
    for bad in ["H", "c", "Cx", "", "C-x", "C-4-4", "H-4", "#", "1", "C%", "100%", "C%s", "C%23-4", "%d", "C{}", "{0}-4",
                "C\n", "C#\n", "Bb\n-3", " C", "C ", "#C", "bE", "b#Gb-4", "C#x", "Cmaj", "G4", "-4", ",,", "C\\", "C'"]:
        R.case("malformed", bad)
        try:
            Note(bad)
            R.fail("Note.__init__", "malformed-rejected", "accepted %r" % bad, bad)
        except (kex.NoteFormatError, cex.NoteFormatError):
            pass
        except Exception as e:  # noqa
            # two old behaviours are left alone (the text IS rejected, only not with the documented class): an empty
            # name part ('' , '-4': IndexError) and a non-numeric octave part ('C-x': ValueError)
            name_part, _, oct_part = bad.partition("-")
            empty_name = name_part == "" and isinstance(e, IndexError)
            bad_octave = "-" in bad and not oct_part.lstrip("-").isdigit() and isinstance(e, ValueError)
            if not empty_name and not bad_octave:
                R.fail("Note.__init__", "malformed-rejected", "%r raised %s instead of the note-format error"
                       % (bad, type(e).__name__), bad)
    # Hz conversion: doubles per octave, A-4 at the standard pitch, note -> Hz -> note with detuning
    pitches = (415, 432, 440, 442, 466) if tier == "quick" else (400, 415, 430, 432, 435, 440, 442, 444, 452, 466)
    cents = range(-40, 41, 5) if tier == "quick" else range(-40, 41, 1)
    for sp in pitches:
        R.case("hz-a4", sp)
        if abs(Note("A", 4).to_hertz(sp) - sp) > 1e-9 * sp:
            R.fail("Note.to_hertz", "A-4-at-standard-pitch", "A-4 -> %r at %r" % (Note("A", 4).to_hertz(sp), sp), sp)
        for i in range(0, 128):
            n = Note().from_int(i)
            hz = n.to_hertz(sp)
            R.case("hz-octave", (sp, i))
            up = Note(n.name, n.octave + 1).to_hertz(sp)
            if not math.isclose(up, 2 * hz, rel_tol=1e-12):
                R.fail("Note.to_hertz", "doubles-per-octave", "%r: %r vs %r" % (n, hz, up), (sp, i))
            for c in cents:
                R.case("hz-roundtrip", (sp, i, c))
                f = hz * 2 ** (c / 1200.0)
                ok, back = R.guard("Note.from_hertz", "hz-roundtrip", (sp, i, c), lambda: Note().from_hertz(f, sp))
                if ok and int(back) != i:
                    R.fail("Note.from_hertz", "hz-roundtrip",
                           "note %d (%r) detuned %d cents at A=%r -> %r (%d)" % (i, n, c, sp, back, int(back)), (sp, i, c))
    R.assumptions.append("Hz conversion and the text forms are checked on IEEE doubles by execution only (bounded): "
                         "notes 0..127 x detuning x standard pitches as listed in the rule")
    return R.result("names with <= 2 accidentals (all orderings) x octaves 0..9 for text/Helmholtz/copy; ints 0..299; "
                    "notes 0..127 x %d standard pitches x detuning %s cents for Hz" % (len(pitches), list(cents)[:3]),
                    exhaustive=False)
