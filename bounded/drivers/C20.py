"""C20 bounded stand-ins: string tunings (fret arithmetic, lookup, fingerings, chord fingerings) and ASCII tablature.

Real code (mingus.extra.tunings / mingus.extra.tablature) on enumerated / seeded inputs against independent oracles:
  * own pitch arithmetic (12 * octave + letter + accidentals) for find_frets / get_Note,
  * own predicate for the lookup constraints,
  * a brute-force specification (all injective note -> string assignments) for find_fingering,
  * own pitch-class / span / finger model for find_chord_fingering,
  * an independent ASCII-tab reader (bounded/decoders/tab.py) for the tablature writers: the pitches are read back
    from the text alone (Helmholtz label of the line + fret number).
"""
import itertools
import random
from fractions import Fraction

from bounded.drv import Recorder
from bounded.decoders import tab as tabreader

PROPOSED_FINDINGS = [
    dict(property="C20", id="tab-track-float-width", function="mingus.extra.tablature.from_Track",
         clause="reading-frets-gives-back-pitches-in-order",
         region="maxwidth > 60 (the default is 80); exception type TypeError",
         what="from_Track raises TypeError for every page width above 60, including the default 80: _get_width returns "
              "maxwidth / 2 (or / 3), a float, which from_Bar uses as a sequence multiplier ((width - l) * '-')",
         witness_code="from mingus.extra import tablature\nfrom mingus.containers import Track, Bar\n"
                      "b = Bar(); b.place_notes('C-3', 4)\nt = Track(); t.add_bar(b)\n"
                      "try:\n    observed = tablature.from_Track(t); holds = True\n"
                      "except TypeError as e:\n    observed = 'TypeError: %s' % e; holds = False\n"),
    dict(property="C20", id="tab-composition-float-bars", function="mingus.extra.tablature.from_Composition",
         clause="reading-frets-gives-back-pitches-in-order",
         region="every width; exception type TypeError",
         what="from_Composition raises TypeError at every width: bars = width / w is a float and is passed to range()",
         witness_code="from mingus.extra import tablature\nfrom mingus.containers import Composition, Track, Bar\n"
                      "b = Bar(); b.place_notes('C-3', 4)\nt = Track(); t.add_bar(b)\nc = Composition(); c.add_track(t)\n"
                      "try:\n    observed = tablature.from_Composition(c, 40); holds = True\n"
                      "except TypeError as e:\n    observed = 'TypeError: %s' % e; holds = False\n"),
    dict(property="C20", id="tab-empty-bar-unbound-index", function="mingus.extra.tablature.from_Bar",
         clause="equally-long-lines-one-per-string",
         region="a bar without entries (also inside a track / composition); exception type UnboundLocalError",
         what="from_Bar of a bar with no entries raises UnboundLocalError: the end padding reads len(result[i]) with "
              "the loop variable i of the (never entered) entry loop",
         witness_code="from mingus.extra import tablature\nfrom mingus.containers import Bar\n"
                      "try:\n    observed = tablature.from_Bar(Bar(), 40); holds = True\n"
                      "except UnboundLocalError as e:\n    observed = 'UnboundLocalError: %s' % e; holds = False\n"),
    dict(property="C20", id="tab-empty-composition-max", function="mingus.extra.tablature.from_Composition",
         clause="equally-long-lines-one-per-string",
         region="a composition without tracks; exception type ValueError (only reachable once "
                "tab-composition-float-bars is repaired or masked: the ValueError comes first)",
         what="from_Composition of a composition with no tracks raises ValueError (max() of an empty list)",
         witness_code="from mingus.extra import tablature\nfrom mingus.containers import Composition\n"
                      "try:\n    observed = tablature.from_Composition(Composition(), 40); holds = True\n"
                      "except ValueError as e:\n    observed = 'ValueError: %s' % e; holds = False\n"),
    dict(property="C20", id="tab-course-tuning-attribute-error", function="mingus.extra.tablature.begin_track",
         clause="equally-long-lines-one-per-string",
         region="tuning with at least one course (a list of strings), 28 of the 76 registered tunings; "
                "exception type AttributeError",
         what="every tablature writer raises AttributeError for a registered tuning that has courses (e.g. Mandolin, "
              "12-string Guitar): begin_track / _get_qsize call to_shorthand() on the course list",
         witness_code="from mingus.extra import tablature, tunings\nfrom mingus.containers import Note\n"
                      "t = tunings.get_tuning('Mandolin', 'Standard')\n"
                      "try:\n    observed = tablature.from_Note(Note('A', 4), 40, t); holds = True\n"
                      "except AttributeError as e:\n    observed = 'AttributeError: %s' % e; holds = False\n"),
    dict(property="C20", id="chord-fingering-course-tuning-type-error",
         function="mingus.extra.tunings.StringTuning.find_chord_fingering",
         clause="chord-fingering-one-entry-per-string",
         region="tuning with at least one course; exception type TypeError",
         what="find_chord_fingering raises TypeError for a registered tuning that has courses (e.g. the 12-string "
              "Guitar): find_note_names takes int() of the course list instead of its first string",
         witness_code="from mingus.extra import tunings\nt = tunings.get_tuning('Guitar', 'Standard', 6, 2)\n"
                      "try:\n    observed = t.find_chord_fingering(['C', 'E', 'G']); holds = True\n"
                      "except TypeError as e:\n    observed = 'TypeError: %s' % e; holds = False\n"),
    dict(property="C20", id="tab-adjacent-entries-abut", function="mingus.extra.tablature.from_Bar",
         clause="reading-frets-gives-back-pitches-in-order",
         region="an entry that is given >= 1 column but not more columns than its widest fret number has digits, "
                "directly followed by another sounding entry; the text still contains the right digits (a reader "
                "that is told where to split finds the pitches), only the separation is lost",
         what="from_Bar writes consecutive entries without any separating column when the width gives an entry "
              "exactly as many columns as its fret number needs: frets 1 and 3 on one string are written '13', "
              "which reads back as fret 13",
         witness_code="from mingus.extra import tablature\nfrom mingus.containers import Bar\nimport re\n"
                      "b = Bar(); b.place_notes('F-2', 4); b.place_notes('G-2', 4)\n"
                      "low = tablature.from_Bar(b, 14, collapse=False)[-1]\nobserved = low\n"
                      "holds = re.findall('[0-9]+', low.split('||')[1]) == ['1', '3']\n"),
]

_BASE = {"C": 0, "D": 2, "E": 4, "F": 5, "G": 7, "A": 9, "B": 11}
_SHARP = ["C", "C#", "D", "D#", "E", "F", "F#", "G", "G#", "A", "A#", "B"]
_FLAT = ["C", "Db", "D", "Eb", "E", "F", "Gb", "G", "Ab", "A", "Bb", "B"]


def _pc(name):
    return (_BASE[name[0]] + name[1:].count("#") - name[1:].count("b")) % 12


def _pitch(name, octave):
    return 12 * octave + _BASE[name[0]] + name[1:].count("#") - name[1:].count("b")


def _np(note):
    """pitch of a Note object or of a 'Name-octave' string, by own arithmetic"""
    if isinstance(note, str):
        nm, o = note.split("-")
        return _pitch(nm, int(o))
    return _pitch(note.name, note.octave)


def _spell(p, flat=False):
    return "%s-%d" % ((_FLAT if flat else _SHARP)[p % 12], p // 12)


def _spec_fingerings(opens, pitches, max_distance, maxfret=24):
    """brute-force specification of find_fingering: every assignment of distinct strings to the notes (in note
    order), each sounding its note within 0..maxfret, whose non-open frets span less than max_distance"""
    out = []
    for strings in itertools.permutations(range(len(opens)), len(pitches)):
        f = []
        for s, p in zip(strings, pitches):
            d = p - opens[s]
            if not 0 <= d <= maxfret:
                break
            f.append((s, d))
        else:
            nz = [d for (_, d) in f if d != 0]
            if not nz or max(nz) - min(nz) < max_distance:
                out.append(tuple(f))
    return out


def _model_fingers(f):
    """fingers needed for a fret list (None = string not played, 0 = open): one per fretted string, except that the
    strings at the lowest fretted position lying above (higher index than) every open string share the index
    finger (barre).  Never more than the library's own count."""
    fretted = [(i, x) for i, x in enumerate(f) if x]
    if not fretted:
        return 0
    m = min(x for _, x in fretted)
    last_open = max([i for i, x in enumerate(f) if x == 0 and x is not None] or [-1])
    barre = [i for i, x in fretted if x == m and i > last_open]
    return len(fretted) - max(0, len(barre) - 1)


def _lenient_bar(bodies, lo, hi, opens_top_down, expected):
    """can the columns lo..hi-1 of the string lines be cut into windows of 1-2 columns, one per expected entry (in
    order, only dash/blank columns in between), so that each window reads back the entry's pitches?  Used only to
    keep the region of the finding 'tab-adjacent-entries-abut' narrow."""
    n = len(bodies)

    def window(c, m):
        ps = []
        for li in range(n):
            seg = bodies[li][c:c + m]
            t = seg.strip(" -")
            if t == "":
                continue
            if not t.isdigit() or not seg.endswith(t):
                return None
            ps.append(opens_top_down[li] + int(t))
        return sorted(ps) if ps else None

    def go(c, k):
        while c < hi and all(b[c] in "- " for b in bodies):
            c += 1
        if c >= hi:
            return k == len(expected)
        if k == len(expected):
            return False
        for m in (1, 2):
            if c + m <= hi and window(c, m) == expected[k] and go(c + m, k + 1):
                return True
        return False

    return go(lo, 0)


def run(tier, seed):
    import mingus.extra.tunings as T
    import mingus.extra.tablature as tab
    from mingus.core import chords as core_chords
    from mingus.core.mt_exceptions import RangeError, FingerError
    from mingus.containers.note import Note
    from mingus.containers.note_container import NoteContainer as _RealNoteContainer
    from mingus.containers.bar import Bar
    from mingus.containers.track import Track
    from mingus.containers.composition import Composition
    from mingus.containers.instrument import Instrument

    def NoteContainer(*args):
        """every container of this driver has been LOOKED AT before it is fingered or rendered, the way programs do: an
        unequal comparison, a loop left early, an index, a membership test (read-only; none of it may show later)"""
        nc = _RealNoteContainer(*args)
        k = len(nc.notes)
        if k:
            other = _RealNoteContainer()
            other.notes = [Note("CDEFGAB"[i % 7], 9 + i // 7) for i in range(k)]
            try:
                nc == other
                for _n in nc:
                    break
                any(True for _n in nc)
                nc[0], len(nc), (nc.notes[-1] in nc)
            except Exception:  # noqa
                pass
        return nc

    R = Recorder("C20", tier, seed)
    for f in PROPOSED_FINDINGS: R.known.append(f) if f["id"] not in [k.get("id") for k in R.known] else None
    rnd = random.Random(seed)
    quick = tier == "quick"

    # ------------------------------------------------------------------ the registry
    tunings = [t for key in T._known for t in T._known[key][1].values()]

    def first(x):
        return x[0] if isinstance(x, list) else x

    def opens_of(t):
        return [_np(first(x)) for x in t.tuning]

    def has_course(t):
        return any(isinstance(x, list) for x in t.tuning)

    def tname(t):
        return "%s / %s" % (t.instrument, t.description[:30])

    plain = [t for t in tunings if not has_course(t)]
    coursed = [t for t in tunings if has_course(t)]

    # ------------------------------------------------------------------ 1. find_frets
    G = "StringTuning.find_frets"
    C = "fret-is-semitone-distance-within-0-maxfret-else-none"
    mfs = (0, 1, 4, 11, 12, 18, 24, 25, 40, 127) if quick else tuple(range(0, 42)) + (60, 100, 127, 200)
    for ti, t in enumerate(tunings):
        opens = opens_of(t)
        for p in range(0, 128):
            forms = (Note().from_int(p), _spell(p), Note(_FLAT[p % 12], p // 12), _spell(p, True))
            for mi, mf in enumerate(mfs):
                note = forms[(p + mi) % 4]
                exp = [(p - o) if 0 <= p - o <= mf else None for o in opens]
                R.case(G, (ti, p, mf))
                ok, got = R.guard(G, C, (tname(t), note, mf), lambda: t.find_frets(note, mf))
                if ok and not (got == exp and all(x is None or type(x) is int for x in got)):
                    R.fail(G, C, "find_frets(%r, %d) on %s = %r, expected %r" % (note, mf, tname(t), got, exp),
                           (tname(t), repr(note), mf))
            # default maxfret is 24
            R.case(G, (ti, p, "default"))
            exp = [(p - o) if 0 <= p - o <= 24 else None for o in opens]
            ok, got = R.guard(G, C, (tname(t), p), lambda: t.find_frets(forms[p % 4]))
            if ok and got != exp:
                R.fail(G, C, "find_frets(%r) on %s = %r, expected %r" % (forms[p % 4], tname(t), got, exp),
                       (tname(t), p, "default maxfret"))

    # ------------------------------------------------------------------ 2. get_Note
    G = "StringTuning.get_Note"
    C1 = "note-at-string-fret-is-open-string-raised-by-fret-semitones"
    C2 = "out-of-range-string-or-fret-rejected-with-range-error"
    for ti, t in enumerate(tunings):
        opens = opens_of(t)
        n = len(opens)
        for s in range(-2, n + 2):
            for mf in ((None, 0, 3, 24, 31) if quick else (None, 0, 1, 3, 12, 24, 31, 60)):
                top = 24 if mf is None else mf
                for fret in range(-2, top + 3):
                    R.case(G, (ti, s, mf, fret))
                    inr = 0 <= s < n and 0 <= fret <= top
                    try:
                        got = t.get_Note(s, fret) if mf is None else t.get_Note(s, fret, mf)
                    except RangeError:
                        if inr:
                            R.fail(G, C1, "get_Note(%d, %d, maxfret=%r) on %s raised RangeError" % (s, fret, mf, tname(t)),
                                   (tname(t), s, fret, mf))
                        continue
                    except Exception as e:  # noqa
                        R.fail(G, C2 if not inr else C1, "get_Note(%d, %d, maxfret=%r) on %s raised %s: %s"
                               % (s, fret, mf, tname(t), type(e).__name__, e), (tname(t), s, fret, mf))
                        continue
                    if not inr:
                        R.fail(G, C2, "get_Note(%d, %d, maxfret=%r) on %s (%d strings) returned %r instead of raising "
                               "RangeError" % (s, fret, mf, tname(t), n, got), (tname(t), s, fret, mf))
                    elif not (_np(got) == opens[s] + fret and int(got) == opens[s] + fret):
                        R.fail(G, C1, "get_Note(%d, %d) on %s = %r (pitch %d), expected pitch %d"
                               % (s, fret, tname(t), got, _np(got), opens[s] + fret), (tname(t), s, fret, mf))

    # ------------------------------------------------------------------ 3. lookup
    C = "lookup-returns-only-tunings-satisfying-all-given-constraints"

    def satisfies(t, instr, desc, ns, nc):
        if instr is not None and not t.instrument.upper().startswith(instr.upper()):
            return "instrument %r is not a prefix of %r" % (instr, t.instrument)
        if desc is not None and not t.description.upper().startswith(desc.upper()):
            return "description %r is not a prefix of %r" % (desc, t.description)
        if ns is not None and len(t.tuning) != ns:
            return "%d strings, asked for %r" % (len(t.tuning), ns)
        if nc is not None:
            tot = sum(len(x) if isinstance(x, list) else 1 for x in t.tuning)
            if Fraction(tot, len(t.tuning)) != Fraction(nc).limit_denominator(1000):
                return "%d/%d courses per string, asked for %r" % (tot, len(t.tuning), nc)
        return None

    inames = sorted(set(t.instrument for t in tunings))
    prefixes = set()
    for nm in inames:
        for k in range(0, len(nm) + 1):
            prefixes.add(nm[:k])
    prefixes = sorted(prefixes)
    variants = []
    for i, p in enumerate(prefixes):
        variants.append((p, p.lower(), p.upper(), p.swapcase())[i % 4])
    variants += ["zzz", "Guitars", "guitar ", "bass", "BASS GUITAR", "b", "ba", "ma", "Mandolin", "mandolin (", "x" * 40]
    nss = (None, 0, 1, 3, 4, 5, 6, 7, 12, -1)           # incl. counts no registered tuning has (0 is falsy)
    ncs = (None, 0, 0.0, 1, 2, 3, 1.6, 1.5, 1.0, 2.0)
    G = "tunings.get_tunings"
    nonempty = 0
    for instr in [None] + variants:
        for ns in nss:
            for nc in ncs:
                R.case(G, (instr, ns, nc))
                ok, got = R.guard(G, C, (instr, ns, nc), lambda: T.get_tunings(instr, ns, nc))
                if not ok:
                    continue
                nonempty += 1 if got else 0
                for t in got:
                    why = satisfies(t, instr, None, ns, nc) if isinstance(t, T.StringTuning) else "not a StringTuning"
                    if why:
                        R.fail(G, C, "get_tunings(%r, %r, %r) returned %s: %s" % (instr, ns, nc, tname(t), why), (instr, ns, nc))
                        break
    G = "tunings.get_tuning"
    dvariants = set(["", "standard", "Standard tuning", "STANDARD", "open", "zzz", "irish", '"', "*", "see"])
    for t in tunings:
        d = t.description
        for k in (1, 3, 9, len(d)):
            dvariants.add(d[:k] if (k + len(d)) % 2 else d[:k].lower())
    dvariants = sorted(dvariants)
    ivars = variants if not quick else [v for i, v in enumerate(variants) if i % 4 == seed % 4 or len(v) < 3] + inames
    found = 0
    for instr in ivars:
        for desc in dvariants:
            if quick:
                combos = [(None, None)] + [(rnd.choice(nss), rnd.choice(ncs)) for _ in range(3)]
            elif (len(instr) + len(desc)) % 4 == 0:
                combos = [(a, b) for a in nss for b in ncs]
            else:
                combos = [(None, None)] + [(rnd.choice(nss), rnd.choice(ncs)) for _ in range(8)]
            for (ns, nc) in combos:
                R.case(G, (instr, desc, ns, nc))
                ok, t = R.guard(G, C, (instr, desc, ns, nc), lambda: T.get_tuning(instr, desc, ns, nc))
                if not ok or t is None:
                    continue
                found += 1
                why = satisfies(t, instr, desc, ns, nc) if isinstance(t, T.StringTuning) else "not a StringTuning: %r" % (t,)
                if why:
                    R.fail(G, C, "get_tuning(%r, %r, %r, %r) returned %s: %s" % (instr, desc, ns, nc, tname(t), why),
                           (instr, desc, ns, nc))
    R.assumptions.append("lookup: only soundness is demanded by the statement (every returned tuning satisfies all given "
                         "constraints, prefixes compared case-insensitively); %d get_tunings queries had a non-empty "
                         "answer and %d get_tuning queries returned a tuning" % (nonempty, found))

    # ------------------------------------------------------------------ 4. find_fingering against the brute-force spec
    G = "StringTuning.find_fingering"
    CA = "fingerings-are-exactly-the-distinct-string-assignments-sounding-the-notes-within-the-span"
    CB = "fingerings-ordered-by-total-fret-number"

    def playable_set(opens, k):
        """pitches produced by a random hand position (so that a fingering exists)"""
        strings = rnd.sample(range(len(opens)), min(k, len(opens)))
        base = rnd.randint(0, 21)
        return [opens[s] + (0 if rnd.random() < 0.25 else base + rnd.randint(0, 3)) for s in strings]

    per = 40 if quick else 700
    for ti, t in enumerate(tunings):
        opens = opens_of(t)
        n = len(opens)
        lo, hi = min(opens), max(opens)
        for j in range(per):
            k = rnd.choice([1, 1, 2, 2, 2, 3, 3, 3, 4, 4, 5, 6, n, n + 1])
            k = min(k, n + 1)
            mode = rnd.random()
            if mode < 0.5:
                pitches = playable_set(opens, k)
                while len(pitches) < k:
                    pitches.append(rnd.randint(lo, hi + 24))
            elif mode < 0.9:
                pitches = [rnd.randint(max(0, lo - 2), hi + 26) for _ in range(k)]
            else:
                pitches = [rnd.choice(opens) + rnd.choice([0, 0, 12, 5, 7, 24]) for _ in range(k)]
            rnd.shuffle(pitches)
            md = rnd.choice([None, None, None, 0, 1, 2, 3, 4, 5, 6, 8, 12, 30])
            form = rnd.randrange(3)
            if form == 0:
                arg = [Note().from_int(p) for p in pitches]
            elif form == 1:
                arg = [_spell(p, rnd.random() < 0.5) for p in pitches]
            else:
                arg = NoteContainer([_spell(p) for p in pitches])
                pitches = [_np(x) for x in arg.notes]
            R.case(G, (ti, tuple(pitches), md, form))
            ok, got = R.guard(G, CA, (tname(t), pitches, md, form),
                              lambda: t.find_fingering(arg) if md is None else t.find_fingering(arg, md))
            if not ok:
                continue
            spec = _spec_fingerings(opens, pitches, 4 if md is None else md)
            try:
                gl = [tuple((int(s), int(f)) for (s, f) in x) for x in got]
            except Exception:  # noqa
                R.fail(G, CA, "result is not a list of [(string, fret)] lists: %r" % (got,), (tname(t), pitches, md))
                continue
            if sorted(gl) != sorted(spec):
                miss = sorted(set(spec) - set(gl))[:2]
                extra = sorted(set(gl) - set(spec))[:2]
                R.fail(G, CA, "find_fingering(%r, max_distance=%r) on %s (open %r): %d fingerings, specification has %d; "
                       "missing %r, not allowed %r%s" % (pitches, md, tname(t), opens, len(gl), len(spec), miss, extra,
                                                         "" if miss or extra else " (duplicates)"),
                       (tname(t), pitches, md, form))
            sums = [sum(f for _, f in x) for x in gl]
            if sums != sorted(sums):
                R.fail(G, CB, "find_fingering(%r, %r) on %s: totals %r are not ascending" % (pitches, md, tname(t), sums[:12]),
                       (tname(t), pitches, md, form))
    R.assumptions.append("find_fingering: frets 0..24 are playable (the default maxfret of find_frets); the open string "
                         "of a course is its first string; the empty note list is not tried")

    # ------------------------------------------------------------------ 5. find_chord_fingering
    G = "StringTuning.find_chord_fingering"
    CC = {"only": "chord-fingering-sounds-only-pitch-classes-of-the-chord",
          "covers": "chord-fingering-covers-all-pitch-classes",
          "span": "chord-fingering-respects-the-span-limit",
          "fingers": "chord-fingering-respects-the-finger-limit",
          "shape": "chord-fingering-has-one-entry-per-string"}
    family = [t for t in tunings if "guitar" in t.instrument.lower() or t.instrument in ("Requinto", "Guitarrón")]
    fam_plain = [t for t in family if not has_course(t)]
    fam_course = [t for t in family if has_course(t)]
    shorthands = sorted(core_chords.chord_shorthand.keys())
    roots = ["C", "C#", "D", "Eb", "E", "F", "F#", "G", "Ab", "A", "Bb", "B"]
    n_fing = [0, 0]

    def check_chord(t, names, md, mf, mx, label):
        opens = opens_of(t)
        pcs = set(_pc(x) for x in names)
        kw = {}
        if md is not None:
            kw["max_distance"] = md
        if mf is not None:
            kw["maxfret"] = mf
        if mx is not None:
            kw["max_fingers"] = mx
        md_, mf_, mx_ = (4 if md is None else md), (18 if mf is None else mf), (4 if mx is None else mx)
        inp = (tname(t), label, names, kw)
        R.case(G, (tname(t), label, md, mf, mx))
        n_fing[1] += 1
        try:
            got = t.find_chord_fingering(list(names) if n_fing[1] % 3 else NoteContainer(list(names)), **kw)
        except TypeError as e:
            R.fail(G, CC["shape"], "find_chord_fingering(%r) on %s raised TypeError: %s" % (names, tname(t), e), inp,
                   finding="chord-fingering-course-tuning-type-error" if has_course(t) else None)
            return
        except Exception as e:  # noqa
            R.fail(G, CC["shape"], "find_chord_fingering(%r, %r) on %s raised %s: %s" % (names, kw, tname(t), type(e).__name__, e), inp)
            return
        if not isinstance(got, list):
            R.fail(G, CC["shape"], "result is %r" % (got,), inp)
            return
        n_fing[0] += len(got)
        for f in got:
            if not (isinstance(f, list) and len(f) == len(opens)
                    and all(x is None or (type(x) is int and 0 <= x <= mf_) for x in f)):
                R.fail(G, CC["shape"], "fingering %r for %s %r on %s (%d strings, maxfret %d) is not one fret-or-None per string"
                       % (f, label, names, tname(t), len(opens), mf_), inp)
                continue
            sounded = set((opens[i] + x) % 12 for i, x in enumerate(f) if x is not None)
            if not sounded <= pcs:
                R.fail(G, CC["only"], "fingering %r for %s %r on %s sounds pitch classes %r outside the chord %r"
                       % (f, label, names, tname(t), sorted(sounded - pcs), sorted(pcs)), inp)
            if not pcs <= sounded:
                R.fail(G, CC["covers"], "fingering %r for %s %r on %s misses pitch classes %r"
                       % (f, label, names, tname(t), sorted(pcs - sounded)), inp)
            nz = [x for x in f if x]
            if nz and not max(nz) - min(nz) < md_:
                R.fail(G, CC["span"], "fingering %r for %s on %s spans %d frets, max_distance %d"
                       % (f, label, tname(t), max(nz) - min(nz), md_), inp)
            if _model_fingers(f) > mx_:
                R.fail(G, CC["fingers"], "fingering %r for %s on %s needs %d fingers, max_fingers %d"
                       % (f, label, tname(t), _model_fingers(f), mx_), inp)

    def chord_names(root, sh):
        try:
            return core_chords.from_shorthand(root + sh)
        except Exception:  # noqa  (not C20's business)
            return None

    pairs = [(sh, r) for sh in shorthands for r in roots]
    if quick:
        # every shorthand x root once, the tuning rotating through the guitar family (default limits), plus
        # seeded limit variations
        for i, (sh, r) in enumerate(pairs):
            names = chord_names(r, sh)
            if names:
                check_chord(fam_plain[(i + seed) % len(fam_plain)], names, None, None, None, r + sh)
        for i in range(150):
            sh, r = rnd.choice(pairs)
            names = chord_names(r, sh)
            if names:
                check_chord(rnd.choice(fam_plain if i % 3 else plain), names, rnd.choice([1, 2, 3, 5, 6]),
                            rnd.choice([4, 11, 12, 15, 24]), rnd.choice([1, 2, 3, 4, 5, 6]), r + sh)
    else:
        for t in fam_plain:
            for (sh, r) in pairs:
                names = chord_names(r, sh)
                if names:
                    check_chord(t, names, None, None, None, r + sh)
        for i in range(2500):
            sh, r = rnd.choice(pairs)
            names = chord_names(r, sh)
            if names:
                check_chord(rnd.choice(fam_plain if i % 3 else plain), names, rnd.choice([1, 2, 3, 4, 5, 6]),
                            rnd.choice([4, 11, 12, 15, 18, 24]), rnd.choice([1, 2, 3, 4, 5, 6]), r + sh)
    for t in (fam_course + (coursed if not quick else coursed[:4])):
        check_chord(t, ["C", "E", "G"], None, None, None, "C")
    R.assumptions.append("find_chord_fingering: %d returned fingerings examined; completeness of the list is not part of the "
                         "statement and is not checked; the finger count of a fingering is modelled as one finger per "
                         "fretted string with a barre for the lowest fret above all open strings (<= the library's "
                         "fingers_needed, which also counts unplayed strings)" % n_fing[0])

    # ------------------------------------------------------------------ 6. tablature
    CL = "equally-long-lines-one-per-string"
    CR = "reading-frets-gives-back-pitches-in-order"
    CE = "no-possible-fingering-raises-fingering-or-range-error"
    prefix_len = {}

    def label_cols(t):
        """columns in front of the bar body (read off a rendered note, used only to classify widths)"""
        k = id(t)
        if k not in prefix_len:
            try:
                txt = tab.from_Note(Note().from_int(opens_of(t)[0]), 20, t)
                prefix_len[k] = txt.split("\n")[0].index("||")
            except Exception:  # noqa
                prefix_len[k] = 4
        return prefix_len[k]

    def check_block(G, blk, t, inp):
        """equal line lengths, one line per string carrying that string's label"""
        opens = opens_of(t)
        good = True
        if len(set(blk.line_lengths())) != 1:
            R.fail(G, CL, "string lines have lengths %r:\n%s" % (blk.line_lengths(), "\n".join(blk.raw)), inp)
            good = False
        if blk.n_lines != len(opens) or blk.open_pitches_bottom_up() != opens:
            R.fail(G, CL, "%d string lines labelled %r for the %d strings %r" % (blk.n_lines, blk.labels, len(opens), opens), inp)
            good = False
        return good

    def entry_pitches(nc):
        return sorted(_np(x) for x in nc)

    def has_fingering(opens, pitches):
        return bool(_spec_fingerings(opens, pitches, 4))

    def render(G, t, inp, fn, expect_error, empty_bar=False, course=False):
        """run a writer; classify exceptions.  -> text or None"""
        try:
            txt = fn()
        except (RangeError, FingerError) as e:
            if not expect_error:
                R.fail(G, CR, "raised %s (%s) although every entry has a fingering" % (type(e).__name__, e), inp)
            return None
        except AttributeError as e:
            R.fail(G, CL, "raised AttributeError: %s" % e, inp, finding="tab-course-tuning-attribute-error" if course else None)
            return None
        except UnboundLocalError as e:
            R.fail(G, CL, "raised UnboundLocalError: %s" % e, inp, finding="tab-empty-bar-unbound-index" if empty_bar else None)
            return None
        except Exception as e:  # noqa
            R.fail(G, CR, "raised %s: %s" % (type(e).__name__, e), inp)
            return None
        if expect_error:
            R.fail(G, CE, "an entry has no possible fingering but no FingerError / RangeError was raised:\n%s" % txt, inp)
            return None
        if not isinstance(txt, str):
            R.fail(G, CR, "result is %r" % (txt,), inp)
            return None
        return txt

    # --- 6a. from_Note: all plain tunings x notes 0..127 x widths
    G = "tablature.from_Note"
    widths = (0, 13, 40, 80) if quick else (0, 1, 7, 10, 13, 20, 31, 40, 64, 80, 81, 120)
    for ti, t in enumerate(plain):
        opens = opens_of(t)
        for p in range(0, 128):
            playable = any(0 <= p - o <= 24 for o in opens)
            for wi, w in enumerate(widths):
                note = Note().from_int(p) if (p + wi) % 2 else _spell(p, wi % 4 == 0)
                inp = (tname(t), repr(note), w)
                R.case(G, (ti, p, w))
                txt = render(G, t, inp, lambda: tab.from_Note(note, w, t), not playable)
                if txt is None:
                    continue
                systems = tabreader.read(txt)
                lines = txt.replace("\r\n", "\n").split("\n")
                if len(systems) != 1 or len(systems[0]) != 1 or systems[0][0].n_lines != len(lines):
                    R.fail(G, CL, "not a single block of string lines:\n%s" % txt, inp)
                    continue
                blk = systems[0][0]
                if check_block(G, blk, t, inp) and blk.bar_pitches() != [[[p]]]:
                    R.fail(G, CR, "note %r (pitch %d) reads back as %r:\n%s" % (note, p, blk.bar_pitches(), txt), inp)
    # default tuning / default width, and notes carrying string / fret attributes
    std = tab.default_tuning
    for p in range(0, 128):
        R.case(G, ("default", p))
        playable = any(0 <= p - o <= 24 for o in opens_of(std))
        txt = render(G, std, ("default tuning", p), lambda: tab.from_Note(Note().from_int(p)), not playable)
        if txt is not None:
            b = tabreader.read(txt)
            if not (len(b) == 1 and len(b[0]) == 1 and check_block(G, b[0][0], std, p) and b[0][0].bar_pitches() == [[[p]]]):
                R.fail(G, CR, "note %d at the default width / tuning reads back wrongly:\n%s" % (p, txt), ("default tuning", p))
    for ti, t in enumerate(plain):
        opens = opens_of(t)
        for s in range(len(opens)):
            for fret in (range(0, 25, 5) if quick else range(0, 25)):
                for wrong in (False, True):
                    p = opens[s] + fret
                    note = Note().from_int(p)
                    if wrong:   # attributes that name a valid position sounding another pitch: to be ignored
                        note.string, note.fret = (s + 1) % len(opens), (fret + 3) % 25
                        if opens[note.string] + note.fret == p:
                            continue
                    else:
                        note.string, note.fret = s, fret
                    inp = (tname(t), p, "string=%d fret=%d" % (note.string, note.fret))
                    R.case(G, (ti, s, fret, wrong))
                    txt = render(G, t, inp, lambda: tab.from_Note(note, 30, t), False)
                    if txt is None:
                        continue
                    b = tabreader.read(txt)
                    if not (len(b) == 1 and len(b[0]) == 1 and check_block(G, b[0][0], t, inp)):
                        continue
                    if b[0][0].bar_pitches() != [[[p]]]:
                        R.fail(G, CR, "note %d with %s reads back as %r:\n%s" % (p, inp[2], b[0][0].bar_pitches(), txt), inp)

    # --- course tunings: every writer
    G = "tablature (course tunings)"
    for t in coursed:
        p = opens_of(t)[0] + 2
        R.case(G, tname(t))
        txt = render(G, t, (tname(t), p), lambda: tab.from_Note(Note().from_int(p), 40, t), False, course=True)
        if txt is not None:
            b = tabreader.read(txt)
            if not (len(b) == 1 and len(b[0]) == 1 and check_block(G, b[0][0], t, tname(t)) and b[0][0].bar_pitches() == [[[p]]]):
                R.fail(G, CR, "note %d reads back wrongly:\n%s" % (p, txt), (tname(t), p))
        bar = Bar()
        bar.place_notes(_spell(p), 4)
        R.case(G, (tname(t), "bar"))
        txt = render(G, t, (tname(t), p, "bar"), lambda: tab.from_Bar(bar, 40, t), False, course=True)
        if txt is not None:
            b = tabreader.read(txt)
            if not (len(b) == 1 and len(b[0]) == 1 and check_block(G, b[0][0], t, tname(t)) and b[0][0].bar_pitches() == [[[p]]]):
                R.fail(G, CR, "bar with note %d reads back wrongly:\n%s" % (p, txt), (tname(t), p, "bar"))

    # --- 6b. from_NoteContainer
    G = "tablature.from_NoteContainer"
    per = 25 if quick else 500
    for ti, t in enumerate(plain):
        opens = opens_of(t)
        n = len(opens)
        for j in range(per):
            k = rnd.choice([1, 2, 2, 3, 3, 4, 5, 6])
            k = min(k, n + (1 if rnd.random() < 0.1 else 0))
            if rnd.random() < 0.75:
                pitches = playable_set(opens, k)
            else:
                pitches = [rnd.randint(max(0, min(opens) - 2), max(opens) + 26) for _ in range(k)]
            pitches = sorted(set(pitches))
            form = rnd.randrange(4)
            if form == 0:
                arg = NoteContainer([_spell(p) for p in pitches])
            elif form == 1:
                arg = [_spell(p, True) for p in pitches]
            elif form == 2:
                arg = [Note().from_int(p) for p in pitches]
            else:   # notes carrying positions (as produced by get_Note)
                arg = []
                for p in pitches:
                    cand = [(s, p - o) for s, o in enumerate(opens) if 0 <= p - o <= 24]
                    nt = Note().from_int(p)
                    if cand:
                        nt.string, nt.fret = rnd.choice(cand)
                    arg.append(nt)
            w = rnd.choice([0, 5, 12, 20, 31, 40, 80, None, rnd.randint(0, 140)])
            inp = (tname(t), pitches, "form %d" % form, w)
            R.case(G, (ti, tuple(pitches), form, w))
            poss = has_fingering(opens, pitches)
            txt = render(G, t, inp, (lambda: tab.from_NoteContainer(arg, tuning=t)) if w is None
                         else (lambda: tab.from_NoteContainer(arg, w, t)), not poss)
            if txt is None:
                continue
            systems = tabreader.read(txt)
            if len(systems) != 1 or len(systems[0]) != 1 or systems[0][0].n_lines != len(txt.replace("\r\n", "\n").split("\n")):
                R.fail(G, CL, "not a single block of string lines:\n%s" % txt, inp)
                continue
            blk = systems[0][0]
            if check_block(G, blk, t, inp) and blk.bar_pitches() != [[pitches]]:
                R.fail(G, CR, "notes %r read back as %r:\n%s" % (pitches, blk.bar_pitches(), txt), inp)

    # --- 6c. the SAME container rendered again under another tuning: a rendering must not depend on an earlier one
    #         (e.g. through positions remembered on the notes) nor change its argument
    G = "tablature.from_NoteContainer (same notes, second tuning)"
    pairs = [(a, b) for a in plain[:6] for b in plain if b is not a and len(opens_of(b)) < len(opens_of(a))][: (12 if quick else 60)]
    for pi, (ta, tb) in enumerate(pairs):
        oa, ob = opens_of(ta), opens_of(tb)
        for j in range(6 if quick else 40):
            k = rnd.choice([1, 2, 2, 3])
            pitches = sorted(set(playable_set(oa, k)))
            if not has_fingering(oa, pitches):
                continue
            arg = NoteContainer([_spell(p) for p in pitches])
            before = [(n.name, n.octave, getattr(n, "string", None), getattr(n, "fret", None)) for n in arg]
            inp = (tname(ta), tname(tb), pitches)
            R.case(G, (pi, tuple(pitches)))
            txt1 = render(G, ta, inp, lambda: tab.from_NoteContainer(arg, tuning=ta), False)
            if txt1 is None:
                continue
            after = [(n.name, n.octave, getattr(n, "string", None), getattr(n, "fret", None)) for n in arg]
            if after != before:
                R.fail(G, CR, "rendering changed its argument's notes from %r to %r" % (before, after), inp)
            poss = has_fingering(ob, pitches)
            txt = render(G, tb, inp, lambda: tab.from_NoteContainer(arg, tuning=tb), not poss)
            if txt is None:
                continue
            systems = tabreader.read(txt)
            if len(systems) != 1 or len(systems[0]) != 1:
                R.fail(G, CL, "not a single block of string lines:\n%s" % txt, inp)
                continue
            blk = systems[0][0]
            if check_block(G, blk, tb, inp) and blk.bar_pitches() != [[pitches]]:
                R.fail(G, CR, "second rendering: notes %r read back as %r:\n%s" % (pitches, blk.bar_pitches(), txt), inp)

    def notes_state(bars):
        """every attribute of every note of every entry (a rendering is a read: it leaves all of this alone)"""
        return [None if e[2] is None else [sorted((k, repr(v)) for k, v in vars(n).items()) for n in e[2]]
                for b in bars for e in b.bar]

    def unchanged(G, bars, before, inp):
        after = notes_state(bars)
        if after != before:
            diff = [(x, y) for x, y in zip(before, after) if x != y][:2]
            R.fail(G, CR, "rendering changed the notes it was given (a later rendering on another tuning reads them): %r"
                   % (diff,), inp)

    # --- bars
    from mingus.core import value as core_value
    durations = [1, 2, 4, 4, 4, 8, 8, 8, 16, 16, 32, core_value.dots(4), core_value.dots(8), core_value.dots(2),
                 core_value.triplet(8), core_value.triplet(4)]
    meters = [(4, 4), (4, 4), (3, 4), (2, 4), (6, 8), (5, 4), (2, 2), (12, 8), (7, 8)]

    def random_bar(t, opens, p_bad=0.0, p_rest=0.15, long_only=False):
        b = Bar("C", rnd.choice(meters))
        tries = 0
        while not b.is_full() and tries < 14:
            tries += 1
            d = rnd.choice(durations[:8] if long_only else durations)
            r = rnd.random()
            if r < p_rest:
                b.place_rest(d)
                continue
            k = rnd.choice([1, 1, 1, 2, 2, 3, 4])
            if rnd.random() < p_bad:
                pitches = [rnd.randint(0, 127) for _ in range(k)]
            else:
                pitches = playable_set(opens, k)
            form = rnd.randrange(4)
            if form == 0:
                b.place_notes([_spell(p) for p in pitches], d)
            elif form == 1:
                b.place_notes(NoteContainer([Note().from_int(p) for p in pitches]), d)
            elif form == 2 and len(pitches) == 1:
                b.place_notes(Note().from_int(pitches[0]), d)
            else:
                arg = []
                for p in sorted(set(pitches)):
                    nt = Note().from_int(p)
                    cand = [(s, p - o) for s, o in enumerate(opens) if 0 <= p - o <= 24]
                    if cand and rnd.random() < 0.7:
                        nt.string, nt.fret = rnd.choice(cand)
                    elif rnd.random() < 0.5:   # a valid position that sounds something else: must be ignored
                        nt.string, nt.fret = rnd.randrange(len(opens)), rnd.randint(0, 24)
                    arg.append(nt)
                b.place_notes(arg, d)
        return b

    def bar_model(b, opens, bar_width, pre):
        """-> (expected entries (sorted pitch lists, rests left out), first entry without fingering or None,
        'ok' | 'tight' | 'skip')"""
        exp, bad = [], None
        qsize = max(0, int(((bar_width - (pre - 2)) - 3) / 4.5))
        cls = "ok"
        ents = list(b.bar)
        for i, (beat, d, nc) in enumerate(ents):
            cols = min(int(((1.0 / d) * qsize) * 4), int(Fraction(4 * qsize) / Fraction(d).limit_denominator(10 ** 6)))
            if cols < 1:
                cls = "skip"
            if nc is None:
                continue
            ps = entry_pitches(nc)
            fs = _spec_fingerings(opens, ps, 4)
            if not fs and bad is None:
                bad = ps
            exp.append(ps)
            nxt = ents[i + 1][2] if i + 1 < len(ents) else None
            if nxt is not None and cls != "skip" and fs:
                digits = 2 if any(f >= 10 for x in fs for _, f in x) else 1
                if cols <= digits:
                    cls = "tight"
        return exp, bad, cls

    def roomy_width(bars, pre):
        """a bar width at which every sounding entry gets >= 3 columns and every rest >= 1"""
        q = 1
        for b in bars:
            for (_, d, nc) in b.bar:
                q = max(q, -(-3 * d // 4) if nc is not None else -(-d // 4))
        return int(4.5 * (int(q) + 1)) + pre + 4

    def roomy_page(bw):
        opts = [bw] if bw <= 60 else []
        if 61 <= 2 * bw <= 120:
            opts.append(2 * bw + rnd.randint(0, 1))
        if 3 * bw > 120:
            opts.append(3 * bw + rnd.randint(0, 2))
        return rnd.choice(opts)

    def compare_bars(G, blocks_bars, exp_bars, cls_bars, blk_of, t, txt, inp):
        """blocks_bars: list of (block, bar index in block) in reading order"""
        opens = opens_of(t)
        if len(blocks_bars) != len(exp_bars):
            R.fail(G, CR, "%d bars read back, %d written:\n%s" % (len(blocks_bars), len(exp_bars), txt), inp)
            return
        for (blk, bi), exp, cls in zip(blocks_bars, exp_bars, cls_bars):
            got = blk.bar_pitches()[bi]
            if got == exp:
                continue
            if cls == "tight":
                # the digits of neighbouring entries may touch; accept iff some split reads back the entries
                width = max(len(x) for x in blk.bodies)
                bodies = [x.ljust(width) for x in blk.bodies]
                cuts = [-1] + [c for c in range(width) if all(x[c] == "|" for x in bodies)]
                lo, hi = cuts[bi] + 1, (cuts[bi + 1] if bi + 1 < len(cuts) else width)
                if _lenient_bar(bodies, lo, hi, list(reversed(opens)), exp):
                    R.fail(G, CR, "entries %r read back as %r (numbers of neighbouring entries touch):\n%s" % (exp, got, "\n".join(blk.raw)),
                           inp, finding="tab-adjacent-entries-abut")
                    continue
            R.fail(G, CR, "bar %d: entries %r read back as %r:\n%s" % (bi, exp, got, "\n".join(blk.raw)), inp)

    # --- 6c. from_Bar
    G = "tablature.from_Bar"
    per = 30 if quick else 700
    n_skip = n_tight = 0
    for ti, t in enumerate(plain):
        opens = opens_of(t)
        pre = label_cols(t) + 2
        for j in range(per):
            bad_bar = rnd.random() < 0.12
            b = random_bar(t, opens, p_bad=0.35 if bad_bar else 0.0, long_only=rnd.random() < 0.4)
            if len(b.bar) == 0:
                continue
            roomy = roomy_width([b], pre) + rnd.randint(0, 60)
            w = rnd.choice([None, roomy, roomy, roomy, roomy, roomy, roomy, rnd.randint(8, 60), rnd.randint(30, 200)])
            exp, bad, cls = bar_model(b, opens, 40 if w is None else w, pre)
            if cls == "skip":
                n_skip += 1
                continue        # the width does not give every entry a column: outside the statement
            n_tight += cls == "tight"
            collapse = rnd.random() < 0.7
            inp = (tname(t), repr(b), w, collapse)
            R.case(G, (ti, repr(b), w))

            def bar_call():
                res = tab.from_Bar(b, tuning=t, collapse=collapse) if w is None else tab.from_Bar(b, w, t, collapse)
                if not collapse and isinstance(res, list) and all(isinstance(x, str) for x in res):
                    return "\n".join(res)
                return None if not collapse else res

            st0 = notes_state([b])
            txt = render(G, t, inp, bar_call, bad is not None)
            unchanged(G, [b], st0, inp)
            if txt is None:
                continue
            systems = tabreader.read(txt)
            if len(systems) != 1 or len(systems[0]) != 1:
                R.fail(G, CL, "not a single block of string lines:\n%s" % txt, inp)
                continue
            blk = systems[0][0]
            if not check_block(G, blk, t, inp):
                continue
            compare_bars(G, [(blk, i) for i in range(len(blk.bars()))], [exp], [cls], None, t, txt, inp)
    # the empty bar
    for t in (plain[:6] if quick else plain):
        for w in (20, 40, 80):
            R.case(G, (tname(t), "empty bar", w))
            txt = render(G, t, (tname(t), "Bar() without entries", w), lambda: tab.from_Bar(Bar(), w, t), False, empty_bar=True)
            if txt is not None:
                b = tabreader.read(txt)
                if not (len(b) == 1 and len(b[0]) == 1 and check_block(G, b[0][0], t, (tname(t), "empty bar", w))
                        and b[0][0].bar_pitches() == [[]]):
                    R.fail(G, CR, "empty bar reads back wrongly:\n%s" % txt, (tname(t), "empty bar", w))
    # the witness of the touching numbers, deterministically
    R.case(G, "touching numbers")
    wb = Bar()
    wb.place_notes("F-2", 4)
    wb.place_notes("G-2", 4)
    txt = render(G, std, ("Guitar standard", "F-2 G-2 quarters", 14), lambda: tab.from_Bar(wb, 14, std), False)
    if txt is not None:
        blk = tabreader.read(txt)[0][0]
        exp, bad, cls = bar_model(wb, opens_of(std), 14, label_cols(std) + 2)
        if cls != "skip":
            compare_bars(G, [(blk, 0)], [exp], [cls], None, std, txt, ("Guitar standard", "F-2 G-2 quarters", 14))

    # --- 6d. from_Track
    def bar_width_of(page):
        return page if page <= 60 else (page // 2 if page <= 120 else page // 3)

    def random_track(t, opens, nbars, p_bad, p_empty, how):
        tr = Track(Instrument()) if how == "instrument" else Track()
        if how in ("track", "instrument"):
            tr.set_tuning(t)
        if how == "both":            # the track has a tuning of its own; another one is passed to the writer, which wins
            tr.set_tuning(std if t is not std else plain[1])
        for _ in range(nbars):
            if rnd.random() < p_empty:
                tr.add_bar(Bar())
            else:
                b = random_bar(t, opens, p_bad=p_bad, long_only=rnd.random() < 0.6)
                if len(b.bar):
                    tr.add_bar(b)
        return tr

    def track_model(tr, opens, bw, pre):
        exps, clss, bad, empty = [], [], None, False
        for b in tr.bars:
            if len(b.bar) == 0:
                empty = True
            e, bd, c = bar_model(b, opens, bw, pre)
            exps.append(e)
            clss.append(c)
            if bad is None and bd is not None:
                bad = bd
        return exps, clss, bad, empty

    G = "tablature.from_Track"
    per = 12 if quick else 200
    for ti, t in enumerate(plain):
        opens = opens_of(t)
        pre = label_cols(t) + 2
        for j in range(per):
            how = rnd.choice(["argument", "track", "instrument", "default", "both"])
            tt = std if how == "default" else t
            oo = opens_of(tt)
            tr = random_track(tt, oo, rnd.randint(1, 7), 0.3 if rnd.random() < 0.1 else 0.0,
                              0.2 if rnd.random() < 0.08 else 0.0, how)
            if not tr.bars:
                continue
            roomy = roomy_page(roomy_width(tr.bars, label_cols(tt) + 2) + rnd.randint(0, 30))
            page = rnd.choice([None, roomy, roomy, roomy, roomy, roomy, roomy, rnd.choice([60, 61, 80, 120, 121]),
                               rnd.randint(20, 260)])
            pg = 80 if page is None else page
            exps, clss, bad, empty = track_model(tr, oo, bar_width_of(pg), label_cols(tt) + 2)
            if "skip" in clss:
                continue
            inp = (tname(tt), "tuning by " + how, [repr(b) for b in tr.bars], page)
            R.case(G, (ti, j, page))
            kw = {}
            if page is not None:
                kw["maxwidth"] = page
            if how in ("argument", "both"):
                kw["tuning"] = tt
            st0 = notes_state(tr.bars)
            try:
                txt = tab.from_Track(tr, **kw)
                unchanged(G, tr.bars, st0, inp)
            except TypeError as e:
                R.fail(G, CR, "from_Track(maxwidth=%r) raised TypeError: %s" % (page, e), inp,
                       finding="tab-track-float-width" if pg > 60 else None)
                continue
            except UnboundLocalError as e:
                R.fail(G, CL, "raised UnboundLocalError: %s" % e, inp, finding="tab-empty-bar-unbound-index" if empty else None)
                continue
            except (RangeError, FingerError) as e:
                if bad is None:
                    R.fail(G, CR, "raised %s (%s) although every entry has a fingering" % (type(e).__name__, e), inp)
                continue
            except Exception as e:  # noqa
                R.fail(G, CR, "raised %s: %s" % (type(e).__name__, e), inp)
                continue
            if bad is not None:
                R.fail(G, CE, "entry %r has no possible fingering but no FingerError / RangeError was raised" % (bad,), inp)
                continue
            systems = tabreader.read(txt)
            seq = []
            good = True
            for sy in systems:
                if len(sy) != 1:
                    R.fail(G, CL, "a system of a single track holds %d blocks:\n%s" % (len(sy), txt), inp)
                    good = False
                    break
                good = check_block(G, sy[0], tt, inp) and good
                seq += [(sy[0], i) for i in range(len(sy[0].bars()))]
            if good:
                compare_bars(G, seq, exps, clss, None, tt, txt, inp)

    # --- 6e. from_Composition
    G = "tablature.from_Composition"
    words = ["blues", "in", "E", "opus", "12", "no.", "3", "a-b", "x|y", "1-2-3", "for", "two", "guitars", "24", "0"]
    per = 200 if quick else 4000
    for j in range(per):
        c = Composition()
        ntr = rnd.choice([1, 1, 2, 2, 3])
        tts = []
        same_len = rnd.random() < 0.5
        nb = rnd.randint(1, 6)
        p_empty = 0.2 if rnd.random() < 0.06 else 0.0
        p_bad = 0.3 if rnd.random() < 0.08 else 0.0
        for k in range(ntr):
            how = rnd.choice(["track", "track", "instrument", "default"])
            tt = std if how == "default" else rnd.choice(plain)
            tr = random_track(tt, opens_of(tt), nb if same_len else rnd.randint(1, 6), p_bad, p_empty, how)
            if tr.bars:
                c.add_track(tr)
                tts.append(tt)
        if not c.tracks:
            continue
        if rnd.random() < 0.7:
            c.set_title(" ".join(rnd.sample(words, 3)), " ".join(rnd.sample(words, rnd.randint(0, 3))))
        if rnd.random() < 0.5:
            c.set_author(" ".join(rnd.sample(words, 2)), rnd.choice(["", "a1@b2.c3"]))
        if rnd.random() < 0.5:
            c.description = " ".join(rnd.choice(words) for _ in range(rnd.randint(1, 40)))
        roomy = roomy_page(max(roomy_width(tr.bars, label_cols(tt) + 2) for tr, tt in zip(c.tracks, tts)) + rnd.randint(0, 30))
        page = rnd.choice([None, roomy, roomy, roomy, roomy, roomy, roomy, rnd.choice([60, 61, 80, 120, 121]), rnd.randint(24, 260)])
        pg = 80 if page is None else page
        models = [track_model(tr, opens_of(tt), bar_width_of(pg), label_cols(tt) + 2) for tr, tt in zip(c.tracks, tts)]
        if any("skip" in m[1] for m in models):
            continue
        anybad = any(m[2] is not None for m in models)
        anyempty = any(m[3] for m in models)
        inp = ([(tname(tt), [repr(b) for b in tr.bars]) for tr, tt in zip(c.tracks, tts)], page)
        R.case(G, (j, page))
        st0 = notes_state([b for tr in c.tracks for b in tr.bars])
        try:
            txt = tab.from_Composition(c) if page is None else tab.from_Composition(c, page)
            unchanged(G, [b for tr in c.tracks for b in tr.bars], st0, inp)
            # asked again, the same composition gives the same tablature (nothing of the first rendering is kept)
            again = tab.from_Composition(c) if page is None else tab.from_Composition(c, page)
            if again != txt:
                R.fail(G, CL, "the same composition rendered a second time gives another tablature (%d lines, then %d)"
                       % (len(str(txt).splitlines()), len(str(again).splitlines())), inp)
        except TypeError as e:
            R.fail(G, CR, "from_Composition(width=%r) raised TypeError: %s" % (page, e), inp, finding="tab-composition-float-bars")
            continue
        except UnboundLocalError as e:
            R.fail(G, CL, "raised UnboundLocalError: %s" % e, inp, finding="tab-empty-bar-unbound-index" if anyempty else None)
            continue
        except (RangeError, FingerError) as e:
            if not anybad:
                R.fail(G, CR, "raised %s (%s) although every entry has a fingering" % (type(e).__name__, e), inp)
            continue
        except Exception as e:  # noqa
            R.fail(G, CR, "raised %s: %s" % (type(e).__name__, e), inp)
            continue
        if anybad:
            R.fail(G, CE, "an entry has no possible fingering but no FingerError / RangeError was raised", inp)
            continue
        # hand the blocks of every system to the tracks that still have bars left, in track order
        seqs = [[] for _ in c.tracks]
        good = True
        for sy in tabreader.read(txt):
            live = [i for i in range(len(c.tracks)) if len(seqs[i]) < len(c.tracks[i].bars)]
            if len(sy) != len(live):
                R.fail(G, CL, "a system holds %d blocks of string lines, %d tracks still have bars:\n%s" % (len(sy), len(live), txt), inp)
                good = False
                break
            for blk, i in zip(sy, live):
                good = check_block(G, blk, tts[i], inp) and good
                seqs[i] += [(blk, bi) for bi in range(len(blk.bars()))]
        if good:
            for i in range(len(c.tracks)):
                compare_bars(G, seqs[i], models[i][0], models[i][1], None, tts[i], txt, inp + ("track %d" % i,))
    # the composition without tracks
    R.case(G, "no tracks")
    try:
        txt = tab.from_Composition(Composition(), 60)
        if tabreader.read(txt):
            R.fail(G, CL, "string lines in the tablature of a composition without tracks:\n%s" % txt, "Composition()")
    except ValueError as e:
        R.fail(G, CL, "Composition() without tracks raised ValueError: %s" % e, "Composition()", finding="tab-empty-composition-max")
    except Exception as e:  # noqa
        R.fail(G, CL, "Composition() without tracks raised %s: %s" % (type(e).__name__, e), "Composition()")

    R.assumptions.append("tablature: tunings are the %d registered ones without courses (plus one probe per course tuning); "
                         "an entry 'has a possible fingering' iff the brute-force specification with span 4 and frets "
                         "0..24 is non-empty; rests are invisible in a tablature and are left out of the read-back; "
                         "widths that leave some entry without a column are skipped (%d bars skipped, %d bars in the "
                         "touching-numbers region); empty note containers and out-of-range string/fret attributes are not tried; "
                         "the beat-mark line and the header of a composition are not examined"
                         % (len(plain), n_skip, n_tight))
    rule = ("%d registered tunings (%d with courses) x all strings x notes 0..127 x %d maxfret values (+default) for find_frets; "
            "strings -2..n+1 x frets -2..maxfret+2 x %d maxfret values for get_Note; all instrument-name prefixes (mixed case) x "
            "string counts %r x course counts %r for get_tunings, x description prefixes for get_tuning; %d seeded note sets "
            "(1..n+1 notes, 3 input forms, max_distance 0..30) per tuning against the brute-force fingering specification; "
            "%d chord shorthands x 12 roots, %s guitar-family tunings without courses, plus seeded limit variations; tablature: notes 0..127 x "
            "%d widths x %d plain tunings for from_Note, %d note sets, %d bars and %d tracks per plain tuning, %d compositions "
            "(1-3 tracks; page widths from 8 columns up to those giving a 32nd note three columns), each rendered and read back by an independent tab reader; tier %s, seed %d"
            % (len(tunings), len(coursed), len(mfs), 5 if quick else 8, nss, ncs, 40 if quick else 700, len(shorthands),
               "rotating over the %d" % len(fam_plain) if quick else "each of the %d" % len(fam_plain),
               len(widths), len(plain), 25 if quick else 500, 30 if quick else 700, 12 if quick else 200,
               200 if quick else 4000, tier, seed))
    return R.result(rule, exhaustive=False)
