"""CLI of the run-time contract layer; executed by ./check under /venv/bin/python (the
interpreter the repository's own test-suite uses).

  python -m bounded.run battery  <out.json> <tier> <seed> <fq> [<fq> ...]
  python -m bounded.run replay   <replay.json>
  python -m bounded.run driver   <out.json> <tier> <seed> <property-id>
"""
import json
import os
import random
import sys
import time
import traceback

sys.dont_write_bytecode = True
HERE = os.path.dirname(os.path.abspath(__file__))
sys.path.insert(0, os.path.dirname(HERE))

from bounded import rt, batteries  # noqa: E402


def run_battery(fq, tier, seed):
    c = rt.CONTRACTS[fq]
    bname = c.get("battery")
    if not bname:
        return {"function": fq, "battery": None, "evaluations": 0, "failures": [], "skipped": 0}
    rnd = random.Random(seed)
    b = batteries.get(bname)(tier, rnd)
    fn = rt.resolve(fq)
    n = ok = skipped = ntimeouts = 0
    failures = []
    nontrivial = set()
    t0 = time.time()
    for args in b["cases"]:
        kwargs = {}
        if isinstance(args, dict):
            kwargs, args = args, ()
        r = rt.check_call(fq, args, kwargs, c, fn)
        if r["status"] == "skip":
            skipped += 1
            continue
        n += 1
        nontrivial.add(r.get("observed"))
        if r.get("timeout"):
            ntimeouts += 1
            if ntimeouts >= 3:
                failures.append({"args": rt.jsonable(list(args)), "kwargs": rt.jsonable(kwargs),
                                 "failures": r["failures"], "observed": r["observed"]})
                break
        if r["status"] == "fail":
            if len(failures) < 8:
                failures.append({"args": rt.jsonable(list(args)), "kwargs": rt.jsonable(kwargs),
                                 "failures": r["failures"], "observed": r["observed"]})
        else:
            ok += 1
    return {"function": fq, "battery": bname, "rule": b.get("rule"), "exhaustive_upto": b.get("exhaustive_upto"),
            "evaluations": n, "passed": ok, "skipped": skipped, "n_failing": n - ok,
            "distinct_observations": len(nontrivial), "failures": failures,
            "sample": rt.jsonable(list(b["cases"][len(b["cases"]) // 2])) if b["cases"] else None,
            "wall_s": round(time.time() - t0, 3)}


def main(argv):
    mode = argv[1]
    if mode in ("battery", "driver"):
        from bounded import warmup
        warmup.run()        # the checks run in a USED interpreter (see bounded/warmup.py)
    if mode == "battery":
        out, tier, seed = argv[2], argv[3], int(argv[4])
        res = []
        for fq in argv[5:]:
            try:
                res.append(run_battery(fq, tier, seed))
            except Exception:
                res.append({"function": fq, "error": traceback.format_exc()})
        with open(out, "w") as f:
            json.dump(res, f)
        return 0
    if mode == "replay":
        with open(argv[2]) as f:
            rp = json.load(f)
        fq = rp["function"]
        kwargs = dict((k, rt.unjson(v)) for k, v in (rp.get("inputs") or {}).items())
        args = [rt.unjson(a) for a in rp.get("args", [])]
        r = rt.check_call(fq, args, kwargs)
        print(json.dumps({"function": fq, "status": r["status"], "failures": r.get("failures"),
                          "observed": r.get("observed"), "why": r.get("why")}))
        return 1 if r["status"] == "fail" else 0
    if mode == "driver":
        out, tier, seed, pid = argv[2], argv[3], int(argv[4]), argv[5]
        import importlib
        try:
            mod = importlib.import_module("bounded.drivers." + pid)
        except ImportError:
            with open(out, "w") as f:
                json.dump({"property": pid, "driver": None}, f)
            return 0
        # a driver normally takes a minute or two (quick) / up to half an hour (thorough); a library function that no
        # longer returns would hold it for ever.  After a very generous limit the run is stopped and reported with
        # the library frames it was in: not terminating is a failure of every clause that needs an answer.
        import signal
        limit = int(os.environ.get("VERIF_DRIVER_LIMIT_S", "1500" if tier == "quick" else "10800"))

        class _Stuck(BaseException):
            pass

        # ... and a driver that HAS ALREADY FOUND violations and runs far beyond the usual time of a driver is stopped
        # there: what it found is reported, nothing is claimed about the rest (a broken tree can make a driver crawl)
        soft = int(os.environ.get("VERIF_DRIVER_SOFT_LIMIT_S", "420" if tier == "quick" else "5400"))
        state = {"t0": time.time(), "early": False}

        def _alarm(signum, frame):
            from bounded import drv as _drv
            cur = getattr(_drv.Recorder, "current", None)
            elapsed = time.time() - state["t0"]
            if elapsed < limit - 1:
                if cur is not None and cur.failures:
                    state["early"] = True
                    raise _Stuck()
                signal.alarm(max(1, int(min(60, limit - elapsed))))
                return
            raise _Stuck()
        signal.signal(signal.SIGALRM, _alarm)
        signal.alarm(min(soft, limit))
        try:
            res = mod.run(tier, seed)
        except _Stuck:
            frames = [l for l in traceback.format_exc().split("\n") if "/mingus/" in l or "drivers/" in l]
            stuck = {"function": "driver %s" % pid, "clause": "terminates",
                     "what": "the driver did not finish within %d s (a call into the library does not return?)" % limit,
                     "inputs": " | ".join(x.strip() for x in frames[-8:])[:2000]}
            from bounded import drv
            cur = getattr(drv.Recorder, "current", None)
            if cur is not None and state["early"]:
                res = cur.result("stopped after %d s with violations already found (the rest of the driver was not run)"
                                 % int(time.time() - state["t0"]))
            elif cur is not None:
                res = cur.result("stopped after %d s" % limit)
                res["failures"] = list(res.get("failures") or []) + [stuck]
            else:
                res = {"property": pid, "evaluations": 0, "distinct_nontrivial": 0, "rule": "stopped after %d s" % limit,
                       "groups": {}, "samples": [], "known": [], "assumptions": [], "exhaustive": False, "failures": [stuck]}
        except Exception:
            res = {"property": pid, "error": traceback.format_exc()}
        finally:
            signal.alarm(0)
        with open(out, "w") as f:
            json.dump(res, f)
        return 0
    if mode == "findings":
        # replay the witnesses of the known findings of one property on the real code
        out, pid = argv[2], argv[3]
        with open(os.path.join(os.path.dirname(HERE), "known_findings.json")) as f:
            kf = json.load(f)
        res = []
        import inspect
        for k in kf.get("findings", []):
            if k.get("property") != pid or not k.get("clause"):
                continue
            try:
                if k.get("witness_code"):
                    ns = dict(rt.SPEC_NS)
                    exec(k["witness_code"], ns)
                    ok = bool(ns.get("holds"))
                    observed = rt.short(ns.get("observed"))
                else:
                    fn = rt.resolve(k["function"])
                    args = [rt.unjson(a) for a in k.get("args", [])]
                    ba = inspect.signature(fn).bind(*args)
                    ba.apply_defaults()
                    env = dict(ba.arguments)
                    try:
                        env["result"] = fn(*args)
                        env["raised"] = None
                        observed = rt.short(env["result"])
                    except Exception as e:  # noqa
                        env["result"] = None
                        env["raised"] = type(e).__name__
                        observed = "raised %s" % type(e).__name__
                    ok = bool(rt.ev(k["clause"], env))
            except Exception as e:
                ok, observed = False, "witness not evaluable: %r" % (e,)
            res.append({"id": k["id"], "function": k.get("function"), "reproduces": not ok, "observed": observed,
                        "what": k.get("what")})
        with open(out, "w") as f:
            json.dump(res, f)
        return 0
    print(__doc__)
    return 2


if __name__ == "__main__":
    sys.exit(main(sys.argv))
