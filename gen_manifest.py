#!/usr/bin/env python3
"""Regenerates MANIFEST.json from contracts/properties_meta.py (kept in sync by hand-run; committed output)."""
import json, os, sys
sys.path.insert(0, os.path.dirname(os.path.abspath(__file__)))
from contracts.properties_meta import META, NOT_APPLICABLE
ALL = ["C%02d" % i for i in range(1, 21)]
checks = []
for pid in ALL:
    m = META.get(pid)
    if not m or not m.get("claimed"):
        continue
    checks.append({
        "property_id": pid,
        "quick_cmd": "./check %s --tier quick" % pid,
        "thorough_cmd": "./check %s --tier thorough" % pid,
        "evidence_file": "/verif/evidence/%s.json" % pid,
        "replay_cmd_template": "./check %s --replay {path}" % pid,
        "engine": "pyvc",
        "level_claimed": {"category": m["level"], "text": m["level_text"], "design_ref": m.get("design_ref", "DESIGN.md §9 " + pid)},
        "level_note": m["level_note"],
        "technique": m["technique"],
    })
na = [{"property_id": p, "reason": NOT_APPLICABLE[p]} for p in ALL if p in NOT_APPLICABLE]
claimed = set(c["property_id"] for c in checks)
for p in ALL:
    assert (p in claimed) != (p in NOT_APPLICABLE), p
man = {
    "version": 1,
    "setup_cmd": "python3-vt -m pyvc.selftest",
    "hooks": {
        "guard": "MINGUS_VERIF",
        "enable": "set by ./check for its own processes; no repository source reads it (contracts, wrappers and ghost state are sidecars under /verif)",
        "baseline_off_cmd": "cd /repo && /venv/bin/python -m pytest -ra -q -p no:cacheprovider --timeout=900 --continue-on-collection-errors",
        "source_commits": [],
        "add_only": True,
    },
    "engines": [{"name": "pyvc", "path": "/verif/pyvc", "serves_properties": sorted(claimed),
                 "kind_free_text": "contract-based deductive verifier for a Python subset: re-parses the real function ASTs under /repo on every run, generates per-path verification conditions from sidecar contracts (pre/post, raises-iff, loop invariants and variants, frames), discharges them with z3 (cvc5 on unknown); bounded stand-ins = the same contracts evaluated at run time on the real functions under /venv/bin/python"}],
    "checks": checks,
    "not_applicable": na,
    "notes": "exit codes of ./check: 0 held (UNDECIDED / NOT-PROVED lines, if any, mean the deductive layer left items open on that tree while every bounded stand-in held; the evidence counts them as undischarged; VERIF_STRICT=1 makes that exit 2), 1 VIOLATION (+replay file), 3 checker error. Known findings: /verif/known_findings.json.",
}
with open(os.path.join(os.path.dirname(os.path.abspath(__file__)), "MANIFEST.json"), "w") as f:
    json.dump(man, f, indent=1)
print("claimed", sorted(claimed), "n/a", [x["property_id"] for x in na])
