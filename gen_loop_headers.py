#!/usr/bin/env python3
"""Dev helper: records the header text of every loop that carries an invariant (contracts/loop_headers.json).
A loop invariant is an annotation of ONE loop as written; if that loop is later rewritten (other header), the
annotation is stale and the function is reported UNDECIDED (binding error), never as a violation."""
import ast, json, os, sys
sys.path.insert(0, os.path.dirname(os.path.abspath(__file__)))
sys.path.insert(0, "/repo")
from pyvc.engine import Engine
from pyvc.symexec import Frame, loop_header, local_names
e = Engine()
out = {}
for fq, c in sorted(e.contracts.items()):
    if not c.get("loops") or "#" in fq:
        continue
    fref = e.funcref_by_name(fq)
    fr = Frame(fref, {}, fref.module)
    heads = {}
    for node in ast.walk(fref.node):
        if id(node) in fr.loop_ord and fr.loop_ord[id(node)] in c["loops"]:
            heads[str(fr.loop_ord[id(node)])] = loop_header(node)
    heads["locals"] = local_names(fref.node)
    out[fq] = heads
json.dump(out, open(os.path.join(os.path.dirname(os.path.abspath(__file__)), "contracts", "loop_headers.json"), "w"), indent=1, sort_keys=True)
print(len(out), "functions,", sum(len(v) for v in out.values()), "annotated loops")
