#!/usr/bin/env python3
"""Dev helper: re-run the quick check of one kept seeded change on a scratch copy of /repo with the change applied and
record the verdict in its meta.json under "regression" (the final state of the checks against every kept change).
usage: seed_regress.py <PID>-<n>"""
import json, os, shutil, subprocess, sys, tempfile, time
V = os.path.dirname(os.path.abspath(__file__))


def main():
    sid = sys.argv[1]
    d = os.path.join(V, "seeded", sid)
    pid = sid.split("-")[0]
    tmp = tempfile.mkdtemp(prefix="regr-")
    try:
        mut = os.path.join(tmp, "mut")
        os.makedirs(mut)
        shutil.copytree("/repo/mingus", os.path.join(mut, "mingus"))
        p = subprocess.run("patch -p1 -s < %s" % os.path.join(d, "patch.diff"), shell=True, cwd=mut, capture_output=True, text=True)
        t0 = time.time()
        env = dict(os.environ, VERIF_REPO=mut, VERIF_EVIDENCE_DIR=os.path.join(tmp, "ev"))
        r = subprocess.run("./check %s --tier quick" % pid, shell=True, cwd=V, env=env, capture_output=True, text=True, timeout=3000)
        out = r.stdout + r.stderr
        viol = [l[:300] for l in out.split("\n") if l.startswith("VIOLATION")]
        rec = {"patch_applies": p.returncode == 0, "exit": r.returncode, "violation_lines": len(viol), "first": viol[:1],
               "s": round(time.time() - t0, 1)}
        m = json.load(open(os.path.join(d, "meta.json")))
        m["regression"] = rec
        json.dump(m, open(os.path.join(d, "meta.json"), "w"), indent=1, default=str)
        print(sid, "exit", r.returncode, "violations", len(viol), "%.0fs" % rec["s"], "" if p.returncode == 0 else "PATCH-FAILED")
    finally:
        shutil.rmtree(tmp, ignore_errors=True)


if __name__ == "__main__":
    main()
