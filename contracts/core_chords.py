"""Contracts for mingus.core.chords (C06 builders and tables; C08 diatonic chords)."""

M = "mingus.core.chords."

CONTRACTS = {}
INLINE = set([M + "<lambda>"])

# chord formulas by builder: every note after the root as (letters above the root, semitones of the interval
# constructor it is built with, adjustment by an explicit augment/diminish) -- from music theory / the property text.
MAJ = [(2, 4, 0), (4, 7, 0)]
MIN = [(2, 3, 0), (4, 7, 0)]
DIM = [(2, 3, 0), (4, 6, 0)]
AUG = [(2, 4, 0), (4, 7, 1)]
SUS4 = [(3, 5, 0), (4, 7, 0)]
M7 = MAJ + [(6, 11, 0)]
m7 = MIN + [(6, 10, 0)]
DOM7 = MAJ + [(6, 10, 0)]
M6 = MAJ + [(5, 9, 0)]
BUILDERS = {
    "major_triad": MAJ, "minor_triad": MIN, "diminished_triad": DIM, "augmented_triad": AUG,
    "major_seventh": M7, "minor_seventh": m7, "dominant_seventh": DOM7,
    "half_diminished_seventh": DIM + [(6, 10, 0)], "minor_seventh_flat_five": DIM + [(6, 10, 0)],
    "diminished_seventh": DIM + [(6, 10, -1)], "minor_major_seventh": MIN + [(6, 11, 0)],
    "minor_sixth": MIN + [(5, 9, 0)], "major_sixth": M6, "dominant_sixth": M6 + [(6, 10, 0)],
    "sixth_ninth": M6 + [(1, 2, 0)], "minor_ninth": m7 + [(1, 2, 0)], "major_ninth": M7 + [(1, 2, 0)],
    "dominant_ninth": DOM7 + [(1, 2, 0)], "dominant_flat_ninth": DOM7 + [(1, 1, 0)],
    "dominant_sharp_ninth": DOM7 + [(1, 2, 1)],
    "eleventh": [(4, 7, 0), (6, 10, 0), (3, 5, 0)], "minor_eleventh": m7 + [(3, 5, 0)],
    "major_eleventh": M7 + [(1, 2, 0), (3, 5, 0)],
    "minor_thirteenth": m7 + [(1, 2, 0), (5, 9, 0)], "major_thirteenth": M7 + [(1, 2, 0), (5, 9, 0)],
    "dominant_thirteenth": DOM7 + [(1, 2, 0), (5, 9, 0)],
    "suspended_triad": SUS4, "suspended_fourth_triad": SUS4, "suspended_second_triad": [(1, 2, 0), (4, 7, 0)],
    "suspended_seventh": SUS4 + [(6, 10, 0)], "suspended_fourth_ninth": SUS4 + [(1, 1, 0)],
    "augmented_major_seventh": AUG + [(6, 11, 0)], "augmented_minor_seventh": AUG + [(6, 10, 0)],
    "dominant_flat_five": [(2, 4, 0), (4, 7, -1), (6, 10, 0)],
    "lydian_dominant_seventh": DOM7 + [(3, 5, 1)], "hendrix_chord": DOM7 + [(2, 3, 0)],
}


def builder_contract(steps, root="note"):
    ens = [("starts-on-the-root", "result[0] == %s" % root), ("a-list-of-its-own-every-time", "is_fresh(result)")]
    for i, (d, s, adj) in enumerate(steps):
        L = "lup(%s[0], %d)" % (root, d)
        ens.append(("note%d-letter" % (i + 1), "result[%d][0] == %s" % (i + 1, L)))
        ens.append(("note%d-semitones" % (i + 1), "pc(result[%d]) == (pc(%s) + %d) %% 12" % (i + 1, root, s + adj)))
        ens.append(("note%d-valid-name" % (i + 1), "is_name(result[%d])" % (i + 1)))
        ens.append(("note%d-exact-accidentals" % (i + 1),
                    "net(result[%d]) == ctor_net(%s, %d, %s) + %d" % (i + 1, L, s, root, adj)))
    return dict(params={root: "str"}, requires="is_name(%s)" % root,
                returns="[=%s%s]" % (root, ", str" * len(steps)), ensures=ens, modifies=[],
                properties=["C06"], battery="names4")


for _nm, _steps in BUILDERS.items():
    CONTRACTS[M + _nm] = builder_contract(_steps)


# chords.from_shorthand (the parser): outside the VC generator's reach for now (replace chain, two scanning loops,
# recursion through slash/polychord) -> bounded stand-in: the contract below is evaluated at run time on the real
# function over a systematic enumeration; it is NOT counted as proved.
CONTRACTS[M + "from_shorthand"] = dict(
    params={"shorthand_string": "str|list[any]", "slash": "None"},
    requires="chord_spec(shorthand_string)[0] != 'unspecified'",
    returns="list[any]",
    ensures=[("chord-the-grammar-prescribes", "result == chord_spec(shorthand_string)[1]")],
    raises={"NoteFormatError": "chord_spec(shorthand_string)[0] == 'NoteFormatError'",
            "FormatError": "chord_spec(shorthand_string)[0] == 'FormatError'"},
    bounded_only="parser with str.replace chain and recursion; checked at run time over the enumeration of battery "
                 "'chord_shorthand_strings'",
    properties=["C06"], battery="chord_shorthand_strings")


# ---------------------------------------------------------------- rotations (C07 inversions; C15: argument untouched, result fresh)
for _nm, _k in (("invert", 1), ("first_inversion", 1), ("second_inversion", 2), ("third_inversion", 3)):
    for _n in (1, 2, 3, 4, 5, 6, 7):
        pass
    CONTRACTS[M + _nm] = dict(
        params={"chord": "[str,str,str]"}, returns="list[any]",
        result_is="chord[%d %% len(chord):] + chord[:%d %% len(chord)]" % (_k, _k),
        old={"old_chord": "chord"},
        ensures=[("rotated-by-%d" % _k, "len(result) == len(chord) and "
                                          "all([result[i] == chord[(i + %d) %% len(chord)] for i in range(len(chord))])" % _k),
                 ("argument-unchanged", "list_same(chord, old_chord)"), ("fresh-list", "is_fresh(result) and not same_object(result, chord)")],
        modifies=[],
        variants=[dict(name="n%d" % n, params={"chord": "[" + ",".join(["str"] * n) + "]"}) for n in (1, 2, 4, 5, 6, 7)],
        notes="proved for chords of 1..7 notes with arbitrary names (the sizes chord recognition uses)",
        properties=["C07", "C15"], battery="chord_lists")


# ---------------------------------------------------------------- chord recognition: the documented trivial answers
_ORD = {1: "", 2: ", first inversion", 3: ", second inversion", 4: ", third inversion", 5: ", fourth inversion",
        6: ", fifth inversion", 7: ", sixth inversion"}
CONTRACTS[M + "int_desc"] = dict(
    params={"tries": "int"}, requires="1 <= tries and tries <= 7", returns="str",
    ensures=[("ordinal-text-for-every-inversion-a-7-note-chord-can-reach",
              "result == ('' if tries == 1 else ', first inversion' if tries == 2 else ', second inversion' if tries == 3 "
              "else ', third inversion' if tries == 4 else ', fourth inversion' if tries == 5 else ', fifth inversion' "
              "if tries == 6 else ', sixth inversion')")],
    modifies=[], split=[{"bind": {"tries": t}} for t in range(1, 8)], properties=["C07"], battery="small_ints")
CONTRACTS[M + "determine"] = dict(
    params={"chord": "[]", "shorthand": "bool", "no_inversions": "bool", "no_polychords": "bool"},
    returns="list[any]", result_is="[]", modifies=[],
    variants=[dict(name="one-note", params={"chord": "[str]", "shorthand": "bool", "no_inversions": "bool",
                                            "no_polychords": "bool"}, result_is="[chord[0]]"),
              dict(name="two-notes", params={"chord": "[str,str]", "shorthand": "bool", "no_inversions": "bool",
                                             "no_polychords": "bool"},
                   requires="is_name(chord[0]) and is_name(chord[1]) and 0 <= asc_distance(chord[0], chord[1]) and "
                            "asc_distance(chord[0], chord[1]) <= 11",
                   result_is="[quality_name(asc_distance(chord[0], chord[1]) - maj_semis(letters_spanned(chord[0], chord[1]) + 1), "
                             "letters_spanned(chord[0], chord[1])) + ' ' + number_name(letters_spanned(chord[0], chord[1]))]")],
    notes="0, 1 and 2 notes: the documented trivial answers (empty list, the note, the interval name)",
    properties=["C07"], battery="tiny_chords")
