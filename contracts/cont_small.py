"""Contracts for the small accessors and setters of the containers (C12, C13, C14) and Key equality (C04): one-line
functions, stated exactly."""

CONTRACTS = {}
CLASSES = {
    "NoteContainer": {"class": "mingus.containers.note_container.NoteContainer", "fields": {"notes": "[Note]"}},
    "BarS": {"class": "mingus.containers.bar.Bar",
             "fields": {"bar": "list[entry]", "current_beat": "real", "length": "real", "meter": "(int,int)"}},
    "TrackS": {"class": "mingus.containers.track.Track", "fields": {"bars": "list[any]"}},
    "CompS": {"class": "mingus.containers.composition.Composition",
              "fields": {"tracks": "list[any]", "selected_tracks": "list[int]", "title": "str", "subtitle": "str",
                         "author": "str", "email": "str"}},
    "KeyS": {"class": "mingus.core.keys.Key", "fields": {"key": "str"}},
}
NC = "mingus.containers.note_container.NoteContainer."
BAR = "mingus.containers.bar.Bar."
TR = "mingus.containers.track.Track."
CO = "mingus.containers.composition.Composition."
KEY = "mingus.core.keys.Key."
_SZ = [{"field_types": {"self.notes": "[" + ",".join(["Note"] * k) + "]"}} for k in range(0, 4)]

CONTRACTS[NC + "empty"] = dict(
    params={"self": "NoteContainer"}, returns="None", ensures=[("no-notes-left", "len(self.notes) == 0"),
                                                                ("a-new-list", "is_fresh(self.notes)")],
    modifies=["param:self"], havoc={"self.notes": "[]"}, properties=["C12"], battery="nc_only")
CONTRACTS[NC + "remove_duplicate_notes"] = dict(
    params={"self": "NoteContainer"}, requires="all([is_name(n.name) for n in self.notes])", returns="list[any]",
    old={"old_notes": "[n for n in self.notes]"}, old_by_reference=["old_notes"],
    ensures=[("returns-its-own-note-list", "same_object(result, self.notes)"),
             ("first-note-of-every-pitch-in-order", "list_same_objects(self.notes, uniq_by_pitch(old_notes))")],
    modifies=["param:self"], split=_SZ, split_is_domain=True,
    notes="domain: containers of 0..3 notes, any names and octaves (enharmonic twins count as duplicates)",
    properties=["C12"], battery="nc_only_distinct")
CONTRACTS[NC + "sort"] = dict(
    params={"self": "NoteContainer"}, requires="all([is_name(n.name) for n in self.notes])", returns="None",
    old={"old_notes": "[n for n in self.notes]", "old_pitches": "[pitch(n) for n in self.notes]"}, old_by_reference=["old_notes"],
    ensures=[("pitch-ordered", "all([pitch(self.notes[i]) <= pitch(self.notes[i + 1]) for i in range(len(self.notes) - 1)])"),
             ("same-notes", "len(self.notes) == len(old_notes) and all([any([same_object(n, m) for m in self.notes]) for n in old_notes])")],
    modifies=["param:self", "param:self.notes"], split=_SZ, split_is_domain=True,
    notes="domain: containers of 0..3 notes; list.sort modelled as a stable insertion sort driven by Note.__lt__",
    properties=["C12"], battery="nc_only_distinct")

CONTRACTS[BAR + "empty"] = dict(
    params={"self": "BarS"}, returns="list[any]",
    ensures=[("no-entries", "len(self.bar) == 0"), ("beat-back-to-zero", "self.current_beat == 0"),
             ("returns-the-entry-list", "same_object(result, self.bar)")],
    modifies=["param:self"], havoc={"self.bar": "[]", "self.current_beat": "=0.0"}, properties=["C13"], battery="bars_filled")
CONTRACTS[BAR + "__len__"] = dict(
    params={"self": "BarS"}, returns="int", ensures=[("number-of-entries", "result == len(self.bar)")], modifies=[],
    properties=["C13"], battery="bars_filled")
CONTRACTS[BAR + "value_left"] = dict(
    params={"self": "BarS"}, requires="self.length != self.current_beat", returns="real",
    ensures=[("the-value-that-fills-the-bar", "feq(result * (self.length - self.current_beat), 1)")], modifies=[],
    properties=["C13"], battery="bars_filled")

CONTRACTS[TR + "__len__"] = dict(
    params={"self": "TrackS"}, returns="int", ensures=[("number-of-bars", "result == len(self.bars)")], modifies=[],
    properties=["C14"], battery="track_lift")
CONTRACTS[CO + "__len__"] = dict(
    params={"self": "CompS"}, returns="int", ensures=[("number-of-tracks", "result == len(self.tracks)")], modifies=[],
    properties=["C14"], battery="comps")
CONTRACTS[CO + "empty"] = dict(
    params={"self": "CompS"}, returns="None",
    ensures=[("no-tracks-none-selected", "len(self.tracks) == 0 and len(self.selected_tracks) == 0"),
             ("new-lists", "is_fresh(self.tracks) and is_fresh(self.selected_tracks)")],
    modifies=["param:self"], havoc={"self.tracks": "[]", "self.selected_tracks": "[]"}, properties=["C14"], battery="comps")
CONTRACTS[CO + "set_title"] = dict(
    params={"self": "CompS", "title": "str", "subtitle": "str"}, returns="None",
    ensures=[("stored", "self.title == title and self.subtitle == subtitle")], modifies=["param:self"],
    havoc={"self.title": "=title", "self.subtitle": "=subtitle"},
    properties=["C14"], battery="comp_strings")
CONTRACTS[CO + "set_author"] = dict(
    params={"self": "CompS", "author": "str", "email": "str"}, returns="None",
    ensures=[("stored", "self.author == author and self.email == email")], modifies=["param:self"],
    havoc={"self.author": "=author", "self.email": "=email"},
    properties=["C14"], battery="comp_strings")

for _nm, _neg in (("__eq__", ""), ("__ne__", "not ")):
    CONTRACTS[KEY + _nm] = dict(
        params={"self": "KeyS", "other": "KeyS"}, returns="bool",
        ensures=[("keys-compare-by-key-name", "result == (%s(self.key == other.key))" % _neg)], modifies=[],
        inline_callees=[KEY + "__eq__"] if _nm == "__ne__" else [],
        properties=["C04"], battery="key_pairs")
