"""Contracts for the small accessors and setters of the containers (C12, C13, C14) and Key equality (C04): one-line
functions, stated exactly."""

CONTRACTS = {}
CLASSES = {
    "NoteContainer": {"class": "mingus.containers.note_container.NoteContainer", "fields": {"notes": "[Note]"}},
    "BarS": {"class": "mingus.containers.bar.Bar",
             "fields": {"bar": "list[entry]", "current_beat": "real", "length": "real", "meter": "(int,int)"}},
    "TrackS": {"class": "mingus.containers.track.Track", "fields": {"bars": "list[any]"}},
    "CompS": {"class": "mingus.containers.composition.Composition",
              "fields": {"tracks": "list[any]", "selected_tracks": "list[int]", "title": "str", "subtitle": "str",
                         "author": "str", "email": "str"}},
    "KeyS": {"class": "mingus.core.keys.Key", "fields": {"key": "str"}},
}
NC = "mingus.containers.note_container.NoteContainer."
BAR = "mingus.containers.bar.Bar."
TR = "mingus.containers.track.Track."
CO = "mingus.containers.composition.Composition."
KEY = "mingus.core.keys.Key."
_SZ = [{"field_types": {"self.notes": "[" + ",".join(["Note"] * k) + "]"}} for k in range(0, 4)]

CONTRACTS[NC + "empty"] = dict(
    params={"self": "NoteContainer"}, returns="None", ensures=[("no-notes-left", "len(self.notes) == 0"),
                                                                ("a-new-list", "is_fresh(self.notes)")],
    modifies=["param:self"], havoc={"self.notes": "[]"}, properties=["C12"], battery="nc_only")
CONTRACTS[NC + "remove_duplicate_notes"] = dict(
    params={"self": "NoteContainer"}, requires="all([is_name(n.name) for n in self.notes])", returns="list[any]",
    old={"old_notes": "[n for n in self.notes]"}, old_by_reference=["old_notes"],
    ensures=[("returns-its-own-note-list", "same_object(result, self.notes)"),
             ("first-note-of-every-pitch-in-order", "list_same_objects(self.notes, uniq_by_pitch(old_notes))")],
    modifies=["param:self"], split=_SZ, split_is_domain=True,
    notes="domain: containers of 0..3 notes, any names and octaves (enharmonic twins count as duplicates)",
    properties=["C12"], battery="nc_only_distinct")
CONTRACTS[NC + "sort"] = dict(
    params={"self": "NoteContainer"}, requires="all([is_name(n.name) for n in self.notes])", returns="None",
    old={"old_notes": "[n for n in self.notes]", "old_pitches": "[pitch(n) for n in self.notes]"}, old_by_reference=["old_notes"],
    ensures=[("pitch-ordered", "all([pitch(self.notes[i]) <= pitch(self.notes[i + 1]) for i in range(len(self.notes) - 1)])"),
             ("same-notes", "len(self.notes) == len(old_notes) and all([any([same_object(n, m) for m in self.notes]) for n in old_notes])")],
    modifies=["param:self", "param:self.notes"], split=_SZ, split_is_domain=True,
    notes="domain: containers of 0..3 notes; list.sort modelled as a stable insertion sort driven by Note.__lt__",
    properties=["C12"], battery="nc_only_distinct")

CONTRACTS[BAR + "empty"] = dict(
    params={"self": "BarS"}, returns="list[any]",
    ensures=[("no-entries", "len(self.bar) == 0"), ("beat-back-to-zero", "self.current_beat == 0"),
             ("returns-the-entry-list", "same_object(result, self.bar)")],
    modifies=["param:self"], havoc={"self.bar": "[]", "self.current_beat": "=0.0"}, properties=["C13"], battery="bars_filled")
CONTRACTS[BAR + "__len__"] = dict(
    params={"self": "BarS"}, returns="int", ensures=[("number-of-entries", "result == len(self.bar)")], modifies=[],
    properties=["C13"], battery="bars_filled")
CONTRACTS[BAR + "value_left"] = dict(
    params={"self": "BarS"}, requires="self.length != self.current_beat", returns="real",
    ensures=[("the-value-that-fills-the-bar", "feq(result * (self.length - self.current_beat), 1)")], modifies=[],
    properties=["C13"], battery="bars_filled")

CONTRACTS[TR + "__len__"] = dict(
    params={"self": "TrackS"}, returns="int", ensures=[("number-of-bars", "result == len(self.bars)")], modifies=[],
    properties=["C14"], battery="track_lift")
CONTRACTS[CO + "__len__"] = dict(
    params={"self": "CompS"}, returns="int", ensures=[("number-of-tracks", "result == len(self.tracks)")], modifies=[],
    properties=["C14"], battery="comps")
CONTRACTS[CO + "empty"] = dict(
    params={"self": "CompS"}, returns="None",
    ensures=[("no-tracks-none-selected", "len(self.tracks) == 0 and len(self.selected_tracks) == 0"),
             ("new-lists", "is_fresh(self.tracks) and is_fresh(self.selected_tracks)")],
    modifies=["param:self"], havoc={"self.tracks": "[]", "self.selected_tracks": "[]"}, properties=["C14", "C16", "C17"], battery="comps")
CONTRACTS[CO + "set_title"] = dict(
    params={"self": "CompS", "title": "str", "subtitle": "str"}, returns="None",
    ensures=[("stored", "self.title == title and self.subtitle == subtitle")], modifies=["param:self"],
    havoc={"self.title": "=title", "self.subtitle": "=subtitle"},
    properties=["C14"], battery="comp_strings")
CONTRACTS[CO + "set_author"] = dict(
    params={"self": "CompS", "author": "str", "email": "str"}, returns="None",
    ensures=[("stored", "self.author == author and self.email == email")], modifies=["param:self"],
    havoc={"self.author": "=author", "self.email": "=email"},
    properties=["C14"], battery="comp_strings")

for _nm, _neg in (("__eq__", ""), ("__ne__", "not ")):
    CONTRACTS[KEY + _nm] = dict(
        params={"self": "KeyS", "other": "KeyS"}, returns="bool",
        ensures=[("keys-compare-by-key-name", "result == (%s(self.key == other.key))" % _neg)], modifies=[],
        inline_callees=[KEY + "__eq__"] if _nm == "__ne__" else [],
        properties=["C04"], battery="key_pairs")

# ---------------------------------------------------------------- construction and the '[]' accessors
CLASSES["BlankTrack"] = {"class": "mingus.containers.track.Track", "fields": {}}
CLASSES["BlankComp"] = {"class": "mingus.containers.composition.Composition", "fields": {}}
CLASSES["BarX"] = {"class": "mingus.containers.bar.Bar", "fields": {"bar": "list[any]"}}
CLASSES["TrackX"] = {"class": "mingus.containers.track.Track", "fields": {"bars": "list[any]"}}


def _idx_split(field, elem):
    """every list length 0..3 x every index in range (bound), plus the out-of-range indices (symbolic)"""
    return ([{"field_types": {field: "[" + ",".join([elem] * k) + "]"}, "bind": {"index": i}}
             for k in range(0, 4) for i in range(-k, k)] +
            [{"field_types": {field: "[" + ",".join([elem] * k) + "]"}, "assume": "index >= %d or index < %d" % (k, -k)}
             for k in range(0, 4)])


CONTRACTS[TR + "__init__"] = dict(
    params={"self": "BlankTrack", "instrument": "None"}, returns="None",
    ensures=[("no-bars", "len(self.bars) == 0"), ("a-bar-list-of-its-own", "is_fresh(self.bars)"),
             ("instrument-kept", "is_None(self.instrument)")],
    variants=[dict(name="default", params={"self": "BlankTrack"})],
    modifies=["param:self"], properties=["C14", "C15"], battery="track_blank")
CONTRACTS[TR + "__getitem__"] = dict(
    params={"self": "TrackS", "index": "int"}, returns="any", modifies=[],
    ensures=[("the-bar-itself", "same_object(result, self.bars[index])")],
    raises={"IndexError": "index >= len(self.bars) or index < -len(self.bars)"},
    split=_idx_split("self.bars", "BarX"), split_is_domain=True, properties=["C14"], inline=True, battery="track_index")
CONTRACTS[TR + "__setitem__"] = dict(
    params={"self": "TrackS", "index": "int", "value": "BarX"}, returns="None",
    old={"old_bars": "list(self.bars)"}, old_by_reference=["old_bars"],
    ensures=[("that-place-holds-the-bar-given", "same_object(self.bars[index], value)"),
             ("every-other-place-keeps-its-bar",
              "len(self.bars) == len(old_bars) and all([i == index or i == index + len(old_bars) or "
              "same_object(self.bars[i], old_bars[i]) for i in range(len(old_bars))])")],
    raises={"IndexError": "index >= len(self.bars) or index < -len(self.bars)"},
    variants=[dict(name="not-a-bar", params={"self": "TrackS", "index": "int", "value": "int"},
                   ensures=[], raises={"UnexpectedObjectError": "True"})],
    split=_idx_split("self.bars", "BarX"), split_is_domain=True,
    modifies=["param:self.bars"], properties=["C14"], battery="track_setitem")

CONTRACTS[CO + "__init__"] = dict(
    params={"self": "BlankComp"}, returns="None",
    ensures=[("no-tracks-none-selected", "len(self.tracks) == 0 and len(self.selected_tracks) == 0"),
             ("lists-of-its-own", "is_fresh(self.tracks) and is_fresh(self.selected_tracks)")],
    modifies=["param:self"], properties=["C14", "C15", "C16", "C17"], battery="comp_blank")
CONTRACTS[CO + "reset"] = dict(
    params={"self": "CompS"}, returns="None",
    ensures=[("no-tracks-none-selected", "len(self.tracks) == 0 and len(self.selected_tracks) == 0"),
             ("lists-of-its-own", "is_fresh(self.tracks) and is_fresh(self.selected_tracks)"),
             ("title-and-author-back-to-the-defaults",
              "self.title == 'Untitled' and self.subtitle == '' and self.author == '' and self.email == ''")],
    modifies=["param:self"], properties=["C14"], battery="comps")
CONTRACTS[CO + "__getitem__"] = dict(
    params={"self": "CompS", "index": "int"}, returns="any", modifies=[],
    ensures=[("the-track-itself", "same_object(result, self.tracks[index])")],
    raises={"IndexError": "index >= len(self.tracks) or index < -len(self.tracks)"},
    split=_idx_split("self.tracks", "TrackX"), split_is_domain=True, properties=["C14"], inline=True, battery="comp_index")
CONTRACTS[CO + "__setitem__"] = dict(
    params={"self": "CompS", "index": "int", "value": "TrackX"}, returns="None",
    old={"old_tracks": "list(self.tracks)"}, old_by_reference=["old_tracks"],
    ensures=[("that-place-holds-the-track-given", "same_object(self.tracks[index], value)"),
             ("every-other-place-keeps-its-track",
              "len(self.tracks) == len(old_tracks) and all([i == index or i == index + len(old_tracks) or "
              "same_object(self.tracks[i], old_tracks[i]) for i in range(len(old_tracks))])")],
    raises={"IndexError": "index >= len(self.tracks) or index < -len(self.tracks)"},
    split=_idx_split("self.tracks", "TrackX"), split_is_domain=True,
    modifies=["param:self.tracks"], properties=["C14"], battery="comp_setitem")

CONTRACTS[NC + "__len__"] = dict(
    params={"self": "NoteContainer"}, returns="int", ensures=[("number-of-notes", "result == len(self.notes)")], modifies=[],
    split=_SZ, split_is_domain=True, inline=True, properties=["C12"], battery="nc_only")
CONTRACTS[NC + "__getitem__"] = dict(
    params={"self": "NoteContainer", "item": "int"}, returns="any", modifies=[],
    ensures=[("the-note-itself", "same_object(result, self.notes[item])")],
    raises={"IndexError": "item >= len(self.notes) or item < -len(self.notes)"},
    split=[dict((("bind", {"item": d["bind"]["index"]}) if k == "bind" else (k, v.replace("index", "item") if k == "assume" else v))
                for k, v in d.items()) for d in _idx_split("self.notes", "Note")],
    split_is_domain=True, properties=["C12"], inline=True, battery="nc_index")

# 'note in container': a note of the same PITCH is in it (Note equality is pitch equality, spelling does not matter)
CONTRACTS[NC + "__contains__"] = dict(
    params={"self": "NoteContainer", "item": "Note"},
    requires="is_name(item.name) and all([is_name(n.name) for n in self.notes])", returns="bool", modifies=[],
    ensures=[("some-note-of-the-same-pitch", "result == any([pitch(n) == pitch(item) for n in self.notes])")],
    split=_SZ, split_is_domain=True, properties=["C12"], battery="nc_contains",
    notes="domain: containers of 0..3 notes in any order, arbitrary names and octaves")

CLASSES["BlankNC"] = {"class": "mingus.containers.note_container.NoteContainer", "fields": {}}
CONTRACTS[NC + "__init__"] = dict(
    params={"self": "BlankNC", "notes": "None"}, returns="None", requires="is_None(notes)",
    ensures=[("no-notes", "len(self.notes) == 0"), ("a-note-list-of-its-own", "is_fresh(self.notes)")],
    variants=[dict(name="default", params={"self": "BlankNC"}, requires="True"),
              dict(name="one-name", params={"self": "BlankNC", "notes": "str"}, requires="is_name(notes)",
                   ensures=[("that-note-in-octave-4", "len(self.notes) == 1 and self.notes[0].name == notes and "
                                                      "self.notes[0].octave == 4"),
                            ("a-note-list-of-its-own", "is_fresh(self.notes)")])],
    modifies=["param:self"], properties=["C12", "C15"], battery="nc_blank")

# '==' on bars: the entry lists are equal entry by entry (beat, duration, and the containers by NoteContainer's ==)
_EK = ["[real,real,None]", "[real,real,NC1]"]
CLASSES["NC1"] = {"class": "mingus.containers.note_container.NoteContainer", "fields": {"notes": "[Note]"}}
CLASSES["BarE"] = {"class": "mingus.containers.bar.Bar", "fields": {"bar": "list[any]"}}


def _eq_shapes():
    import itertools
    out = []
    for n in (0, 1, 2):
        for m in (0, 1, 2):
            for a in itertools.product(_EK, repeat=n):
                for b in itertools.product(_EK, repeat=m):
                    out.append({"field_types": {"self.bar": "[" + ",".join(a) + "]", "other.bar": "[" + ",".join(b) + "]"}})
    return out


_ENT_EQ = ("(self.bar[i][0] == other.bar[i][0] and self.bar[i][1] == other.bar[i][1] and "
           "(is_None(self.bar[i][2]) == is_None(other.bar[i][2])) and "
           "(is_None(self.bar[i][2]) or is_None(other.bar[i][2]) or "
           "pitch(self.bar[i][2].notes[0]) == pitch(other.bar[i][2].notes[0])))")
CONTRACTS[BAR + "__eq__"] = dict(
    params={"self": "BarE", "other": "BarE"}, returns="bool", modifies=[],
    requires="all([e[2] is None or is_name(e[2].notes[0].name) for e in self.bar]) and "
             "all([e[2] is None or is_name(e[2].notes[0].name) for e in other.bar])",
    ensures=[("same-entries-in-the-same-order",
              "result == (len(self.bar) == len(other.bar) and all([%s for i in range(len(self.bar))]))" % _ENT_EQ)],
    split=_eq_shapes(), split_is_domain=True, properties=["C13", "C14"], battery="bar_pairs",
    notes="domain: bars of 0..2 entries each; an entry is a rest or a container of one note (arbitrary values and pitches)")

# '==' on tracks: bar lists equal bar by bar (Bar.__eq__: entry lists equal entry by entry)
def _tr_eq_shapes():
    bars = ["[]", "[" + _EK[0] + "]", "[" + _EK[1] + "]"]
    tracks = [[]] + [[b] for b in bars]
    out = []
    for a in tracks:
        for b in tracks:
            ft = {"self.bars": "[" + ",".join(["BarE"] * len(a)) + "]", "other.bars": "[" + ",".join(["BarE"] * len(b)) + "]"}
            for i, sh in enumerate(a):
                ft["self.bars.%d.bar" % i] = sh
            for i, sh in enumerate(b):
                ft["other.bars.%d.bar" % i] = sh
            out.append({"field_types": ft})
    return out


_BAR_EQ = ("(len(self.bars[k].bar) == len(other.bars[k].bar) and all([%s for i in range(len(self.bars[k].bar))]))"
           % _ENT_EQ.replace("self.bar[", "self.bars[k].bar[").replace("other.bar[", "other.bars[k].bar["))
CONTRACTS[TR + "__eq__"] = dict(
    params={"self": "TrackX", "other": "TrackX"}, returns="bool", modifies=[],
    requires="all([all([e[2] is None or is_name(e[2].notes[0].name) for e in b.bar]) for b in self.bars]) and "
             "all([all([e[2] is None or is_name(e[2].notes[0].name) for e in b.bar]) for b in other.bars])",
    ensures=[("same-bars-in-the-same-order",
              "result == (len(self.bars) == len(other.bars) and all([%s for k in range(len(self.bars))]))" % _BAR_EQ)],
    split=_tr_eq_shapes(), split_is_domain=True, properties=["C14"], battery="track_pairs",
    notes="domain: tracks of 0..1 bars of 0..1 entries (a rest or a one-note container), arbitrary values and pitches; "
          "longer tracks: run-time battery")

# '==' on compositions: track lists equal track by track (Track.__eq__ -> Bar.__eq__ -> entries)
CLASSES["CompE"] = {"class": "mingus.containers.composition.Composition", "fields": {"tracks": "list[any]"}}


def _co_eq_shapes():
    bars = ["[]", "[" + _EK[0] + "]", "[" + _EK[1] + "]"]
    one = [[]] + [[b] for b in bars]                 # a track: no bar, or one bar of 0..1 entries
    comps = [[]] + [[t] for t in one] + [[[], []], [[], [bars[1]]], [[bars[2]], []]]     # 0..2 tracks
    out = []
    for a in comps:
        for b in comps:
            ft = {}
            for side, c in (("self", a), ("other", b)):
                ft["%s.tracks" % side] = "[" + ",".join(["TrackX"] * len(c)) + "]"
                for j, t in enumerate(c):
                    ft["%s.tracks.%d.bars" % (side, j)] = "[" + ",".join(["BarE"] * len(t)) + "]"
                    for i, sh in enumerate(t):
                        ft["%s.tracks.%d.bars.%d.bar" % (side, j, i)] = sh
            out.append({"field_types": ft})
    return out


_TR_EQ = ("(len(self.tracks[t].bars) == len(other.tracks[t].bars) and all([%s for k in range(len(self.tracks[t].bars))]))"
          % _BAR_EQ.replace("self.bars[", "self.tracks[t].bars[").replace("other.bars[", "other.tracks[t].bars["))
_CO_VALID = "all([all([all([e[2] is None or is_name(e[2].notes[0].name) for e in b.bar]) for b in tr.bars]) for tr in %s.tracks])"
CONTRACTS[CO + "__eq__"] = dict(
    params={"self": "CompE", "other": "CompE"}, returns="bool", modifies=[],
    requires=(_CO_VALID % "self") + " and " + (_CO_VALID % "other"),
    ensures=[("same-tracks-in-the-same-order",
              "result == (len(self.tracks) == len(other.tracks) and all([%s for t in range(len(self.tracks))]))" % _TR_EQ)],
    split=_co_eq_shapes(), split_is_domain=True, properties=["C14"], battery="comp_pairs",
    notes="domain: compositions of 0..1 tracks of 0..1 bars of 0..1 entries, and three shapes of 2 tracks; arbitrary values and pitches; larger ones: "
          "run-time battery")
