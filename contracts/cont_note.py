"""Contracts for mingus.containers.note.Note (C10, C11)."""

M = "mingus.containers.note.Note."
CONTRACTS = {}
INLINE = set()
CLASSES = {
    "Note": {"class": "mingus.containers.note.Note",
             "fields": {"name": "str", "octave": "int", "channel": "int", "velocity": "int"}},
}
VALID = "is_name(self.name)"


def _c(name, **kw):
    CONTRACTS[M + name] = kw


_c("__int__",
   params={"self": "Note"}, requires=VALID, returns="int", pure=True, modifies=[],
   ensures=[("twelve-times-octave-plus-letter-plus-sharps-minus-flats",
             "result == 12 * self.octave + base(self.name[0]) + sharps(self.name) - flats(self.name)")],
   loops={1: dict(index="k", inv=[("running",
                                   "res == 12 * self.octave + base(self.name[0]) + net_upto(self.name, 1 + k)")])},
   properties=["C10"], battery="notes")

for _nm, _op in (("__lt__", "<"), ("__eq__", "=="), ("__ne__", "!="), ("__gt__", ">"), ("__le__", "<="), ("__ge__", ">=")):
    _c(_nm,
       params={"self": "Note", "other": "Note"}, requires=VALID + " and is_name(other.name)", returns="bool",
       pure=True, modifies=[],
       ensures=[("agrees-with-comparing-the-integers", "result == (pitch(self) %s pitch(other))" % _op)],
       properties=["C10"], battery="note_pairs")

_c("measure",
   params={"self": "Note", "other": "Note"}, requires=VALID + " and is_name(other.name)", returns="int",
   ensures=[("difference-of-pitch-numbers", "result == pitch(other) - pitch(self)")], modifies=[],
   properties=["C10"], battery="note_pairs")

_c("set_channel",
   params={"self": "Note", "channel": "int"}, returns="None",
   ensures=[("stored", "self.channel == channel")],
   raises={"ValueError": "channel < 0 or channel > 15"}, modifies=["param:self"],
   properties=["C10"], battery="note_int")
_c("set_velocity",
   params={"self": "Note", "velocity": "int"}, returns="None",
   ensures=[("stored", "self.velocity == velocity")],
   raises={"ValueError": "velocity < 0 or velocity > 127"}, modifies=["param:self"],
   properties=["C10"], battery="note_int")

_c("change_octave",
   params={"self": "Note", "diff": "int"}, returns="None", old={"old_octave": "self.octave"},
   ensures=[("never-below-zero", "self.octave == max(0, old_octave + diff)")], modifies=["param:self"],
   havoc={"self.octave": "int"},
   properties=["C11"], battery="note_int")
_c("octave_up", params={"self": "Note"}, returns="None", old={"old_octave": "self.octave"},
   ensures=[("one-up-never-below-zero", "self.octave == max(0, old_octave + 1)")], modifies=["param:self"],
   havoc={"self.octave": "int"}, properties=["C11"], battery="notes")
_c("octave_down", params={"self": "Note"}, returns="None", old={"old_octave": "self.octave"},
   ensures=[("one-down-never-below-zero", "self.octave == max(0, old_octave - 1)")], modifies=["param:self"],
   havoc={"self.octave": "int"}, properties=["C11"], battery="notes")

for _nm, _d in (("augment", 1), ("diminish", -1)):
    _c(_nm, params={"self": "Note"}, requires=VALID, returns="None",
       old={"old_name": "self.name", "old_pitch": "pitch(self)"},
       ensures=[("valid-name", "is_name(self.name)"), ("letter-kept", "self.name[0] == old_name[0]"),
                ("pitch-moves-by-one", "pitch(self) == old_pitch + %d" % _d),
                ("canonical-kept", "implies(canon(old_name), canon(self.name))")],
       modifies=["param:self"], havoc={"self.name": "str"},
       properties=["C11"], battery="notes")

_c("remove_redundant_accidentals", params={"self": "Note"}, requires=VALID, returns="None",
   old={"old_name": "self.name", "old_octave": "self.octave"},
   ensures=[("letter-plus-net-accidentals", "shape(self.name, old_name[0], net(old_name))"),
            ("same-pitch-class-same-octave", "pc(self.name) == pc(old_name) and self.octave == old_octave")],
   modifies=["param:self"], havoc={"self.name": "str"}, properties=["C10"], battery="notes_many_accidentals")

_c("from_int",
   params={"self": "Note", "integer": "int"}, requires="integer >= 0", returns="Note",
   ensures=[("same-object", "same_object(result, self)"), ("pitch-is-the-integer", "pitch(self) == integer"),
            ("valid-sharp-style-name", "is_name(self.name) and len(self.name) <= 2 and flats(self.name) == 0")],
   modifies=["param:self"], havoc={"self.name": "str", "self.octave": "int"},
   properties=["C10"], battery="note_int")

NODASH = "len(name) >= 1 and name[0] != '-' and cnt_other(name, 1, len(name)) == 0"
_SET = dict(
    returns="Note",
    ensures=[("returns-self", "same_object(result, self)"), ("name-stored", "self.name == name"),
             ("octave-stored", "self.octave == octave")],
    raises={"NoteFormatError": "not is_name(name)"},
    modifies=["param:self"], havoc={"self.name": "=name", "self.octave": "=octave"})
_c("set_note",
   params={"self": "Note", "name": "str", "octave": "int", "dynamics": "emptydict", "velocity": "None", "channel": "None"},
   requires=[("a-name-without-octave-suffix", NODASH)],
   variants=[dict(name="no-dynamics", params={"self": "Note", "name": "str", "octave": "int", "dynamics": "None",
                                              "velocity": "None", "channel": "None"})],
   notes="the 'Name-octave' text form (with a dash) is outside this contract: bounded stand-in in the C10 driver",
   properties=["C10"], battery="note_setnote", **_SET)
_i = dict(_SET)
_i["returns"] = "None"
_i["ensures"] = _SET["ensures"][1:]
_c("__init__",
   params={"self": "Note", "name": "str", "octave": "int", "dynamics": "None", "velocity": "None", "channel": "None"},
   requires=[("a-name-without-octave-suffix", NODASH)],
   variants=[dict(name="with-empty-dynamics",
                  params={"self": "Note", "name": "str", "octave": "int", "dynamics": "emptydict", "velocity": "None",
                          "channel": "None"}),
             dict(name="from-int",
                  params={"self": "Note", "name": "int", "octave": "int", "dynamics": "None", "velocity": "None",
                          "channel": "None"},
                  requires=[("non-negative", "name >= 0")], raises={},
                  ensures=[("pitch-is-the-integer", "pitch(self) == name"), ("valid-name", "is_name(self.name)")],
                  havoc={"self.name": "str", "self.octave": "int"})],
   properties=["C10"], battery="note_init", **_i)

# ------------------------------------------------------------------ C11: transposition
_D = "digit(interval[len(interval) - 1])"
_SG = "(1 if up else -1)"
_SIZE = "(maj_semis(%s) + sh_acc(interval))" % _D
_LT = "lup(old_name[0], %s * (%s - 1))" % (_SG, _D)
_SEMI = "(maj_semis(%s) if up else (12 - maj_semis(%s)) %% 12)" % (_D, _D)
_V0NET = "(net(old_name) if %s == 1 else ctor_net(%s, %s, old_name))" % (_D, _LT, _SEMI)
_c("transpose",
   params={"self": "Note", "interval": "str", "up": "bool"},
   requires=[("name-up-to-double-accidentals", "canon(self.name) and abs(net(self.name)) <= 4"),
             ("shorthand-up-to-two-accidentals",
              "is_interval_shorthand(interval) and len(interval) <= 3 and "
              "(cnt_sharp(interval, 0, len(interval) - 1) == 0 or cnt_flat(interval, 0, len(interval) - 1) == 0)"),
             ("size-0-to-11", "0 <= %s and %s <= 11" % (_SIZE, _SIZE))],
   returns="None",
   old={"old_name": "self.name", "old_octave": "self.octave", "old_pitch": "pitch(self)"},
   ensures=[("semitone-exact", "pitch(self) == old_pitch + %s * %s" % (_SG, _SIZE)),
            ("letter-the-interval-number-requires", "self.name[0] == %s" % _LT),
            ("valid-unmixed-name", "canon(self.name)"),
            ("exact-accidentals", "net(self.name) == %s + %s * sh_acc(interval)" % (_V0NET, _SG))],
   modifies=["param:self"], havoc={"self.name": "str", "self.octave": "int"},
   split=[{"bind": {"up": u}, "assume": "interval[len(interval) - 1] == %r" % d} for u in (True, False) for d in "1234567"],
   properties=["C11"], battery="note_transpose")

# Helmholtz notation: the name (lower case from octave 3 up), then one comma per octave below 2 or one prime per octave above 3
_HM = "((2 - self.octave) if self.octave < 2 else ((self.octave - 3) if self.octave > 3 else 0))"
_c("to_shorthand",
   params={"self": "Note"}, requires=VALID, returns="str", modifies=[],
   ensures=[("length", "len(result) == len(self.name) + %s" % _HM),
            ("letter-capital-below-octave-3-else-small",
             "result[0] == (self.name[0] if self.octave < 3 else lower_letter(self.name[0]))"),
            ("accidentals-kept", "all([result[j] == self.name[j] for j in range(1, len(self.name))])"),
            ("commas-below-or-primes-above",
             "all([result[len(self.name) + j] == (',' if self.octave < 2 else \"'\") for j in range(%s)])" % _HM)],
   loops={1: dict(ghost={"R0": "res", "O0": "o"},
                  inv=[("prefix-kept", "res[:len(R0)] == R0"),
                       ("marks-so-far", "all([res[len(R0) + j] == ',' for j in range(o - O0)])"),
                       ("length", "len(res) == len(R0) + (o - O0)"), ("counter", "O0 <= o and (O0 >= -1 or o <= -1) and (O0 < -1 or o == O0)")],
                  decreases="-o"),
          2: dict(ghost={"R1": "res", "O1": "o"},
                  inv=[("prefix-kept", "res[:len(R1)] == R1"),
                       ("marks-so-far", "all([res[len(R1) + j] == \"'\" for j in range(O1 - o)])"),
                       ("length", "len(res) == len(R1) + (O1 - o)"), ("counter", "o <= O1 and (O1 <= 0 or o >= 0) and (O1 > 0 or o == O1)")],
                  decreases="o")},
   properties=["C10"], battery="notes")
