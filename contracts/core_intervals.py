"""Contracts for mingus.core.intervals (C02, C03; diatonic steps C04)."""

M = "mingus.core.intervals."

from contracts.core_keys import KEYS30  # noqa: E402

CONTRACTS = {}


def _c(name, **kw):
    CONTRACTS[M + name] = kw


_c("measure",
   params={"note1": "str", "note2": "str"},
   requires="is_name(note1) and is_name(note2)",
   returns="int",
   ensures=[("difference-of-pitch-classes", "result == (pc(note2) - pc(note1)) % 12"),
            ("range", "0 <= result and result <= 11")],
   properties=["C02"], battery="name_pairs")

_c("interval",
   params={"key": "str", "start_note": "str", "interval": "int"},
   requires="len(key) >= 1 and len(start_note) >= 1",
   returns="str",
   result_is="key_notes(key)[(lidx(start_note[0]) - lidx(key_notes(key)[0][0]) + interval) % 7]",
   raises={"KeyError": "not is_name(start_note)", "NoteFormatError": "is_name(start_note) and not is_key(key)"},
   split=[{"bind": {"key": k}} for k in KEYS30] + [{"assume": "not is_key(key)"}],
   properties=["C04"], battery="key_note_step")

for _i, _nm in enumerate(["second", "third", "fourth", "fifth", "sixth", "seventh"]):
    _c(_nm,
       params={"note": "str", "key": "str"},
       requires="is_key(key) and len(note) >= 1",
       returns="str",
       result_is="key_notes(key)[(lidx(note[0]) - lidx(key_notes(key)[0][0]) + %d) %% 7]" % (_i + 1),
       raises={"KeyError": "not is_name(note)"},
       split=[{"bind": {"key": k}} for k in KEYS30],
       properties=["C04"], battery="note_key")

_SHAPE = "shape(result, {L}, fold6({t} - (base({L}) - pc({n1})) % 12))"

_c("augment_or_diminish_until_the_interval_is_right",
   params={"note1": "str", "note2": "str", "interval": "int"},
   requires="is_name(note1) and len(note2) == 1 and is_letter(note2[0]) and 0 <= interval and interval <= 11",
   returns="str",
   ensures=[("exact-spelling", _SHAPE.format(L="note2[0]", t="interval", n1="note1")),
            ("valid-name", "is_name(result)"),
            ("letter", "result[0] == note2[0]"),
            ("semitones", "pc(result) == (pc(note1) + interval) % 12"),
            ("never-mixes", "canon(result)"),
            ("at-most-six-accidentals", "len(result) <= 7")],
   loops={
       1: dict(ghost={"c0": "cur", "L": "note2[0]"},
               inv=[("spelled-so-far", "shape(note2, L, cur - c0)"),
                    ("measure", "cur == (pc(note2) - pc(note1)) % 12"),
                    ("between", "(c0 >= interval and interval <= cur and cur <= c0) or "
                                "(c0 <= interval and c0 <= cur and cur <= interval)")],
               decreases="abs(cur - interval)"),
       2: dict(index="k", inv=[("running-net", "val == net_upto(note2, 1 + k)")]),
       3: dict(ghost={"T": "val"},
               inv=[("built-so-far", "shape(result, note2[0], T - val)"),
                    ("counter", "(val >= 0 or val == T) and (val <= 0 or T - val >= 0)")],
               decreases="val"),
       4: dict(inv=[("built-so-far", "shape(result, note2[0], T - val)"),
                    ("counter", "val <= 0 and (val == 0 or T - val <= 0)")],
               decreases="-val"),
   },
   properties=["C02"], battery="aug_dim")

# (constructor, letters up, semitones) -- copied from the property statement
CONSTRUCTORS = [
    ("minor_second", 1, 1), ("major_second", 1, 2),
    ("minor_third", 2, 3), ("major_third", 2, 4),
    ("minor_fourth", 3, 4), ("major_fourth", 3, 5), ("perfect_fourth", 3, 5),
    ("minor_fifth", 4, 6), ("major_fifth", 4, 7), ("perfect_fifth", 4, 7),
    ("minor_sixth", 5, 8), ("major_sixth", 5, 9),
    ("minor_seventh", 6, 10), ("major_seventh", 6, 11),
]
for _nm, _d, _s in CONSTRUCTORS:
    _L = "lup(note[0], %d)" % _d
    _c(_nm,
       params={"note": "str"},
       requires="is_name(note)",
       returns="str",
       ensures=[("letter", "result[0] == %s" % _L),
                ("semitones", "pc(result) == (pc(note) + %d) %% 12" % _s),
                ("valid-name", "is_name(result)"),
                ("never-mixes", "canon(result)"),
                ("at-most-six-accidentals", "len(result) <= 7"),
                ("exact-spelling", _SHAPE.format(L=_L, t=str(_s), n1="note"))],
       properties=["C02"], battery="names")

# Unison constructors.  Letter and semitone clauses hold for every name.  The clause "never mixes sharps with
# flats, at most six accidentals" does NOT hold on exotic input (known finding C02/unison-exotic-input,
# e.g. major_unison('C#b') == 'C#b', augmented_unison('C######') has seven); it is proved on the complement
# of that region, which is stated in the clause itself.
for _nm, _s in (("minor_unison", -1), ("major_unison", 0), ("augmented_unison", 1)):
    _c(_nm,
       params={"note": "str"},
       requires="is_name(note)",
       returns="str",
       **({"result_is": "note"} if _s == 0 else {}),
       ensures=[("letter", "result[0] == note[0]"),
                ("semitones", "pc(result) == (pc(note) + %d) %% 12" % _s),
                ("valid-name", "is_name(result)"),
                ("net", "net(result) == net(note) + %d" % _s),
                ("canonical-kept", "implies(canon(note), canon(result))"),
                ("never-mixes-at-most-six--outside-known-finding",
                 "implies(canon(note) and abs(net(note) + %d) <= 6, canon(result) and len(result) <= 7)" % _s)],
       properties=["C02"], battery="names")

_c("is_perfect_consonant",
   params={"note1": "str", "note2": "str", "include_fourths": "bool"},
   requires="is_name(note1) and is_name(note2)",
   returns="bool",
   ensures=[("perfect-0-7-optionally-5",
             "result == (semis(note1, note2) == 0 or semis(note1, note2) == 7 or "
             "(include_fourths and semis(note1, note2) == 5))")],
   properties=["C02"], battery="name_pairs_flag")

_c("is_imperfect_consonant",
   params={"note1": "str", "note2": "str"},
   requires="is_name(note1) and is_name(note2)",
   returns="bool",
   ensures=[("imperfect-3-4-8-9",
             "result == (semis(note1, note2) == 3 or semis(note1, note2) == 4 or semis(note1, note2) == 8 "
             "or semis(note1, note2) == 9)")],
   properties=["C02"], battery="name_pairs")

_c("is_consonant",
   params={"note1": "str", "note2": "str", "include_fourths": "bool"},
   requires="is_name(note1) and is_name(note2)",
   returns="bool",
   ensures=[("perfect-or-imperfect",
             "result == (semis(note1, note2) in (0, 7, 3, 4, 8, 9) or (include_fourths and semis(note1, note2) == 5))")],
   properties=["C02"], battery="name_pairs_flag")

_c("is_dissonant",
   params={"note1": "str", "note2": "str", "include_fourths": "bool"},
   requires="is_name(note1) and is_name(note2)",
   returns="bool",
   ensures=[("not-consonant",
             "result == (not (semis(note1, note2) in (0, 7, 3, 4, 8, 9) or "
             "((not include_fourths) and semis(note1, note2) == 5)))")],
   properties=["C02"], battery="name_pairs_flag")


# ------------------------------------------------------------------ C03

_c("invert",
   params={"interval": "list[any]"},
   returns="list[any]",
   old={"old_interval": "interval"},
   ensures=[("reversed", "list_reverse_of(result, old_interval)"),
            ("argument-unchanged", "list_same(interval, old_interval)"),
            ("fresh-list", "not same_object(result, interval)")],
   modifies=["param:interval"],
   notes="the body reverses its argument in place twice; 'modifies' admits that, 'argument-unchanged' "
         "proves the contents are restored for every list of every length",
   properties=["C03", "C15"], battery="lists")


_D = "digit(interval[len(interval) - 1])"
_SG = "(1 if up else -1)"
_LT = "lup(note[0], %s * (%s - 1))" % (_SG, _D)
_SEMI = "(maj_semis(%s) if up else (12 - maj_semis(%s)) %% 12)" % (_D, _D)
_V0NET = "(net(note) if %s == 1 else ctor_net(%s, %s, note))" % (_D, _LT, _SEMI)

_c("from_shorthand",
   params={"note": "str", "interval": "str", "up": "bool"},
   requires="len(note) >= 1 and len(interval) >= 1 and cnt_other(interval, 0, len(interval) - 1) == 0",
   cases=[
       dict(when="not is_name(note)", returns="False"),
       dict(when="%s == 0" % _D, returns="False"),
       dict(when=None, returns="str", ensures=[
           ("valid-name", "is_name(result)"),
           ("letter", "result[0] == %s" % _LT),
           ("exact-accidentals", "net(result) == %s + %s * sh_acc(interval)" % (_V0NET, _SG)),
           ("semitones", "pc(result) == (pc(note) + %s * (maj_semis(%s) + sh_acc(interval))) %% 12" % (_SG, _D)),
           ("never-mixes", "implies(%s != 1 or canon(note), canon(result))" % _D),
       ]),
   ],
   loops={2: dict(index="k", ghost={"v0": "val"},
                  inv=[("valid", "is_str(val) and is_name(val) and val[0] == v0[0]"),
                       ("accidentals-so-far",
                        "net(val) == net(v0) + %s * (cnt_sharp(interval, 0, k) - cnt_flat(interval, 0, k))" % _SG),
                       ("canonical-kept", "implies(canon(v0), canon(val))"),
                       ("still-in-prefix", "cnt_other(interval, 0, k) == 0")],
                  types={"val": "str"})},
   split=[{"bind": {"up": u}, "assume": "interval[len(interval) - 1] == %r" % d} for u in (True, False) for d in "1234567"] +
         [{"bind": {"up": u}, "assume": "%s == 0" % _D} for u in (True, False)],
   properties=["C03"], battery="name_shorthand_dir")

_c("determine.<locals>.get_val",
   params={"note": "str"}, requires="len(note) >= 1", returns="int",
   ensures=[("net-accidentals", "result == net(note)")],
   loops={1: dict(index="k", inv=[("running", "r == net_upto(note, 1 + k)")])},
   properties=["C03"])

_N = "letters_spanned(note1, note2)"
_OFF = "(asc_distance(note1, note2) - maj_semis(%s + 1))" % _N
_c("determine",
   params={"note1": "str", "note2": "str", "shorthand": "bool"},
   requires=[("names", "is_name(note1) and is_name(note2)"),
             ("distance-0-to-11", "0 <= asc_distance(note1, note2) and asc_distance(note1, note2) <= 11")],
   cases=[
       dict(when="shorthand", returns="str", ensures=[
           ("shorthand-accidentals-and-degree", "sh_is(result, %s, %s + 1)" % (_OFF, _N))]),
       dict(when=None, returns="str",
            result_is="quality_name(%s, %s) + ' ' + number_name(%s)" % (_OFF, _N, _N)),
   ],
   split=[{"assume": "note1[0] == %r and note2[0] == %r" % (a, b)} for a in "CDEFGAB" for b in "CDEFGAB"],
   properties=["C03"], battery="name_pairs_flag")

# the diatonic unison looks its note up IN THE KEY NAMED BY THE NOTE ITSELF (the key argument is ignored): for the 15
# major-key tonics it is the identity; for every other text the key lookup refuses it
_MAJ = [k for k in KEYS30 if k[0].isupper()]
_c("unison",
   params={"note": "str", "key": "None"}, requires="len(note) >= 1", returns="str",
   ensures=[("the-note-itself", "result == note")],
   raises={"KeyError": "not is_name(note)", "NoteFormatError": "is_name(note) and not is_key(note)"},
   variants=[dict(name="default", params={"note": "str"})],
   split=[{"bind": {"note": k}} for k in KEYS30] + [{"assume": "not is_key(note)"}],
   properties=["C04"], battery="unison_notes")
