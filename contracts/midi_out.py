"""Contracts for mingus.midi.midi_track.MidiTrack and midi_file_out.MidiFile (C16: encoders and framing)."""

M = "mingus.midi.midi_track.MidiTrack."
F = "mingus.midi.midi_file_out.MidiFile."
CONTRACTS = {}
INLINE = set()
CLASSES = {
    "MidiTrack": {"class": "mingus.midi.midi_track.MidiTrack",
                  "fields": {"track_data": "bytes", "delta_time": "bytes", "delay": "int", "bpm": "int",
                             "change_instrument": "bool", "instrument": "int"}},
}
DT = "len(self.delta_time)"


def _c(name, **kw):
    kw.setdefault("properties", ["C16"])
    CONTRACTS[M + name] = kw


_c("int_to_varbyte",
   params={"self": "MidiTrack", "value": "int"}, requires="0 <= value and value < 2 ** 28", returns="bytes",
   ensures=[("standard-variable-length-encoding", "is_vlq(result, value)")],
   modifies=[], pure=True,
   split=[{"assume": "value < 128"}, {"assume": "128 <= value and value < 16384"},
          {"assume": "16384 <= value and value < 2097152"}, {"assume": "2097152 <= value"}],
   notes="math.log is an assumed contract (A_log), validated at run time; everything after it is proved",
   battery="track_int28")

_EV = [("pending-delta-time-first", "result[:%s] == self.delta_time" % DT),
       ("status-byte", "result[%s] == channel + 16 * event_type" % DT),
       ("first-data-byte", "result[%s + 1] == param1" % DT)]
_RANGE = ("event_type < 0 or event_type > 15 or channel < 0 or channel > 15 or param1 < 0 or param1 > 127")
_c("midi_event",
   params={"self": "MidiTrack", "event_type": "int", "channel": "int", "param1": "int", "param2": "int"},
   returns="bytes", modifies=[], pure=True,
   ensures=_EV + [("second-data-byte", "result[%s + 2] == param2" % DT), ("length", "len(result) == %s + 3" % DT)],
   raises={"AssertionError": _RANGE + " or param2 < 0 or param2 > 127"},
   variants=[dict(name="one-parameter",
                  params={"self": "MidiTrack", "event_type": "int", "channel": "int", "param1": "int", "param2": "None"},
                  ensures=_EV + [("length", "len(result) == %s + 2" % DT)],
                  raises={"AssertionError": _RANGE})],
   battery="track_event")

for _nm, _ty in (("note_on", 9), ("note_off", 8)):
    _c(_nm, params={"self": "MidiTrack", "channel": "int", "note": "int", "velocity": "int"}, returns="bytes",
       modifies=[], pure=True,
       ensures=[("pending-delta-time-first", "result[:%s] == self.delta_time" % DT),
                ("status-byte", "result[%s] == channel + 16 * %d" % (DT, _ty)),
                ("pitch-byte", "result[%s + 1] == note" % DT), ("velocity-byte", "result[%s + 2] == velocity" % DT),
                ("length", "len(result) == %s + 3" % DT)],
       raises={"AssertionError": "channel < 0 or channel > 15 or note < 0 or note > 127 or velocity < 0 or velocity > 127"},
       battery="track_3ints")
_c("controller_event", params={"self": "MidiTrack", "channel": "int", "contr_nr": "int", "contr_val": "int"},
   returns="bytes", modifies=[], pure=True,
   ensures=[("pending-delta-time-first", "result[:%s] == self.delta_time" % DT),
            ("status-byte", "result[%s] == channel + 16 * 11" % DT),
            ("controller-number", "result[%s + 1] == contr_nr" % DT), ("controller-value", "result[%s + 2] == contr_val" % DT),
            ("length", "len(result) == %s + 3" % DT)],
   raises={"AssertionError": "channel < 0 or channel > 15 or contr_nr < 0 or contr_nr > 127 or contr_val < 0 or contr_val > 127"},
   battery="track_3ints")
_c("program_change_event", params={"self": "MidiTrack", "channel": "int", "instr": "int"},
   returns="bytes", modifies=[], pure=True,
   ensures=[("pending-delta-time-first", "result[:%s] == self.delta_time" % DT),
            ("status-byte", "result[%s] == channel + 16 * 12" % DT),
            ("program-number", "result[%s + 1] == instr" % DT), ("length", "len(result) == %s + 2" % DT)],
   raises={"AssertionError": "channel < 0 or channel > 15 or instr < 0 or instr > 127"},
   battery="track_2ints")

_c("set_deltatime",
   params={"self": "MidiTrack", "delta_time": "int"}, requires="0 <= delta_time and delta_time < 2 ** 28",
   returns="None", ensures=[("stored-as-variable-length-quantity", "is_vlq(self.delta_time, delta_time)")],
   variants=[dict(name="bytes", params={"self": "MidiTrack", "delta_time": "bytes"}, requires=None,
                  ensures=[("bytes-kept-as-given", "self.delta_time == delta_time")],
                  havoc={"self.delta_time": "=delta_time"})],
   modifies=["param:self"], havoc={"self.delta_time": "bytes"}, battery="track_int28")

_c("set_tempo_event",
   params={"self": "MidiTrack", "bpm": "int"}, requires="1 <= bpm and bpm <= 60000000", returns="bytes",
   modifies=[], pure=True,
   raises={"binascii.Error": "bpm < 4"},     # more than 16777215 microseconds do not fit the three bytes: refused
   ensures=[("pending-delta-time-first", "result[:%s] == self.delta_time" % DT),
            ("meta-set-tempo-length-3", "result[%s] == 255 and result[%s + 1] == 81 and result[%s + 2] == 3" % (DT, DT, DT)),
            ("microseconds-per-quarter-big-endian",
             "result[%s + 3] * 65536 + result[%s + 4] * 256 + result[%s + 5] == 60000000 // bpm" % (DT, DT, DT)),
            ("bytes-in-range", "result[%s + 3] < 256 and result[%s + 4] < 256 and result[%s + 5] < 256 and "
                               "result[%s + 4] >= 0 and result[%s + 5] >= 0" % (DT, DT, DT, DT, DT)),
            ("length", "len(result) == %s + 6" % DT)],
   battery="track_bpm")

_c("end_of_track", params={"self": "MidiTrack"}, returns="bytes", modifies=[], pure=True,
   result_is="b'\\x00\\xff\\x2f\\x00'", battery="track_only")

_c("header",
   params={"self": "MidiTrack"}, requires="len(self.track_data) + 4 < 2 ** 32", returns="bytes[8]", modifies=[], pure=True,
   ensures=[("chunk-tag", "result[:4] == b'MTrk'"), ("length", "len(result) == 8"),
            ("length-field-counts-data-plus-end-of-track",
             "result[4] * 16777216 + result[5] * 65536 + result[6] * 256 + result[7] == len(self.track_data) + 4"),
            ("bytes-in-range", "all([0 <= result[i] and result[i] < 256 for i in range(4, 8)])")],
   battery="track_only")
_c("get_midi_data",
   params={"self": "MidiTrack"}, requires="len(self.track_data) + 4 < 2 ** 32", returns="bytes", modifies=[], pure=True,
   ensures=[("chunk-tag", "result[:4] == b'MTrk'"),
            ("length-field-matches-content",
             "result[4] * 16777216 + result[5] * 65536 + result[6] * 256 + result[7] == len(result) - 8"),
            ("content-is-the-track-data", "result[8:8 + len(self.track_data)] == self.track_data"),
            ("ends-in-end-of-track", "result[len(result) - 4:] == b'\\x00\\xff\\x2f\\x00'"),
            ("total-length", "len(result) == 8 + len(self.track_data) + 4")],
   battery="track_only")

from contracts.core_keys import KEYS30  # noqa: E402
_c("key_signature_event",
   params={"self": "MidiTrack", "key": "str"}, requires="is_key(key)", returns="bytes", modifies=[], pure=True,
   ensures=[("pending-delta-time-first", "result[:%s] == self.delta_time" % DT),
            ("meta-key-signature-length-2", "result[%s] == 255 and result[%s + 1] == 89 and result[%s + 2] == 2" % (DT, DT, DT)),
            ("sharps-or-flats-count", "result[%s + 3] == twos8(key_sig(key))" % DT),
            ("major-minor-flag", "result[%s + 4] == (1 if key[0] in 'abcdefg' else 0)" % DT),
            ("length", "len(result) == %s + 5" % DT)],
   split=[{"bind": {"key": k}} for k in KEYS30], battery="track_key")
_c("time_signature_event",
   params={"self": "MidiTrack", "meter": "(int,int)"},
   requires="0 <= meter[0] and meter[0] < 256 and meter[1] in (1, 2, 4, 8, 16, 32, 64, 128)",
   returns="bytes", modifies=[], pure=True,
   ensures=[("pending-delta-time-first", "result[:%s] == self.delta_time" % DT),
            ("meta-time-signature-length-4", "result[%s] == 255 and result[%s + 1] == 88 and result[%s + 2] == 4" % (DT, DT, DT)),
            ("numerator", "result[%s + 3] == meter[0]" % DT),
            ("denominator-as-power-of-two", "pow2_of(result[%s + 4]) == meter[1]" % DT),
            ("clocks", "result[%s + 5] == 24 and result[%s + 6] == 8" % (DT, DT)),
            ("length", "len(result) == %s + 7" % DT)],
   split=[{"assume": "meter[1] == %d" % d} for d in (1, 2, 4, 8, 16, 32, 64, 128)], battery="track_meter")

# ---------------------------------------------------------------- note-level walkers (byte-exact)
_OLD = {"old_data": "self.track_data", "old_dt": "self.delta_time"}
_NOTE_RANGE = ("is_name(note.name) and 0 <= note.channel and note.channel <= 15")
for _nm, _st in (("play_Note", 144), ("stop_Note", 128)):
    _c(_nm,
       params={"self": "MidiTrack", "note": "Note"},
       requires=[("valid-note", _NOTE_RANGE), ("no-pending-instrument-change", "not self.change_instrument")],
       returns="None", old=_OLD,
       ensures=[("appends-exactly-one-event", "len(self.track_data) == len(old_data) + len(old_dt) + 3"),
                ("earlier-data-untouched", "self.track_data[:len(old_data)] == old_data"),
                ("pending-delta-time-first", "self.track_data[len(old_data):len(old_data) + len(old_dt)] == old_dt"),
                ("status-byte-with-the-notes-channel", "self.track_data[len(old_data) + len(old_dt)] == %d + note.channel" % _st),
                ("pitch-number-plus-12", "self.track_data[len(old_data) + len(old_dt) + 1] == pitch(note) + 12"),
                ("the-notes-velocity", "self.track_data[len(old_data) + len(old_dt) + 2] == note.velocity")],
       raises={"AssertionError": "note.velocity < 0 or note.velocity > 127 or pitch(note) + 12 < 0 or pitch(note) + 12 > 127"},
       modifies=["param:self"], havoc={"self.track_data": "bytes"},
       battery="track_note")

CLASSES["NoteContainer"] = {"class": "mingus.containers.note_container.NoteContainer", "fields": {"notes": "[Note]"}}
INLINE |= set(["mingus.containers.note_container.NoteContainer.__len__",
               "mingus.containers.note_container.NoteContainer.__getitem__"])
_NC_VALID = ("all([is_name(n.name) and 0 <= n.channel and n.channel <= 15 and 0 <= n.velocity and n.velocity <= 127 "
             "and 0 <= pitch(n) + 12 and pitch(n) + 12 <= 127 for n in notecontainer.notes])")
_B = "len(old_data) + len(old_dt)"
for _nm, _st in (("play_NoteContainer", 144), ("stop_NoteContainer", 128)):
    _c(_nm,
       params={"self": "MidiTrack", "notecontainer": "NoteContainer"},
       requires=[("valid-notes-in-midi-range", _NC_VALID), ("no-pending-instrument-change", "not self.change_instrument")],
       returns="None", old=_OLD,
       ensures=[("one-event-per-note-first-with-the-pending-delta-the-rest-with-delta-0",
                 "len(self.track_data) == len(old_data) + (0 if len(notecontainer.notes) == 0 else "
                 "len(old_dt) + 3 + 4 * (len(notecontainer.notes) - 1))"),
                ("earlier-data-untouched", "self.track_data[:len(old_data)] == old_data"),
                ("first-event", "len(notecontainer.notes) == 0 or ("
                                "self.track_data[len(old_data):%s] == old_dt and "
                                "self.track_data[%s] == %d + notecontainer.notes[0].channel and "
                                "self.track_data[%s + 1] == pitch(notecontainer.notes[0]) + 12 and "
                                "self.track_data[%s + 2] == notecontainer.notes[0].velocity)" % (_B, _B, _st, _B, _B)),
                ("later-events-at-delta-0-in-order",
                 "all([self.track_data[%s + 3 + 4 * (i - 1)] == 0 and "
                 "self.track_data[%s + 4 + 4 * (i - 1)] == %d + notecontainer.notes[i].channel and "
                 "self.track_data[%s + 5 + 4 * (i - 1)] == pitch(notecontainer.notes[i]) + 12 and "
                 "self.track_data[%s + 6 + 4 * (i - 1)] == notecontainer.notes[i].velocity "
                 "for i in range(1, len(notecontainer.notes))])" % (_B, _B, _st, _B, _B))],
       modifies=["param:self"], havoc={"self.track_data": "bytes", "self.delta_time": "bytes"},
       split=[{"field_types": {"notecontainer.notes": "[" + ",".join(["Note"] * k) + "]"}} for k in range(0, 5)],
       split_thorough=[{"field_types": {"notecontainer.notes": "[" + ",".join(["Note"] * k) + "]"}} for k in range(0, 8)],
       split_is_domain=True,
       notes="domain: containers of 0..4 notes with arbitrary names, channels and velocities in MIDI range",
       battery="track_nc")


# ---------------------------------------------------------------- setters that append one meta event
_B0 = "len(old_data) + len(old_dt)"
_APPEND = [("earlier-data-untouched", "self.track_data[:len(old_data)] == old_data"),
           ("pending-delta-time-first", "self.track_data[len(old_data):%s] == old_dt" % _B0)]
_c("set_meter",
   params={"self": "MidiTrack", "meter": "(int,int)"},
   requires="0 <= meter[0] and meter[0] < 256 and meter[1] in (1, 2, 4, 8, 16, 32, 64, 128)",
   returns="None", old=_OLD,
   ensures=_APPEND + [
       ("appends-one-time-signature-event", "len(self.track_data) == %s + 7" % _B0),
       ("meta-time-signature-length-4", "self.track_data[%s] == 255 and self.track_data[%s + 1] == 88 and "
                                        "self.track_data[%s + 2] == 4" % (_B0, _B0, _B0)),
       ("numerator", "self.track_data[%s + 3] == meter[0]" % _B0),
       ("denominator-as-power-of-two", "pow2_of(self.track_data[%s + 4]) == meter[1]" % _B0),
       ("clocks", "self.track_data[%s + 5] == 24 and self.track_data[%s + 6] == 8" % (_B0, _B0))],
   modifies=["param:self"], havoc={"self.track_data": "bytes"}, battery="track_meter")
CLASSES["KeyObj"] = {"class": "mingus.core.keys.Key", "fields": {"key": "str"}}
_KEY_ENS = _APPEND + [
    ("appends-one-key-signature-event", "len(self.track_data) == %s + 5" % _B0),
    ("meta-key-signature-length-2", "self.track_data[%s] == 255 and self.track_data[%s + 1] == 89 and "
                                    "self.track_data[%s + 2] == 2" % (_B0, _B0, _B0)),
    ("sharps-or-flats-count", "self.track_data[%s + 3] == twos8(key_sig(KEYNAME))" % _B0),
    ("major-minor-flag", "self.track_data[%s + 4] == (1 if KEYNAME[0] in 'abcdefg' else 0)" % _B0)]
_c("set_key",
   params={"self": "MidiTrack", "key": "str"}, requires="is_key(key)", returns="None", old=_OLD,
   ensures=[(n, e.replace("KEYNAME", "key")) for n, e in _KEY_ENS],
   variants=[dict(name="key-object", params={"self": "MidiTrack", "key": "KeyObj"}, requires="is_key(key.key)",
                  ensures=[(n, e.replace("KEYNAME", "key.key")) for n, e in _KEY_ENS],
                  split=[{"bind_fields": {"key.key": k}} for k in KEYS30])],
   split=[{"bind": {"key": k}} for k in KEYS30],
   modifies=["param:self"], havoc={"self.track_data": "bytes"}, battery="track_key")
_c("set_tempo",
   params={"self": "MidiTrack", "bpm": "int"}, requires="4 <= bpm and bpm <= 60000000", returns="None", old=_OLD,
   ensures=_APPEND + [
       ("appends-one-set-tempo-event", "len(self.track_data) == %s + 6" % _B0),
       ("meta-set-tempo-length-3", "self.track_data[%s] == 255 and self.track_data[%s + 1] == 81 and "
                                   "self.track_data[%s + 2] == 3" % (_B0, _B0, _B0)),
       ("microseconds-per-quarter-big-endian",
        "self.track_data[%s + 3] * 65536 + self.track_data[%s + 4] * 256 + self.track_data[%s + 5] == 60000000 // bpm"
        % (_B0, _B0, _B0)),
       ("tempo-remembered", "self.bpm == bpm")],
   modifies=["param:self"], havoc={"self.track_data": "bytes", "self.bpm": "=bpm"}, battery="track_bpm")


# ---------------------------------------------------------------- bar walker: the event view
# Two-level argument.  Level 1 (above): every leaf (set_deltatime, set_meter, set_key, set_tempo, play_/stop_NoteContainer)
# is proved byte-exact and append-only on track_data.  Level 2 (here): play_Bar is proved to call exactly these leaves,
# with these arguments, in this order -- for every bar of up to three entries with arbitrary values and contents (rests,
# empty containers, containers of one or two notes, containers carrying a tempo) -- and to leave exactly the trailing
# rests as pending delay.  The bytes of a bar are then the concatenation of the leaves' bytes (append-only + order).
CLASSES["MidiBar"] = {"class": "mingus.containers.bar.Bar",
                      "fields": {"bar": "list[any]", "meter": "(int,int)", "key": "KeyObj"}}
CLASSES["TempoContainer"] = {"class": "mingus.containers.note_container.NoteContainer",
                             "fields": {"notes": "[Note]", "bpm": "int"}}
_ENTRY_KINDS = ["[real,real,None]", "[real,real,NoteContainer]", "[real,real,TempoContainer]"]
_NOTES_KINDS = ["[]", "[Note]", "[Note,Note]"]


def _bar_shapes(thorough=False):
    import itertools
    shapes = [[]]
    for n in ((1, 2, 3, 4) if thorough else (1, 2, 3)):
        kinds = _ENTRY_KINDS if (n < 3 or thorough and n < 4) else _ENTRY_KINDS[:2]
        shapes += [list(c) for c in itertools.product(kinds, repeat=n)]
    return shapes


_BAR_REQ = [
    ("meter-encodable", "0 <= bar.meter[0] and bar.meter[0] < 256 and bar.meter[1] in (1, 2, 4, 8, 16, 32, 64, 128)"),
    ("key-is-one-of-the-30", "is_key(bar.key.key)"),
    ("values-positive-and-lengths-below-2**28-ticks", "all([e[1] > 0.00001 for e in bar.bar])"),
    ("containers-fit-midi", "all([e[2] is None or nc_midi_valid(e[2]) for e in bar.bar])"),
    ("tempo-changes-encodable", "all([e[2] is None or not hasattr(e[2], 'bpm') or (4 <= e[2].bpm and e[2].bpm <= 60000000) "
                                "for e in bar.bar])"),
    ("pending-delay-encodable", "0 <= self.delay and self.delay < 2 ** 27"),
    ("no-pending-instrument-change", "not self.change_instrument")]
_c("play_Bar",
   params={"self": "MidiTrack", "bar": "MidiBar"}, requires=_BAR_REQ, returns="None",
   old={"old_delay": "self.delay"},
   emits="[('set_deltatime', old_delay), ('set_meter', bar.meter), ('set_deltatime', 0), ('set_key', bar.key)] + "
         "entries_events(self, 0, bar.bar)",
   ensures=[("trailing-rests-stay-pending", "self.delay == final_delay(0, bar.bar)")],
   callee_events={M + "set_deltatime": "set_deltatime", M + "set_meter": "set_meter", M + "set_key": "set_key",
                  M + "set_tempo": "set_tempo", M + "play_NoteContainer": "play_NoteContainer",
                  M + "stop_NoteContainer": "stop_NoteContainer"},
   split=[{"field_types": {"bar.bar": "[" + ",".join(sh) + "]"}} for sh in _bar_shapes()],
   split_thorough=[{"field_types": {"bar.bar": "[" + ",".join(sh) + "]"}} for sh in _bar_shapes(True)],
   split_is_domain=True,
   modifies=["param:self"], havoc={"self.delay": "int"}, battery="track_bar",
   notes="domain: bars of 0..3 entries; each entry a rest, a container, or (first two positions) a container with a "
         "tempo; values arbitrary positive reals (float-as-real, round-half-even exact on reals); one note per "
         "container in this split (the container walkers are proved for 0..4 notes)")


# ---------------------------------------------------------------- track walker: the event view
CLASSES["MidiOutTrack"] = {"class": "mingus.containers.track.Track", "fields": {"bars": "list[any]", "instrument": "None"}}
INLINE |= set(["mingus.containers.track.Track.__getitem__"])


def _small_bar_shapes():
    import itertools
    shapes = [[]]
    for n in (1, 2):
        shapes += [list(c) for c in itertools.product(_ENTRY_KINDS[:2], repeat=n)]
    return shapes


def _track_shapes():
    import itertools
    out = [[]]
    for n in (1, 2):
        out += [list(c) for c in itertools.product(_small_bar_shapes(), repeat=n)]
    return out


def _track_split(shape):
    d = {"field_types": {"track.bars": "[" + ",".join(["MidiBar"] * len(shape)) + "]"}}
    for i, sh in enumerate(shape):
        d["field_types"]["track.bars.%d.bar" % i] = "[" + ",".join(sh) + "]"
    return d


_TR_REQ = [(n, "all([%s for bar in track.bars])" % e) for n, e in _BAR_REQ[:5]] + \
          [("pending-delay-encodable", "0 <= self.delay and self.delay < 2 ** 26"),
           ("no-pending-instrument-change", "not self.change_instrument")]
_c("play_Track",
   params={"self": "MidiTrack", "track": "MidiOutTrack"}, requires=_TR_REQ, returns="None",
   emits="[('play_Bar', b) for b in track.bars]", old={"old_delay": "self.delay"},
   ensures=[("pending-delay-is-the-last-bars-trailing-rests",
             "self.delay == (old_delay if len(track.bars) == 0 else "
             "final_delay(0, track.bars[len(track.bars) - 1].bar))")],
   callee_events={M + "play_Bar": {"name": "play_Bar", "assume": ["trailing-rests-stay-pending"]}},
   split=[_track_split(sh) for sh in _track_shapes()], split_is_domain=True,
   modifies=["param:self"], battery="track_track",
   notes="domain: tracks without a name and without a MIDI instrument number, 0..2 bars of 0..2 entries each (rest or "
         "container), arbitrary values; with an instrument number the first note event is preceded by the program "
         "change (play_Note's other branch): that path is the driver's")


# ---------------------------------------------------------------- file framing
CLASSES["MidiFile"] = {"class": "mingus.midi.midi_file_out.MidiFile", "fields": {"tracks": "list[any]"}}
_FILE_SPLIT = [{"field_types": {"self.tracks": "[" + ",".join(["MidiTrack"] * k) + "]"}} for k in range(0, 5)]
_NONEMPTY = "sum([(1 if len(t.track_data) != 0 else 0) for t in self.tracks])"
CONTRACTS[F + "header"] = dict(
    params={"self": "MidiFile"}, returns="bytes[14]", modifies=[], pure=True,
    ensures=[("chunk-tag-length-6-format-1", "result[:10] == b'MThd\\x00\\x00\\x00\\x06\\x00\\x01'"),
             ("declares-exactly-the-tracks-that-have-data", "result[10] * 256 + result[11] == %s" % _NONEMPTY),
             ("bytes-in-range", "0 <= result[10] and result[10] < 256 and 0 <= result[11] and result[11] < 256"),
             ("72-ticks-per-quarter", "result[12] == 0 and result[13] == 72")],
    split=_FILE_SPLIT, split_is_domain=True, properties=["C16"], battery="midifile",
    notes="domain: files of 0..4 tracks with arbitrary data (empty or not)")

_CHUNK = "(0 if len(t.track_data) == 0 else len(t.track_data) + 12)"
_OFF = "(14 + sum([%s for t in self.tracks[:i]]))" % _CHUNK
CONTRACTS[F + "get_midi_data"] = dict(
    params={"self": "MidiFile"},
    requires="all([len(t.track_data) + 4 < 2 ** 32 for t in self.tracks])", returns="bytes", modifies=[], pure=True,
    ensures=[("starts-with-the-header", "result[:14] == self.header()"),
             ("one-chunk-per-track-with-data-and-nothing-else",
              "len(result) == 14 + sum([%s for t in self.tracks])" % _CHUNK),
             ("chunks-in-track-order-each-the-tracks-own-chunk",
              "all([len(self.tracks[i].track_data) == 0 or "
              "result[%s:%s + len(self.tracks[i].track_data) + 12] == self.tracks[i].get_midi_data() "
              "for i in range(len(self.tracks))])" % (_OFF, _OFF))],
    split=_FILE_SPLIT[:4], split_is_domain=True, properties=["C16"], battery="midifile",
    notes="domain: files of 0..3 tracks with arbitrary data (empty or not)")

# ---------------------------------------------------------------- MIDI instruments: bank select, then program change
_c("select_bank", params={"self": "MidiTrack", "channel": "int", "bank": "int"}, returns="bytes", modifies=[], pure=True,
   ensures=[("pending-delta-time-first", "result[:%s] == self.delta_time" % DT),
            ("controller-0-bank-select-on-the-channel", "result[%s] == channel + 16 * 11 and result[%s + 1] == 0 and "
                                                        "result[%s + 2] == bank" % (DT, DT, DT)),
            ("length", "len(result) == %s + 3" % DT)],
   raises={"AssertionError": "channel < 0 or channel > 15 or bank < 0 or bank > 127"}, battery="track_2ints")
_SI = "len(old_data) + len(old_dt)"
_c("set_instrument",
   params={"self": "MidiTrack", "channel": "int", "instr": "int", "bank": "int"}, returns="None", old=_OLD,
   ensures=[("earlier-data-untouched", "self.track_data[:len(old_data)] == old_data"),
            ("pending-delta-time-first", "self.track_data[len(old_data):%s] == old_dt" % _SI),
            ("bank-select-controller-0", "self.track_data[%s] == channel + 16 * 11 and self.track_data[%s + 1] == 0 and "
                                         "self.track_data[%s + 2] == bank" % (_SI, _SI, _SI)),
            ("then-at-delta-0-the-program-change", "self.track_data[%s + 3] == 0 and self.track_data[%s + 4] == channel + 16 * 12 "
                                                   "and self.track_data[%s + 5] == instr" % (_SI, _SI, _SI)),
            ("exactly-two-events", "len(self.track_data) == %s + 6" % _SI),
            ("delta-time-left-at-0", "self.delta_time == b'\\x00'")],
   raises={"AssertionError": "channel < 0 or channel > 15 or bank < 0 or bank > 127 or instr < 0 or instr > 127"},
   modifies=["param:self"], havoc={"self.track_data": "bytes", "self.delta_time": "bytes"}, battery="track_3ints_b")
# the first note of a track with a MIDI instrument: bank select and program change on THE NOTE'S channel, then the note
_PN_IC = dict(name="with-instrument-change", **dict(
   params={"self": "MidiTrack", "note": "Note"},
   requires=[("valid-note", _NOTE_RANGE), ("a-pending-instrument-change", "self.change_instrument"),
             ("in-range", "0 <= note.velocity and note.velocity <= 127 and 0 <= pitch(note) + 12 and pitch(note) + 12 <= 127 "
                          "and 0 <= self.instrument and self.instrument <= 127")],
   returns="None", old=_OLD,
   ensures=[("earlier-data-untouched", "self.track_data[:len(old_data)] == old_data"),
            ("pending-delta-time-first", "self.track_data[len(old_data):%s] == old_dt" % _SI),
            ("bank-select-1-on-the-notes-channel", "self.track_data[%s] == note.channel + 16 * 11 and "
                                                   "self.track_data[%s + 1] == 0 and self.track_data[%s + 2] == 1" % (_SI, _SI, _SI)),
            ("program-change-to-the-tracks-instrument", "self.track_data[%s + 3] == 0 and self.track_data[%s + 4] == note.channel + 16 * 12 "
                                                        "and self.track_data[%s + 5] == self.instrument" % (_SI, _SI, _SI)),
            ("then-at-delta-0-the-note-on", "self.track_data[%s + 6] == 0 and self.track_data[%s + 7] == 144 + note.channel and "
                                            "self.track_data[%s + 8] == pitch(note) + 12 and self.track_data[%s + 9] == note.velocity"
             % (_SI, _SI, _SI, _SI)),
            ("exactly-three-events", "len(self.track_data) == %s + 10" % _SI),
            ("change-done", "self.change_instrument == False")],
   modifies=["param:self"], havoc={"self.track_data": "bytes", "self.delta_time": "bytes", "self.change_instrument": "bool"}))
CONTRACTS[M + "play_Note"]["variants"] = [_PN_IC]

# ---------------------------------------------------------------- track name (meta event 3): length is a VLQ, text ASCII
_NAMELEN = "(len(result) - 3 - len(name))"
_c("track_name_event",
   params={"self": "MidiTrack", "name": "str"}, requires="len(name) < 2 ** 28", returns="bytes", modifies=[], pure=True,
   ensures=[("delta-0-meta-3", "result[0] == 0 and result[1] == 255 and result[2] == 3"),
            ("length-of-the-name-as-a-variable-length-quantity", "is_vlq(result[3:len(result) - len(name)], len(name))"),
            ("then-the-name-itself", "result[len(result) - len(name):] == ascii_bytes(name)")],
   raises={"UnicodeEncodeError": "not is_ascii(name)"},
   battery="track_names")
_c("set_track_name",
   params={"self": "MidiTrack", "name": "str"}, requires="len(name) < 2 ** 28", returns="None",
   old={"old_data": "self.track_data"},
   ensures=[("earlier-data-untouched", "self.track_data[:len(old_data)] == old_data"),
            ("delta-0-meta-3", "self.track_data[len(old_data)] == 0 and self.track_data[len(old_data) + 1] == 255 and "
                               "self.track_data[len(old_data) + 2] == 3"),
            ("length-of-the-name-as-a-variable-length-quantity",
             "is_vlq(self.track_data[len(old_data) + 3:len(self.track_data) - len(name)], len(name))"),
            ("then-the-name-itself", "self.track_data[len(self.track_data) - len(name):] == ascii_bytes(name)")],
   raises={"UnicodeEncodeError": "not is_ascii(name)"},
   modifies=["param:self"], havoc={"self.track_data": "bytes"}, battery="track_names")

# ---------------------------------------------------------------- construction and reset
CLASSES["BlankMidiTrack"] = {"class": "mingus.midi.midi_track.MidiTrack", "fields": {}}
_c("__init__",
   params={"self": "BlankMidiTrack", "start_bpm": "int"}, requires="4 <= start_bpm and start_bpm <= 60000000",
   returns="None",
   ensures=[("starts-with-one-set-tempo-event-at-delta-0",
             "len(self.track_data) == 7 and self.track_data[0] == 0 and self.track_data[1] == 255 and "
             "self.track_data[2] == 81 and self.track_data[3] == 3"),
            ("microseconds-per-quarter-big-endian",
             "self.track_data[4] * 65536 + self.track_data[5] * 256 + self.track_data[6] == 60000000 // start_bpm"),
            ("tempo-remembered", "self.bpm == start_bpm")],
   variants=[dict(name="default", params={"self": "BlankMidiTrack"}, requires="True",
                  ensures=[("starts-with-one-set-tempo-event-at-delta-0",
                            "len(self.track_data) == 7 and self.track_data[0] == 0 and self.track_data[1] == 255 and "
                            "self.track_data[2] == 81 and self.track_data[3] == 3"),
                           ("half-a-second-per-quarter-120-bpm",
                            "self.track_data[4] * 65536 + self.track_data[5] * 256 + self.track_data[6] == 500000 and "
                            "self.bpm == 120")])],
   modifies=["param:self"], battery="track_blank_midi")
_c("reset",
   params={"self": "MidiTrack"}, returns="None",
   ensures=[("no-data-and-a-zero-delta-time", "self.track_data == b'' and self.delta_time == b'\\x00'")],
   modifies=["param:self"], havoc={"self.track_data": "bytes", "self.delta_time": "bytes"}, battery="track_only")

# ---------------------------------------------------------------- file construction and reset
CONTRACTS[F + "reset"] = dict(
    params={"self": "MidiFile"}, returns="None",
    ensures=[("every-track-emptied-with-a-zero-delta-time",
              "all([t.track_data == b'' and t.delta_time == b'\\x00' for t in self.tracks])")],
    split=_FILE_SPLIT, split_is_domain=True, modifies=["param:self"], properties=["C16"], battery="midifile",
    notes="domain: files of 0..4 tracks with arbitrary data")
CLASSES["BlankMidiFile"] = {"class": "mingus.midi.midi_file_out.MidiFile", "fields": {}}
CONTRACTS[F + "__init__"] = dict(
    params={"self": "BlankMidiFile", "tracks": "list[MidiTrack]"}, returns="None",
    ensures=[("holds-the-tracks-it-was-given-in-order", "self.tracks is tracks"),
             ("the-given-tracks-are-not-reset", "all([tracks[i].track_data == old_data[i] for i in range(len(tracks))])")],
    old={"old_data": "[t.track_data for t in tracks]"},
    variants=[dict(name="default", params={"self": "BlankMidiFile"}, requires="True", old={}, split=None,
                   ensures=[("starts-without-tracks", "len(self.tracks) == 0")])],
    split=[{"param_types": {"tracks": "[" + ",".join(["MidiTrack"] * k) + "]"}} for k in range(0, 5)],
    split_is_domain=True, modifies=["param:self"], properties=["C16"], battery="midifile_blank",
    notes="domain: 0..4 tracks with arbitrary data; the reset in the constructor runs before the tracks are stored, on the class attribute's (empty) list")
