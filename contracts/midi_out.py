"""Contracts for mingus.midi.midi_track.MidiTrack and midi_file_out.MidiFile (C16: encoders and framing)."""

M = "mingus.midi.midi_track.MidiTrack."
F = "mingus.midi.midi_file_out.MidiFile."
CONTRACTS = {}
INLINE = set()
CLASSES = {
    "MidiTrack": {"class": "mingus.midi.midi_track.MidiTrack",
                  "fields": {"track_data": "bytes", "delta_time": "bytes", "delay": "int", "bpm": "int",
                             "change_instrument": "bool", "instrument": "int"}},
}
DT = "len(self.delta_time)"


def _c(name, **kw):
    kw.setdefault("properties", ["C16"])
    CONTRACTS[M + name] = kw


_c("int_to_varbyte",
   params={"self": "MidiTrack", "value": "int"}, requires="0 <= value and value < 2 ** 28", returns="bytes",
   ensures=[("standard-variable-length-encoding", "is_vlq(result, value)")],
   modifies=[], pure=True,
   split=[{"assume": "value < 128"}, {"assume": "128 <= value and value < 16384"},
          {"assume": "16384 <= value and value < 2097152"}, {"assume": "2097152 <= value"}],
   notes="math.log is an assumed contract (A_log), validated at run time; everything after it is proved",
   battery="track_int28")

_EV = [("pending-delta-time-first", "result[:%s] == self.delta_time" % DT),
       ("status-byte", "result[%s] == channel + 16 * event_type" % DT),
       ("first-data-byte", "result[%s + 1] == param1" % DT)]
_RANGE = ("event_type < 0 or event_type > 15 or channel < 0 or channel > 15 or param1 < 0 or param1 > 127")
_c("midi_event",
   params={"self": "MidiTrack", "event_type": "int", "channel": "int", "param1": "int", "param2": "int"},
   returns="bytes", modifies=[], pure=True,
   ensures=_EV + [("second-data-byte", "result[%s + 2] == param2" % DT), ("length", "len(result) == %s + 3" % DT)],
   raises={"AssertionError": _RANGE + " or param2 < 0 or param2 > 127"},
   variants=[dict(name="one-parameter",
                  params={"self": "MidiTrack", "event_type": "int", "channel": "int", "param1": "int", "param2": "None"},
                  ensures=_EV + [("length", "len(result) == %s + 2" % DT)],
                  raises={"AssertionError": _RANGE})],
   battery="track_event")

for _nm, _ty in (("note_on", 9), ("note_off", 8)):
    _c(_nm, params={"self": "MidiTrack", "channel": "int", "note": "int", "velocity": "int"}, returns="bytes",
       modifies=[], pure=True,
       ensures=[("pending-delta-time-first", "result[:%s] == self.delta_time" % DT),
                ("status-byte", "result[%s] == channel + 16 * %d" % (DT, _ty)),
                ("pitch-byte", "result[%s + 1] == note" % DT), ("velocity-byte", "result[%s + 2] == velocity" % DT),
                ("length", "len(result) == %s + 3" % DT)],
       raises={"AssertionError": "channel < 0 or channel > 15 or note < 0 or note > 127 or velocity < 0 or velocity > 127"},
       battery="track_3ints")
_c("controller_event", params={"self": "MidiTrack", "channel": "int", "contr_nr": "int", "contr_val": "int"},
   returns="bytes", modifies=[], pure=True,
   ensures=[("pending-delta-time-first", "result[:%s] == self.delta_time" % DT),
            ("status-byte", "result[%s] == channel + 16 * 11" % DT),
            ("controller-number", "result[%s + 1] == contr_nr" % DT), ("controller-value", "result[%s + 2] == contr_val" % DT),
            ("length", "len(result) == %s + 3" % DT)],
   raises={"AssertionError": "channel < 0 or channel > 15 or contr_nr < 0 or contr_nr > 127 or contr_val < 0 or contr_val > 127"},
   battery="track_3ints")
_c("program_change_event", params={"self": "MidiTrack", "channel": "int", "instr": "int"},
   returns="bytes", modifies=[], pure=True,
   ensures=[("pending-delta-time-first", "result[:%s] == self.delta_time" % DT),
            ("status-byte", "result[%s] == channel + 16 * 12" % DT),
            ("program-number", "result[%s + 1] == instr" % DT), ("length", "len(result) == %s + 2" % DT)],
   raises={"AssertionError": "channel < 0 or channel > 15 or instr < 0 or instr > 127"},
   battery="track_2ints")

_c("set_deltatime",
   params={"self": "MidiTrack", "delta_time": "int"}, requires="0 <= delta_time and delta_time < 2 ** 28",
   returns="None", ensures=[("stored-as-variable-length-quantity", "is_vlq(self.delta_time, delta_time)")],
   variants=[dict(name="bytes", params={"self": "MidiTrack", "delta_time": "bytes"}, requires=None,
                  ensures=[("bytes-kept-as-given", "self.delta_time == delta_time")],
                  havoc={"self.delta_time": "=delta_time"})],
   modifies=["param:self"], havoc={"self.delta_time": "bytes"}, battery="track_int28")

_c("set_tempo_event",
   params={"self": "MidiTrack", "bpm": "int"}, requires="4 <= bpm and bpm <= 60000000", returns="bytes",
   modifies=[], pure=True,
   ensures=[("pending-delta-time-first", "result[:%s] == self.delta_time" % DT),
            ("meta-set-tempo-length-3", "result[%s] == 255 and result[%s + 1] == 81 and result[%s + 2] == 3" % (DT, DT, DT)),
            ("microseconds-per-quarter-big-endian",
             "result[%s + 3] * 65536 + result[%s + 4] * 256 + result[%s + 5] == 60000000 // bpm" % (DT, DT, DT)),
            ("bytes-in-range", "result[%s + 3] < 256 and result[%s + 4] < 256 and result[%s + 5] < 256 and "
                               "result[%s + 4] >= 0 and result[%s + 5] >= 0" % (DT, DT, DT, DT, DT)),
            ("length", "len(result) == %s + 6" % DT)],
   battery="track_bpm")

_c("end_of_track", params={"self": "MidiTrack"}, returns="bytes", modifies=[], pure=True,
   result_is="b'\\x00\\xff\\x2f\\x00'", battery="track_only")

_c("header",
   params={"self": "MidiTrack"}, requires="len(self.track_data) + 4 < 2 ** 32", returns="bytes[8]", modifies=[], pure=True,
   ensures=[("chunk-tag", "result[:4] == b'MTrk'"), ("length", "len(result) == 8"),
            ("length-field-counts-data-plus-end-of-track",
             "result[4] * 16777216 + result[5] * 65536 + result[6] * 256 + result[7] == len(self.track_data) + 4"),
            ("bytes-in-range", "all([0 <= result[i] and result[i] < 256 for i in range(4, 8)])")],
   battery="track_only")
_c("get_midi_data",
   params={"self": "MidiTrack"}, requires="len(self.track_data) + 4 < 2 ** 32", returns="bytes", modifies=[], pure=True,
   ensures=[("chunk-tag", "result[:4] == b'MTrk'"),
            ("length-field-matches-content",
             "result[4] * 16777216 + result[5] * 65536 + result[6] * 256 + result[7] == len(result) - 8"),
            ("content-is-the-track-data", "result[8:8 + len(self.track_data)] == self.track_data"),
            ("ends-in-end-of-track", "result[len(result) - 4:] == b'\\x00\\xff\\x2f\\x00'"),
            ("total-length", "len(result) == 8 + len(self.track_data) + 4")],
   battery="track_only")

from contracts.core_keys import KEYS30  # noqa: E402
_c("key_signature_event",
   params={"self": "MidiTrack", "key": "str"}, requires="is_key(key)", returns="bytes", modifies=[], pure=True,
   ensures=[("pending-delta-time-first", "result[:%s] == self.delta_time" % DT),
            ("meta-key-signature-length-2", "result[%s] == 255 and result[%s + 1] == 89 and result[%s + 2] == 2" % (DT, DT, DT)),
            ("sharps-or-flats-count", "result[%s + 3] == twos8(key_sig(key))" % DT),
            ("major-minor-flag", "result[%s + 4] == (1 if key[0] in 'abcdefg' else 0)" % DT),
            ("length", "len(result) == %s + 5" % DT)],
   split=[{"bind": {"key": k}} for k in KEYS30], battery="track_key")
_c("time_signature_event",
   params={"self": "MidiTrack", "meter": "(int,int)"},
   requires="0 <= meter[0] and meter[0] < 256 and meter[1] in (1, 2, 4, 8, 16, 32, 64, 128)",
   returns="bytes", modifies=[], pure=True,
   ensures=[("pending-delta-time-first", "result[:%s] == self.delta_time" % DT),
            ("meta-time-signature-length-4", "result[%s] == 255 and result[%s + 1] == 88 and result[%s + 2] == 4" % (DT, DT, DT)),
            ("numerator", "result[%s + 3] == meter[0]" % DT),
            ("denominator-as-power-of-two", "pow2_of(result[%s + 4]) == meter[1]" % DT),
            ("clocks", "result[%s + 5] == 24 and result[%s + 6] == 8" % (DT, DT)),
            ("length", "len(result) == %s + 7" % DT)],
   split=[{"assume": "meter[1] == %d" % d} for d in (1, 2, 4, 8, 16, 32, 64, 128)], battery="track_meter")
