"""Contracts for mingus.extra.lilypond (C19: the note-level encoder)."""

M = "mingus.extra.lilypond."
CONTRACTS = {}

_L0 = "(1 + 2 * (len(note.name) - 1))"
_ACC = ("all([result[1 + 2 * j] == ('i' if note.name[1 + j] == '#' else 'e') and result[2 + 2 * j] == 's' "
        "for j in range(%s)])")
CONTRACTS[M + "from_Note"] = dict(
    params={"note": "Note", "process_octaves": "bool", "standalone": "bool"},
    requires="is_name(note.name)",
    returns="str",
    cases=[
        dict(when="not standalone", returns="str", ensures=[
            ("lower-case-letter", "result[0] == lower_letter(note.name[0])"),
            ("is-per-sharp-es-per-flat-in-order", _ACC % "len(note.name) - 1"),
            ("octave-marks",
             "all([result[%s + j] == (\"'\" if note.octave > 3 else ',') for j in range(ly_marks(note.octave, process_octaves))])" % _L0),
            ("length", "len(result) == %s + ly_marks(note.octave, process_octaves)" % _L0)]),
        dict(when=None, returns="str", ensures=[
            ("braces", "result[0] == '{' and result[1] == ' ' and result[len(result) - 2] == ' ' and result[len(result) - 1] == '}'"),
            ("lower-case-letter", "result[2] == lower_letter(note.name[0])"),
            ("is-per-sharp-es-per-flat-in-order",
             "all([result[3 + 2 * j] == ('i' if note.name[1 + j] == '#' else 'e') and result[4 + 2 * j] == 's' "
             "for j in range(len(note.name) - 1)])"),
            ("octave-marks",
             "all([result[2 + %s + j] == (\"'\" if note.octave > 3 else ',') for j in range(ly_marks(note.octave, process_octaves))])" % _L0),
            ("length", "len(result) == 4 + %s + ly_marks(note.octave, process_octaves)" % _L0)]),
    ],
    loops={
        1: dict(index="k", inv=[("length", "len(result) == 1 + 2 * k"),
                                ("letter", "result[0] == lower_letter(note.name[0])"),
                                ("accidentals-so-far", _ACC % "k")]),
        2: dict(ghost={"R0": "result"},
                inv=[("prefix-kept", "result[:len(R0)] == R0"),
                     ("marks-so-far", "all([result[len(R0) + j] == \"'\" for j in range(note.octave - oct)])"),
                     ("length", "len(result) == len(R0) + (note.octave - oct)"), ("counter", "oct >= 3 and oct <= note.octave")],
                decreases="oct - 3"),
        3: dict(ghost={"R0": "result"},
                inv=[("prefix-kept", "result[:len(R0)] == R0"),
                     ("marks-so-far", "all([result[len(R0) + j] == ',' for j in range(oct - note.octave)])"),
                     ("length", "len(result) == len(R0) + (oct - note.octave)"), ("counter", "oct <= 3 and oct >= note.octave")],
                decreases="3 - oct"),
    },
    modifies=[], properties=["C19"], battery="ly_notes")
