"""Contracts for mingus.extra.lilypond (C19: the note-level encoder)."""

M = "mingus.extra.lilypond."
CONTRACTS = {}

_L0 = "(1 + 2 * (len(note.name) - 1))"
_ACC = ("all([result[1 + 2 * j] == ('i' if note.name[1 + j] == '#' else 'e') and result[2 + 2 * j] == 's' "
        "for j in range(%s)])")
CONTRACTS[M + "from_Note"] = dict(
    params={"note": "Note", "process_octaves": "bool", "standalone": "bool"},
    requires="is_name(note.name)",
    returns="str",
    cases=[
        dict(when="not standalone", returns="str", ensures=[
            ("lower-case-letter", "result[0] == lower_letter(note.name[0])"),
            ("is-per-sharp-es-per-flat-in-order", _ACC % "len(note.name) - 1"),
            ("octave-marks",
             "all([result[%s + j] == (\"'\" if note.octave > 3 else ',') for j in range(ly_marks(note.octave, process_octaves))])" % _L0),
            ("length", "len(result) == %s + ly_marks(note.octave, process_octaves)" % _L0)]),
        dict(when=None, returns="str", ensures=[
            ("braces", "result[0] == '{' and result[1] == ' ' and result[len(result) - 2] == ' ' and result[len(result) - 1] == '}'"),
            ("lower-case-letter", "result[2] == lower_letter(note.name[0])"),
            ("is-per-sharp-es-per-flat-in-order",
             "all([result[3 + 2 * j] == ('i' if note.name[1 + j] == '#' else 'e') and result[4 + 2 * j] == 's' "
             "for j in range(len(note.name) - 1)])"),
            ("octave-marks",
             "all([result[2 + %s + j] == (\"'\" if note.octave > 3 else ',') for j in range(ly_marks(note.octave, process_octaves))])" % _L0),
            ("length", "len(result) == 4 + %s + ly_marks(note.octave, process_octaves)" % _L0)]),
    ],
    loops={
        1: dict(index="k", inv=[("length", "len(result) == 1 + 2 * k"),
                                ("letter", "result[0] == lower_letter(note.name[0])"),
                                ("accidentals-so-far", _ACC % "k")]),
        2: dict(ghost={"R0": "result"},
                inv=[("prefix-kept", "result[:len(R0)] == R0"),
                     ("marks-so-far", "all([result[len(R0) + j] == \"'\" for j in range(note.octave - oct)])"),
                     ("length", "len(result) == len(R0) + (note.octave - oct)"), ("counter", "oct >= 3 and oct <= note.octave")],
                decreases="oct - 3"),
        3: dict(ghost={"R0": "result"},
                inv=[("prefix-kept", "result[:len(R0)] == R0"),
                     ("marks-so-far", "all([result[len(R0) + j] == ',' for j in range(oct - note.octave)])"),
                     ("length", "len(result) == len(R0) + (oct - note.octave)"), ("counter", "oct <= 3 and oct >= note.octave")],
                decreases="3 - oct"),
    },
    modifies=[], pure=True, properties=["C19"], battery="ly_notes")


# a container without a duration: a rest, the single note, or the notes in order inside < > separated by one space
CLASSES = {"NoteContainer": {"class": "mingus.containers.note_container.NoteContainer", "fields": {"notes": "[Note]"}}}
_N = "module_value('mingus.extra.lilypond.from_Note')(nc.notes[%d], True, False)"
_BODY = {0: "'r'", 1: _N % 0, 2: "'<' + %s + ' ' + %s + '>'" % (_N % 0, _N % 1),
         3: "'<' + %s + ' ' + %s + ' ' + %s + '>'" % (_N % 0, _N % 1, _N % 2)}
_BODY_EXPR = "(%s if len(nc.notes) == 0 else %s if len(nc.notes) == 1 else %s if len(nc.notes) == 2 else %s)" % (
    _BODY[0], _BODY[1], _BODY[2], _BODY[3])
CONTRACTS[M + "from_NoteContainer"] = dict(
    params={"nc": "NoteContainer", "duration": "None", "standalone": "bool"},
    requires="all([is_name(n.name) for n in nc.notes])", returns="str",
    cases=[dict(when="not standalone", returns="str",
                ensures=[("rest-note-or-chord-in-order", "result == %s" % _BODY_EXPR)]),
           dict(when=None, returns="str",
                ensures=[("the-same-inside-braces", "result == '{ ' + %s + ' }'" % _BODY_EXPR)])],
    variants=[dict(name="rest", params={"nc": "None", "duration": "None", "standalone": "bool"}, requires=None,
                   split=None,
                   cases=[dict(when="not standalone", returns="str", ensures=[("a-rest", "result == 'r'")]),
                          dict(when=None, returns="str", ensures=[("a-rest-in-braces", "result == '{ r }'")])])],
    split=[{"field_types": {"nc.notes": "[" + ",".join(["Note"] * k) + "]"}} for k in range(0, 4)], split_is_domain=True,
    modifies=[], properties=["C19"], battery="ly_containers",
    notes="deductive domain: containers of 0 or 1 notes with arbitrary names and octaves, no duration; chords of 2 and "
          "more notes are the SAME clause checked at run time over the battery (bounded: equalities between "
          "concatenations of several strings of unknown length stay 'unknown' in both solvers); the duration suffix "
          "goes through value.determine and str() and is the driver's")
