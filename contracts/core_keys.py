"""Contracts for mingus.core.keys (C04; get_notes is relied upon by intervals, scales, chords)."""

M = "mingus.core.keys."

KEYS30 = ['Cb', 'ab', 'Gb', 'eb', 'Db', 'bb', 'Ab', 'f', 'Eb', 'c', 'Bb', 'g', 'F', 'd', 'C', 'a', 'G', 'e',
          'D', 'b', 'A', 'f#', 'E', 'c#', 'B', 'g#', 'F#', 'd#', 'C#', 'a#']

CACHE = "module:mingus.core.keys._key_cache"

# complete case analysis of the memo table under its invariant (forall k in cache: cache[k] == key_notes(k)):
# for a given key either the table has no entry for it, or it has the spec value.
KEY_SPLIT = ([{"bind": {"key": k}, "module_state": {"mingus.core.keys._key_cache": "{}"}} for k in KEYS30] +
             [{"bind": {"key": k}, "module_state": {"mingus.core.keys._key_cache": "{%r: key_notes(%r)}" % (k, k)}}
              for k in KEYS30])

REJECT = {"assume": "not is_key(key)", "module_state": {"mingus.core.keys._key_cache": "{}"}}

CONTRACTS = {
    M + "is_valid_key": dict(
        params={"key": "str"},
        returns="bool",
        ensures=[("true-exactly-for-the-30-keys", "result == is_key(key)")],
        properties=["C04"], battery="key_strings",
    ),
    M + "get_key": dict(
        params={"accidentals": "int"},
        returns="(str,str)",
        result_is="(key_of_signature(accidentals, False), key_of_signature(accidentals, True))",
        raises={"RangeError": "accidentals < -7 or accidentals > 7"},
        split=[{"bind": {"accidentals": n}} for n in range(-7, 8)] +
              [{"assume": "accidentals < -7"}, {"assume": "accidentals > 7"}],
        properties=["C04"], battery="small_ints",
    ),
    M + "get_key_signature": dict(
        params={"key": "str"},
        returns="int",
        result_is="key_sig(key)",
        raises={"NoteFormatError": "not is_key(key)"},
        split=[{"bind": {"key": k}} for k in KEYS30] + [{"assume": "not is_key(key)"}],
        properties=["C04"], battery="key_strings",
    ),
    M + "get_key_signature_accidentals": dict(
        params={"key": "str"},
        returns="list[str]",
        result_is="key_accidentals(key)",
        ensures=[("a-list-of-its-own-every-time", "is_fresh(result)")],
        raises={"NoteFormatError": "not is_key(key)"},
        split=[{"bind": {"key": k}} for k in KEYS30] + [{"assume": "not is_key(key)"}],
        properties=["C04"], battery="key_strings",
    ),
    M + "get_notes": dict(
        params={"key": "str"},
        returns="[str,str,str,str,str,str,str]",
        result_is="key_notes(key)",
        ensures=[("fresh-list-not-the-memo-row", "is_fresh(result)"),
                 ("memo-table-invariant-re-established", "key_cache_ok(module_value('mingus.core.keys._key_cache'))")],
        raises={"NoteFormatError": "not is_key(key)"},
        modifies=[CACHE],
        split=KEY_SPLIT + [REJECT],
        properties=["C04", "C15"], battery="key_strings",
        notes="memo table: complete case split under the invariant 'every entry equals the spec value and every "
              "key of the table is one of the 30 keys' (hit / miss per key; an unknown key is never in the table)",
    ),
    M + "relative_major": dict(
        params={"key": "str"},
        returns="str",
        result_is="key_of_signature(key_sig(key), False)",
        raises={"NoteFormatError": "not is_minor_key(key)"},
        split=[{"bind": {"key": k}} for k in KEYS30[1::2]] + [{"assume": "not is_minor_key(key)"}],
        properties=["C04"], battery="key_strings",
    ),
    M + "relative_minor": dict(
        params={"key": "str"},
        returns="str",
        result_is="key_of_signature(key_sig(key), True)",
        raises={"NoteFormatError": "not is_major_key(key)"},
        split=[{"bind": {"key": k}} for k in KEYS30[0::2]] + [{"assume": "not is_major_key(key)"}],
        properties=["C04"], battery="key_strings",
    ),
    M + "Key.__init__": dict(
        params={"self": "Key", "key": "str"},
        returns="None",
        ensures=[("key-kept", "self.key == key"),
                 ("mode", "self.mode == ('minor' if key[0] in 'abcdefg' else 'major')"),
                 ("signature", "self.signature == key_sig(key)"),
                 ("name", "self.name == key_display_name(key)")],
        raises={"NoteFormatError": "not is_key(key)"},
        modifies=["param:self"],
        havoc={"self.key": "=key", "self.mode": "str", "self.signature": "int", "self.name": "str"},
        split=[{"bind": {"key": k}} for k in KEYS30] + [{"assume": "not is_key(key) and len(key) >= 1"}],
        requires="len(key) >= 1",
        properties=["C04"], battery="key_init",
    ),
}

CLASSES = {
    "Key": {"class": "mingus.core.keys.Key", "fields": {}},
}
