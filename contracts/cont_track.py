"""Contracts for mingus.containers.track.Track (C14: one add_notes call on a track in a given shape; histories are the
driver's)."""

M = "mingus.containers.track.Track."
B = "mingus.containers.bar.Bar."
CONTRACTS = {}
CLASSES = {
    "TrackT": {"class": "mingus.containers.track.Track", "fields": {"bars": "list[any]", "instrument": "None"}},
    "BarT": {"class": "mingus.containers.bar.Bar",
             "fields": {"bar": "list[any]", "current_beat": "real", "length": "real", "meter": "(int,int)", "key": "KeyT"}},
    "KeyT": {"class": "mingus.core.keys.Key", "fields": {"key": "str"}},
}

# which bar receives the item: a new default bar on an empty track; a new bar with the last bar's key and meter when
# the last bar is full (non-empty and less than a thousandth of a whole note left); the last bar otherwise
_LAST = "self.bars[len(self.bars) - 1]"
_FULL = "(%s.length != 0 and len(%s.bar) != 0 and %s.current_beat >= %s.length - 0.001)" % ((_LAST,) * 4)
_NEW = "self.bars[len(self.bars) - 1]"
_ROOM_NEW = "(1 / duration <= %s.length + 0.000000001 or %s.length == 0)" % (_NEW, _NEW)
_ENTRY = ("len(%s.bar) == %%s + 1 and %s.bar[len(%s.bar) - 1][0] == %%s and %s.bar[len(%s.bar) - 1][1] == duration and "
          "same_object(%s.bar[len(%s.bar) - 1][2], note)" % ((_NEW,) * 7))

_ADD = dict(
    requires=[("a-value", "duration > 0"),
              ("last-bars-meter-is-a-meter", "len(self.bars) == 0 or is_pow2(%s.meter[1]) or %s.meter == (0, 0)" % (_LAST, _LAST))],
    returns="bool",
    old={"old_n": "len(self.bars)",
         "old_last": "(self.bars[len(self.bars) - 1] if len(self.bars) > 0 else None)",
         "old_entries": "(len(self.bars[len(self.bars) - 1].bar) if len(self.bars) > 0 else 0)",
         "old_beat": "(self.bars[len(self.bars) - 1].current_beat if len(self.bars) > 0 else 0)"},
    cases=[
        dict(when="len(self.bars) == 0", returns="bool", ensures=[
            ("a-default-bar-is-opened", "len(self.bars) == 1 and %s.meter == (4, 4) and %s.length == 1 and %s.key.key == 'C'"
             % (_NEW, _NEW, _NEW)),
            ("placed-iff-it-fits-the-new-bar", "result == (1 / duration <= 1.000000001)"),
            ("entry-at-beat-0", "(not result) or (%s)" % (_ENTRY % ("0", "0"))),
            ("refused-leaves-the-new-bar-empty", "result or len(%s.bar) == 0" % _NEW)]),
        dict(when=_FULL, returns="bool", ensures=[
            ("a-bar-with-the-same-key-and-meter-is-opened",
             "len(self.bars) == old_n + 1 and same_object(self.bars[old_n - 1], old_last) and "
             "same_object(%s.key, old_last.key) and %s.meter == old_last.meter" % (_NEW, _NEW)),
            ("full-bar-untouched", "len(old_last.bar) == old_entries and old_last.current_beat == old_beat"),
            ("placed-iff-it-fits-the-new-bar", "result == %s" % _ROOM_NEW),
            ("entry-at-beat-0", "(not result) or (%s)" % (_ENTRY % ("0", "0"))),
            ("refused-leaves-the-new-bar-empty", "result or len(%s.bar) == 0" % _NEW)]),
        dict(when=None, returns="bool", ensures=[
            ("no-bar-is-opened", "len(self.bars) == old_n and same_object(%s, old_last)" % _LAST),
            ("placed-iff-it-fits-the-last-bar",
             "result == (old_beat + 1 / duration <= old_last.length + 0.000000001 or old_last.length == 0)"),
            ("entry-at-the-bars-current-beat", "(not result) or (%s)" % (_ENTRY % ("old_entries", "old_beat"))),
            ("refused-changes-nothing", "result or (len(old_last.bar) == old_entries and old_last.current_beat == old_beat)")]),
    ],
    modifies=["param:self", "param:self.bars"], old_by_reference=["old_last"],
    inline_callees=[B + "is_full", B + "place_notes", B + "__init__", B + "set_meter", B + "empty"],
    split=[{"field_types": {"self.bars": "[" + ",".join(["BarT"] * k) + "]"}} for k in (0, 1, 2)], split_is_domain=True,
    properties=["C14", "C18"], battery="track_add",
    notes="domain: tracks without an instrument holding 0, 1 or 2 bars, each bar in ANY state (entry list of unknown "
          "length, any beat, any power-of-two or unbounded meter); the item a rest or a container; float-as-real. The "
          "known finding C14/rejected-item-opens-bar is visible here as the clause pair 'a bar is opened' + 'refused "
          "leaves the new bar empty': the code opens the bar before it knows whether the item fits")
CONTRACTS[M + "add_notes"] = dict(
    params={"self": "TrackT", "note": "None", "duration": "real"},
    variants=[dict(name="container", params={"self": "TrackT", "note": "NoteContainer", "duration": "real"})],
    **_ADD)
CLASSES["NoteContainer"] = {"class": "mingus.containers.note_container.NoteContainer", "fields": {"notes": "[Note]"}}

# appending a bar / a track: one more element at the end, the same object, everything before it as it was
CLASSES["TrackAny"] = {"class": "mingus.containers.track.Track", "fields": {"bars": "list[any]", "instrument": "None"}}
CLASSES["CompositionT"] = {"class": "mingus.containers.composition.Composition",
                           "fields": {"tracks": "list[any]", "selected_tracks": "list[int]"}}
CONTRACTS[M + "add_bar"] = dict(
    params={"self": "TrackAny", "bar": "BarT"}, returns="TrackAny",
    old={"old_n": "len(self.bars)", "old_bars": "self.bars"},
    ensures=[("returns-the-track", "same_object(result, self)"),
             ("one-more-bar", "len(self.bars) == old_n + 1"),
             ("the-bar-itself-is-last", "same_object(self.bars[len(self.bars) - 1], bar)"),
             ("earlier-bars-untouched", "list_prefix_same(self.bars, old_bars, old_n)")],
    modifies=["param:self", "param:self.bars"], properties=["C14"], battery="track_add_bar",
    notes="a track holding ANY number of bars")
C = "mingus.containers.composition.Composition."
CONTRACTS[C + "add_track"] = dict(
    params={"self": "CompositionT", "track": "TrackAny"}, returns="None",
    old={"old_n": "len(self.tracks)", "old_tracks": "self.tracks"},
    ensures=[("one-more-track", "len(self.tracks) == old_n + 1"),
             ("the-track-itself-is-last", "same_object(self.tracks[len(self.tracks) - 1], track)"),
             ("earlier-tracks-untouched", "list_prefix_same(self.tracks, old_tracks, old_n)"),
             ("only-the-new-track-is-selected", "len(self.selected_tracks) == 1 and self.selected_tracks[0] == old_n")],
    modifies=["param:self", "param:self.tracks"], properties=["C14"], battery="comp_add_track",
    variants=[dict(name="not-a-track", params={"self": "CompositionT", "track": "BarT"},
                   ensures=[], raises={"UnexpectedObjectError": "True"}, old={})],
    notes="a composition holding ANY number of tracks; an object without bars is refused with the unexpected-object error")

# lifting to a track: every bar exactly once, in order; the track itself is returned
CLASSES["LiftTrack"] = {"class": "mingus.containers.track.Track", "fields": {"bars": "list[any]"}}
CLASSES["LiftBar"] = {"class": "mingus.containers.bar.Bar", "fields": {"bar": "list[any]"}}
_BSH = ["[]", "[[real,real,NoteContainer]]", "[[real,real,None],[real,real,NoteContainer]]"]


def _tsplit():
    import itertools
    out = []
    for k in (0, 1, 2):
        for combo in itertools.product(_BSH, repeat=k):
            d = {"field_types": {"self.bars": "[" + ",".join(["LiftBar"] * k) + "]"}}
            for i, sh in enumerate(combo):
                d["field_types"]["self.bars.%d.bar" % i] = sh
            out.append(d)
    return out


_TSPLIT = _tsplit()
_TBREQ = ("all([all([e[2] is None or all([canon(n.name) and abs(net(n.name)) <= 4 for n in e[2].notes]) for e in b.bar]) "
          "for b in self.bars])")
from contracts.cont_note import _SIZE as _TRSIZE  # noqa: E402
for _nm, _args, _req in (
        ("transpose", ", interval, up",
         [("names-up-to-double-accidentals", _TBREQ),
          ("shorthand-up-to-two-accidentals",
           "is_interval_shorthand(interval) and len(interval) <= 3 and "
           "(cnt_sharp(interval, 0, len(interval) - 1) == 0 or cnt_flat(interval, 0, len(interval) - 1) == 0)"),
          ("size-0-to-11", "0 <= %s and %s <= 11" % (_TRSIZE, _TRSIZE))]),
        ("augment", "", [("valid-names", "all([all([e[2] is None or all([is_name(n.name) for n in e[2].notes]) for e in b.bar]) for b in self.bars])")]),
        ("diminish", "", [("valid-names", "all([all([e[2] is None or all([is_name(n.name) for n in e[2].notes]) for e in b.bar]) for b in self.bars])")])):
    _p = {"self": "LiftTrack"}
    if _args:
        _p.update({"interval": "str", "up": "bool"})
    CONTRACTS[M + _nm] = dict(
        params=_p, requires=_req, returns="LiftTrack",
        ensures=[("returns-the-track", "same_object(result, self)")],
        emits="[(%r, b%s) for b in self.bars]" % (_nm, _args),
        callee_events={B + _nm: {"name": _nm, "with_receiver": True}},
        split=_TSPLIT, split_is_domain=True, modifies=["param:self"], properties=["C11"],
        battery="track_lift_tr" if _args else "track_lift",
        notes="domain: tracks of 0..2 bars of 0..2 entries each; event view over the bar operation")

# which tuning a track is drawn with: the instrument's own if it has one, else the track's
CLASSES["TuningT"] = {"class": "mingus.extra.tunings.StringTuning", "fields": {"tuning": "list[any]"}}
CLASSES["InstrWithTuning"] = {"class": "mingus.containers.instrument.Instrument", "fields": {"tuning": "TuningT"}}
CLASSES["InstrNoTuning"] = {"class": "mingus.containers.instrument.Instrument", "fields": {"tuning": "None"}}
CLASSES["TrackTun0"] = {"class": "mingus.containers.track.Track", "fields": {"instrument": "None", "tuning": "TuningT"}}
CLASSES["TrackTun1"] = {"class": "mingus.containers.track.Track", "fields": {"instrument": "InstrWithTuning", "tuning": "TuningT"}}
CLASSES["TrackTun2"] = {"class": "mingus.containers.track.Track", "fields": {"instrument": "InstrNoTuning", "tuning": "TuningT"}}
CONTRACTS[M + "get_tuning"] = dict(
    params={"self": "TrackTun0"}, returns="TuningT", ensures=[("the-tracks-own", "same_object(result, self.tuning)")],
    modifies=[], properties=["C20"], battery=None,
    variants=[dict(name="instrument-with-tuning", params={"self": "TrackTun1"},
                   ensures=[("the-instruments", "same_object(result, self.instrument.tuning)")]),
              dict(name="instrument-without-tuning", params={"self": "TrackTun2"},
                   ensures=[("the-tracks-own", "same_object(result, self.tuning)")])])
CONTRACTS[M + "set_tuning"] = dict(
    params={"self": "TrackTun0", "tuning": "TuningT"}, returns="TrackTun0",
    ensures=[("returns-the-track", "same_object(result, self)"), ("stored-on-the-track", "same_object(self.tuning, tuning)")],
    modifies=["param:self"], properties=["C20"], battery=None,
    variants=[dict(name="with-instrument", params={"self": "TrackTun2", "tuning": "TuningT"}, returns="TrackTun2",
                   ensures=[("returns-the-track", "same_object(result, self)"),
                            ("stored-on-the-track-and-the-instrument",
                             "same_object(self.tuning, tuning) and same_object(self.instrument.tuning, tuning)")],
                   modifies=["param:self", "param:self.instrument"])])

# '+' on a track: a bar is appended as a bar, anything note-like goes through add_notes with the default value
CLASSES["TrackPlus"] = {"class": "mingus.containers.track.Track", "fields": {"bars": "list[any]", "instrument": "None"}}
CONTRACTS[M + "__add__"] = dict(
    params={"self": "TrackPlus", "value": "NoteContainer"}, returns="bool",
    emits="[('add_notes', value, None)]",
    callee_events={M + "add_notes": {"name": "add_notes", "delegation": True}, M + "add_bar": {"name": "add_bar", "delegation": True}},
    modifies=["param:self"], properties=["C14"], battery=None,
    variants=[dict(name="name", params={"self": "TrackPlus", "value": "str"}, emits="[('add_notes', value, None)]"),
              dict(name="note", params={"self": "TrackPlus", "value": "Note"}, emits="[('add_notes', value, None)]"),
              dict(name="bar", params={"self": "TrackPlus", "value": "BarT"}, returns="TrackAny", emits="[('add_bar', value)]")],
    notes="event view: which operation '+' delegates to, with which arguments (both are under contract themselves)")

# Composition.add_note: the item goes, as given, to every selected track, in selection order, and to no other
def _sel_splits():
    import itertools
    out = []
    for k in (0, 1, 2, 3):
        for r in range(0, k + 1):
            for sel in itertools.permutations(range(k), r):
                out.append({"field_types": {"self.tracks": "[" + ",".join(["TrackPlus"] * k) + "]"},
                            "bind_fields": {"self.selected_tracks": list(sel)}})
    return out


CONTRACTS[C + "add_note"] = dict(
    params={"self": "CompositionT", "note": "str"}, returns="None",
    emits="[('add', self.tracks[n], note) for n in self.selected_tracks]",
    callee_events={M + "__add__": {"name": "add", "with_receiver": True, "delegation": True}},
    split=_sel_splits(), split_is_domain=True, modifies=["param:self"], properties=["C14", "C15"], battery=None,
    variants=[dict(name="container", params={"self": "CompositionT", "note": "NoteContainer"})],
    notes="domain: compositions of 0..3 tracks with every ordered selection of distinct tracks; the SAME item object is "
          "handed to each selected track's '+' (what '+' does with it is Track.__add__ / add_notes)")

# '+' on a composition: a track is appended as a track, anything else goes to the selected tracks as a note
CONTRACTS[C + "__add__"] = dict(
    params={"self": "CompositionT", "value": "TrackPlus"}, returns="any",
    emits="[('add_track', value)]",
    callee_events={C + "add_track": {"name": "add_track", "delegation": True}, C + "add_note": {"name": "add_note", "delegation": True}},
    modifies=["param:self"], properties=["C14"], battery=None,
    variants=[dict(name="name", params={"self": "CompositionT", "value": "str"}, emits="[('add_note', value)]"),
              dict(name="container", params={"self": "CompositionT", "value": "NoteContainer"}, emits="[('add_note', value)]"),
              dict(name="bar", params={"self": "CompositionT", "value": "BarT"}, emits="[('add_note', value)]")],
    notes="event view: which operation '+' delegates to, with which argument (both are under contract themselves)")

# all bars but the last are full
CONTRACTS[M + "test_integrity"] = dict(
    params={"self": "TrackT"}, returns="bool", modifies=[],
    ensures=[("true-exactly-when-every-bar-but-the-last-is-full",
              "result == all([(b.length != 0 and len(b.bar) != 0 and b.current_beat >= b.length - 0.001) "
              "for b in self.bars[:len(self.bars) - 1]])")],
    split=[{"field_types": {"self.bars": "[" + ",".join(["BarT"] * k) + "]"}} for k in (0, 1, 2, 3)], split_is_domain=True,
    notes="domain: tracks of 0..3 bars, each bar in ANY state",
    properties=["C14"], battery="track_integrity")
