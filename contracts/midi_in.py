"""Contracts for mingus.midi.midi_file_in.MidiFile (C17: variable-length reader, headers)."""

M = "mingus.midi.midi_file_in.MidiFile."
CONTRACTS = {}
CLASSES = {
    "MidiFileIn": {"class": "mingus.midi.midi_file_in.MidiFile", "fields": {"bytes_read": "int"}},
}


def _c(name, **kw):
    kw.setdefault("properties", ["C17"])
    CONTRACTS[M + name] = kw


# binascii.b2a_hex + int(text, 16): big-endian value of the bytes.  Assumed (modelled library calls), validated at
# run time by its battery; never counted as proved.
_c("bytes_to_int",
   params={"self": "MidiFileIn", "_bytes": "bytes"}, requires="1 <= len(_bytes) and len(_bytes) <= 4", returns="int",
   ensures=[("big-endian-value",
             "result == (_bytes[0] if len(_bytes) == 1 else _bytes[0] * 256 + _bytes[1] if len(_bytes) == 2 else "
             "_bytes[0] * 65536 + _bytes[1] * 256 + _bytes[2] if len(_bytes) == 3 else "
             "_bytes[0] * 16777216 + _bytes[1] * 65536 + _bytes[2] * 256 + _bytes[3])"),
            ("non-negative", "result >= 0")],
   modifies=[], pure=True,
   bounded_only="binascii.b2a_hex and int(text, 16) are library calls outside the VC generator; run-time contract "
                "over battery 'byte_strings' (all 1- and 2-byte strings, boundary and seeded 3-/4-byte strings)",
   battery="byte_strings")

# the reader on a file positioned at a 1..4-byte variable-length quantity (continuation bits as the format requires)
_AT = "fp.data[fp.pos + %d]"
_CASES = []
for _L in (1, 2, 3, 4):
    _cont = " and ".join(["%s >= 128" % (_AT % i) for i in range(_L - 1)] + ["%s < 128" % (_AT % (_L - 1))])
    _val = " + ".join("(%s %% 128) * %d" % (_AT % i, 128 ** (_L - 1 - i)) for i in range(_L))
    _CASES.append((_L, _cont, _val))
_c("parse_varbyte_as_int",
   params={"self": "MidiFileIn", "fp": "file", "return_bytes_read": "True"},
   requires=[("file-holds-a-quantity-of-1-to-4-bytes",
              " or ".join("(fp.pos + %d <= len(fp.data) and %s)" % (L, cont) for L, cont, val in _CASES)),
             ("bytes-are-bytes", "all([0 <= fp.data[fp.pos + i] and fp.data[fp.pos + i] < 256 for i in range(4)])")],
   old={"old_pos": "fp.pos", "old_read": "self.bytes_read"},
   cases=[dict(when="fp.data[old_pos + %d] < 128 and %s" % (L - 1, " and ".join(["True"] + ["fp.data[old_pos + %d] >= 128" % i for i in range(L - 1)])),
               returns="(int,int)",
               ensures=[("value-of-the-7-bit-groups", "result[0] == " + val.replace("fp.pos", "old_pos")),
                        ("bytes-consumed", "result[1] == %d and fp.pos == old_pos + %d and self.bytes_read == old_read + %d" % (L, L, L))])
          for L, cont, val in _CASES],
   modifies=["param:fp", "param:self"],
   battery="vlq_files")

_c("parse_track_header",
   params={"self": "MidiFileIn", "fp": "file"},
   requires="fp.pos + 8 <= len(fp.data) and all([0 <= fp.data[fp.pos + i] and fp.data[fp.pos + i] < 256 for i in range(8)])",
   old={"old_pos": "fp.pos"},
   returns="int",
   ensures=[("chunk-size-big-endian", "result == fp.data[old_pos + 4] * 16777216 + fp.data[old_pos + 5] * 65536 + "
                                      "fp.data[old_pos + 6] * 256 + fp.data[old_pos + 7]"),
            ("eight-bytes-consumed", "fp.pos == old_pos + 8")],
   raises={"HeaderError": "fp.data[fp.pos:fp.pos + 4] != b'MTrk'"},
   modifies=["param:fp", "param:self"],
   battery="track_header_files")
