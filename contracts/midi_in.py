"""Contracts for mingus.midi.midi_file_in.MidiFile (C17: variable-length reader, headers)."""

M = "mingus.midi.midi_file_in.MidiFile."
CONTRACTS = {}
CLASSES = {
    "MidiFileIn": {"class": "mingus.midi.midi_file_in.MidiFile", "fields": {"bytes_read": "int"}},
}


def _c(name, **kw):
    kw.setdefault("properties", ["C17"])
    CONTRACTS[M + name] = kw


# binascii.b2a_hex + int(text, 16): big-endian value of the bytes.  Assumed (modelled library calls), validated at
# run time by its battery; never counted as proved.
_c("bytes_to_int",
   params={"self": "MidiFileIn", "_bytes": "bytes"}, requires="1 <= len(_bytes) and len(_bytes) <= 4", returns="int",
   ensures=[("big-endian-value",
             "result == (_bytes[0] if len(_bytes) == 1 else _bytes[0] * 256 + _bytes[1] if len(_bytes) == 2 else "
             "_bytes[0] * 65536 + _bytes[1] * 256 + _bytes[2] if len(_bytes) == 3 else "
             "_bytes[0] * 16777216 + _bytes[1] * 65536 + _bytes[2] * 256 + _bytes[3])"),
            ("non-negative", "result >= 0")],
   modifies=[], pure=True,
   bounded_only="binascii.b2a_hex and int(text, 16) are library calls outside the VC generator; run-time contract "
                "over battery 'byte_strings' (all 1- and 2-byte strings, boundary and seeded 3-/4-byte strings)",
   battery="byte_strings")

# the reader on a file positioned at a 1..4-byte variable-length quantity (continuation bits as the format requires)
_AT = "fp.data[fp.pos + %d]"
_CASES = []
for _L in (1, 2, 3, 4):
    _cont = " and ".join(["%s >= 128" % (_AT % i) for i in range(_L - 1)] + ["%s < 128" % (_AT % (_L - 1))])
    _val = " + ".join("(%s %% 128) * %d" % (_AT % i, 128 ** (_L - 1 - i)) for i in range(_L))
    _CASES.append((_L, _cont, _val))
_c("parse_varbyte_as_int",
   params={"self": "MidiFileIn", "fp": "file", "return_bytes_read": "True"},
   requires=[("file-holds-a-quantity-of-1-to-4-bytes",
              " or ".join("(fp.pos + %d <= len(fp.data) and %s)" % (L, cont) for L, cont, val in _CASES)),
             ("bytes-are-bytes", "all([0 <= fp.data[fp.pos + i] and fp.data[fp.pos + i] < 256 for i in range(4)])")],
   old={"old_pos": "fp.pos", "old_read": "self.bytes_read"},
   cases=[dict(when="fp.data[old_pos + %d] < 128 and %s" % (L - 1, " and ".join(["True"] + ["fp.data[old_pos + %d] >= 128" % i for i in range(L - 1)])),
               returns="(int,int)",
               ensures=[("value-of-the-7-bit-groups", "result[0] == " + val.replace("fp.pos", "old_pos")),
                        ("bytes-consumed", "result[1] == %d and fp.pos == old_pos + %d and self.bytes_read == old_read + %d" % (L, L, L))])
          for L, cont, val in _CASES],
   modifies=["param:fp", "param:self"], havoc={"fp.pos": "int", "self.bytes_read": "int"},
   battery="vlq_files")

_c("parse_track_header",
   params={"self": "MidiFileIn", "fp": "file"},
   requires="fp.pos + 8 <= len(fp.data) and all([0 <= fp.data[fp.pos + i] and fp.data[fp.pos + i] < 256 for i in range(8)])",
   old={"old_pos": "fp.pos"},
   returns="int",
   ensures=[("chunk-size-big-endian", "result == fp.data[old_pos + 4] * 16777216 + fp.data[old_pos + 5] * 65536 + "
                                      "fp.data[old_pos + 6] * 256 + fp.data[old_pos + 7]"),
            ("eight-bytes-consumed", "fp.pos == old_pos + 8")],
   raises={"HeaderError": "fp.data[fp.pos:fp.pos + 4] != b'MTrk'"},
   modifies=["param:fp", "param:self"], havoc={"fp.pos": "int", "self.bytes_read": "int"},
   battery="track_header_files")

_TDV = "(bytes[0] * 256 + bytes[1])"
_c("parse_time_division",
   params={"self": "MidiFileIn", "bytes": "bytes[2]"},
   requires="0 <= bytes[0] and bytes[0] < 256 and 0 <= bytes[1] and bytes[1] < 256",
   returns="dict[fps:False,ticks_per_beat:int]",
   ensures=[("ticks-per-beat-is-the-15-bit-value", "result['ticks_per_beat'] == %s" % _TDV)],
   raises={"TimeDivisionError": "bytes[0] >= 128"},
   modifies=[], battery="two_bytes",
   notes="frames-per-second time division (top bit set) is always rejected by this reader: its frame field "
         "((value & 0x7F00) >> 2) is a multiple of 64 and never one of 24, 25, 29, 30 -- derived from the code, "
         "outside what C17 states (mingus writes ticks-per-beat files)")

_H = "fp.data[old_pos + %d]"
_CHUNK = "(%s * 16777216 + %s * 65536 + %s * 256 + %s)" % tuple(_H % i for i in (4, 5, 6, 7))
_FMT = "(%s * 256 + %s)" % (_H % 8, _H % 9)
_c("parse_midi_file_header",
   params={"self": "MidiFileIn", "fp": "file"},
   requires=[("at-least-a-whole-header-in-the-file", "fp.pos + 14 <= len(fp.data)"),
             ("bytes-are-bytes", "all([0 <= fp.data[fp.pos + i] and fp.data[fp.pos + i] < 256 for i in range(14)])"),
             ("header-chunk-of-the-standard-length-or-too-short",
              "%s <= 6" % _CHUNK.replace("old_pos", "fp.pos"))],
   old={"old_pos": "fp.pos", "old_read": "self.bytes_read"},
   cases=[dict(when="%s < 6" % _CHUNK, returns="False", ensures=[("too-short-a-header-is-no-header", "result == False")]),
          dict(when=None, returns="(int,int,dict[fps:False,ticks_per_beat:int])",
               ensures=[("format-number", "result[0] == %s" % _FMT),
                        ("number-of-tracks", "result[1] == %s * 256 + %s" % (_H % 10, _H % 11)),
                        ("ticks-per-beat", "result[2]['ticks_per_beat'] == %s * 256 + %s" % (_H % 12, _H % 13)),
                        ("fourteen-bytes-consumed", "fp.pos == old_pos + 14 and self.bytes_read == old_read + 14")])],
   raises={"OSError": "fp.data[fp.pos:fp.pos + 4] != b'MThd' or (%s >= 6 and (%s > 2 or %s >= 128))"
                      % (_CHUNK.replace("old_pos", "fp.pos"), _FMT.replace("old_pos", "fp.pos"),
                         (_H % 12).replace("old_pos", "fp.pos"))},
   modifies=["param:fp", "param:self"], battery="file_header_files",
   notes="a file that does not start with MThd, has an impossible format number (> 2) or a frames-per-second time "
         "division is rejected with IOError (the bare except clauses turn the specific errors into IOError)")

# one event at the file position.  The byte count returned must be exactly what was consumed: parse_track subtracts it
# from the chunk size to find the end of the track.
_E = "fp.data[old_pos]"
_E0 = "fp.data[fp.pos]"       # case guards are read in the pre-state
_c("parse_midi_event",
   params={"self": "MidiFileIn", "fp": "file"},
   requires=[("enough-bytes-for-any-event", "fp.pos + 6 <= len(fp.data)"),
             ("bytes-are-bytes", "all([0 <= fp.data[fp.pos + i] and fp.data[fp.pos + i] < 256 for i in range(6)])"),
             ("a-meta-events-length-is-a-quantity-of-1-to-4-bytes-and-its-data-is-in-the-file",
              "fp.data[fp.pos] < 240 or (fp.data[fp.pos + 5] < 128 and "
              "fp.pos + 2 + vlq_len_at(fp.data, fp.pos + 2) + vlq_val_at(fp.data, fp.pos + 2) <= len(fp.data))")],
   old={"old_pos": "fp.pos"},
   cases=[dict(when="%s >= 240" % _E0, returns="(dict[event:int,meta_event:int,data:bytes],int)",
               ensures=[("meta-event", "result[0]['event'] == 15 and result[0]['meta_event'] == fp.data[old_pos + 1]"),
                        ("data-is-the-bytes-after-the-length",
                         "result[0]['data'] == fp.data[old_pos + 2 + vlq_len_at(fp.data, old_pos + 2):"
                         "old_pos + 2 + vlq_len_at(fp.data, old_pos + 2) + vlq_val_at(fp.data, old_pos + 2)]"),
                        ("reports-exactly-the-bytes-consumed",
                         "result[1] == 2 + vlq_len_at(fp.data, old_pos + 2) + vlq_val_at(fp.data, old_pos + 2) and "
                         "fp.pos == old_pos + result[1]")]),
          dict(when="%s >= 192 and %s < 224" % (_E0, _E0), returns="(dict[event:int,channel:int,param1:int],int)",
               ensures=[("one-parameter-event", "result[0]['event'] == %s // 16 and result[0]['channel'] == %s %% 16 and "
                                                "result[0]['param1'] == fp.data[old_pos + 1]" % (_E, _E)),
                        ("reports-exactly-the-bytes-consumed", "result[1] == 2 and fp.pos == old_pos + 2")]),
          dict(when=None, returns="(dict[event:int,channel:int,param1:int,param2:int],int)",
               ensures=[("two-parameter-event-note-on-with-velocity-0-read-as-note-off",
                         "result[0]['event'] == (8 if fp.data[old_pos + 2] == 0 else %s // 16) and "
                         "result[0]['channel'] == %s %% 16 and result[0]['param1'] == fp.data[old_pos + 1] and "
                         "result[0]['param2'] == fp.data[old_pos + 2]" % (_E, _E)),
                        ("reports-exactly-the-bytes-consumed", "result[1] == 3 and fp.pos == old_pos + 3")])],
   raises={"FormatError": "fp.data[fp.pos] < 128"},
   modifies=["param:fp", "param:self"], havoc={"fp.pos": "int", "self.bytes_read": "int"}, battery="event_files")

# a whole track chunk: header, then delta-time / event pairs until the chunk's byte count is used up.  Proved for chunks
# of 0, 1 and 2 two-parameter channel events with one-byte delta times (4 bytes each), any field values; the general
# stream (meta events, longer deltas, running lengths) is the round-trip driver's.
_P = "fp.pos"


def _track_req(k):
    c = ["%s + %d <= len(fp.data)" % (_P, 8 + 4 * k + 6),
         "all([0 <= fp.data[%s + i] and fp.data[%s + i] < 256 for i in range(%d)])" % (_P, _P, 8 + 4 * k + 6),
         "fp.data[%s:%s + 4] == b'MTrk'" % (_P, _P),
         "fp.data[%s + 4] == 0 and fp.data[%s + 5] == 0 and fp.data[%s + 6] == 0 and fp.data[%s + 7] == %d" % (_P, _P, _P, _P, 4 * k)]
    for i in range(k):
        b = 8 + 4 * i
        c.append("fp.data[%s + %d] < 128" % (_P, b))
        c.append("128 <= fp.data[%s + %d] and fp.data[%s + %d] < 240 and not (192 <= fp.data[%s + %d] and fp.data[%s + %d] < 224)"
                 % (_P, b + 1, _P, b + 1, _P, b + 1, _P, b + 1))
    return " and ".join(c)


def _track_ens(k):
    e = [("one-pair-per-event", "len(result) == %d" % k), ("whole-chunk-consumed", "fp.pos == old_pos + %d" % (8 + 4 * k))]
    for i in range(k):
        b = 8 + 4 * i
        e.append(("event-%d-delta-and-fields" % i,
                  "result[%d][0] == fp.data[old_pos + %d] and result[%d][1]['channel'] == fp.data[old_pos + %d] %% 16 and "
                  "result[%d][1]['param1'] == fp.data[old_pos + %d] and result[%d][1]['param2'] == fp.data[old_pos + %d] and "
                  "result[%d][1]['event'] == (8 if fp.data[old_pos + %d] == 0 else fp.data[old_pos + %d] // 16)"
                  % (i, b, i, b + 1, i, b + 2, i, b + 3, i, b + 3, b + 1)))
    return e


_c("parse_track",
   params={"self": "MidiFileIn", "fp": "file"},
   requires="(%s)" % ") or (".join(_track_req(k) for k in (0, 1, 2)),
   old={"old_pos": "fp.pos"}, returns="list[any]",
   cases=[dict(when="fp.data[fp.pos + 7] == %d" % (4 * k), returns="list[any]", ensures=_track_ens(k)) for k in (0, 1, 2)],
   split=[{"assume": _track_req(k)} for k in (0, 1, 2)], split_is_domain=True,
   modifies=["param:fp", "param:self"], battery="track_files")
