"""Contracts for mingus.containers.bar.Bar (C13: the per-call scalar clauses; histories are the driver's)."""

M = "mingus.containers.bar.Bar."
CONTRACTS = {}
CLASSES = {
    "Bar": {"class": "mingus.containers.bar.Bar",
            "fields": {"bar": "list[any]", "current_beat": "real", "length": "real", "meter": "(int,int)"}},
}


def _c(name, **kw):
    kw.setdefault("properties", ["C13"])
    CONTRACTS[M + name] = kw


_c("set_meter",
   params={"self": "Bar", "meter": "(int,int)"}, returns="None",
   ensures=[("meter-stored", "self.meter == (meter[0], meter[1])"),
            ("length-is-count-over-unit", "(meter == (0, 0) and self.length == 0) or "
                                          "(is_pow2(meter[1]) and feq(self.length, meter[0] / meter[1]))")],
   raises={"MeterFormatError": "not (is_pow2(meter[1]) or (meter[0] == 0 and meter[1] == 0))"},
   modifies=["param:self"], havoc={"self.meter": "(int,int)", "self.length": "real"},
   battery="bar_meter")
_c("is_full",
   params={"self": "Bar"}, returns="bool", modifies=[],
   ensures=[("full-iff-non-empty-and-nothing-left-within-a-thousandth",
             "result == (self.length != 0 and len(self.bar) != 0 and self.current_beat >= self.length - 0.001)")],
   battery="bars_filled")
_c("space_left",
   params={"self": "Bar"}, returns="real", modifies=[],
   ensures=[("current-beat-plus-space-left-is-the-length", "feq(self.current_beat + result, self.length)")],
   battery="bars_filled")
