"""Contracts for mingus.containers.bar.Bar (C13: the per-call scalar clauses; histories are the driver's)."""

M = "mingus.containers.bar.Bar."
CONTRACTS = {}
CLASSES = {
    "Bar": {"class": "mingus.containers.bar.Bar",
            "fields": {"bar": "list[entry]", "current_beat": "real", "length": "real", "meter": "(int,int)"}},
}


def _c(name, **kw):
    kw.setdefault("properties", ["C13"])
    CONTRACTS[M + name] = kw


_c("set_meter",
   params={"self": "Bar", "meter": "(int,int)"}, returns="None",
   ensures=[("meter-stored", "self.meter == (meter[0], meter[1])"),
            ("length-is-count-over-unit", "(meter == (0, 0) and self.length == 0) or "
                                          "(is_pow2(meter[1]) and feq(self.length, meter[0] / meter[1]))")],
   raises={"MeterFormatError": "not (is_pow2(meter[1]) or (meter[0] == 0 and meter[1] == 0))"},
   modifies=["param:self"], havoc={"self.meter": "(int,int)", "self.length": "real"},
   battery="bar_meter")
_c("is_full",
   params={"self": "Bar"}, returns="bool", modifies=[],
   ensures=[("full-iff-non-empty-and-nothing-left-within-a-thousandth",
             "result == (self.length != 0 and len(self.bar) != 0 and self.current_beat >= self.length - 0.001)")],
   battery="bars_filled")
_c("space_left",
   params={"self": "Bar"}, returns="real", modifies=[],
   ensures=[("current-beat-plus-space-left-is-the-length", "feq(self.current_beat + result, self.length)")],
   battery="bars_filled")

# placement: one call, any bar state (the entry list has unknown length), floats as reals.  The acceptance test is
# the coded one (total + 1/value <= length + 1e-9, or the unbounded meter); for the documented value vocabulary it
# coincides with the exact rational criterion of the property (that coincidence is the driver's subject).
_ROOM = "(self.current_beat + 1 / duration <= self.length + 0.000000001 or self.length == 0)"
_PLACE = dict(
    requires="duration > 0", returns="bool",
    old={"old_beat": "self.current_beat", "old_len": "len(self.bar)", "old_bar": "self.bar", "old_length": "self.length"},
    cases=[dict(when=_ROOM, returns="bool", ensures=[
                ("accepted", "result == True"),
                ("appends-exactly-one-entry", "len(self.bar) == old_len + 1"),
                ("entry-is-start-beat-value-content",
                 "self.bar[len(self.bar) - 1][0] == old_beat and self.bar[len(self.bar) - 1][1] == duration and "
                 "same_object(self.bar[len(self.bar) - 1][2], notes)"),
                ("earlier-entries-untouched", "list_prefix_same(self.bar, old_bar, old_len)"),
                ("current-beat-advances-by-the-length", "feq(self.current_beat, old_beat + 1 / duration)"),
                ("bar-length-untouched", "self.length == old_length")]),
           dict(when=None, returns="bool", ensures=[
                ("refused", "result == False"),
                ("and-nothing-changes", "len(self.bar) == old_len and list_prefix_same(self.bar, old_bar, old_len) and "
                                        "self.current_beat == old_beat and self.length == old_length")])],
    modifies=["param:self", "param:self.bar"], battery="bar_place", properties=["C13", "C18"])
_c("place_notes", params={"self": "Bar", "notes": "None", "duration": "real"},
   variants=[dict(name="container", params={"self": "Bar", "notes": "NoteContainer", "duration": "real"}),
             dict(name="int-value", params={"self": "Bar", "notes": "None", "duration": "int"}),
             # a bare name becomes a NEW container holding that one note (octave 4); everything else as above
             dict(name="bare-name", params={"self": "Bar", "notes": "str", "duration": "real"},
                  requires="duration > 0 and is_name(notes)",
                  cases=[dict(when=_ROOM, returns="bool", ensures=[
                              ("accepted", "result == True"),
                              ("appends-exactly-one-entry", "len(self.bar) == old_len + 1"),
                              ("entry-is-start-beat-value-and-a-new-container-of-that-note",
                               "self.bar[len(self.bar) - 1][0] == old_beat and self.bar[len(self.bar) - 1][1] == duration and "
                               "len(self.bar[len(self.bar) - 1][2].notes) == 1 and "
                               "self.bar[len(self.bar) - 1][2].notes[0].name == notes and "
                               "self.bar[len(self.bar) - 1][2].notes[0].octave == 4 and "
                               "is_fresh(self.bar[len(self.bar) - 1][2])"),
                              ("earlier-entries-untouched", "list_prefix_same(self.bar, old_bar, old_len)"),
                              ("current-beat-advances-by-the-length", "feq(self.current_beat, old_beat + 1 / duration)")]),
                         dict(when=None, returns="bool", ensures=[
                              ("refused", "result == False"),
                              ("and-nothing-changes", "len(self.bar) == old_len and list_prefix_same(self.bar, old_bar, old_len) and "
                                                      "self.current_beat == old_beat and self.length == old_length")])],
                  inline_callees=["mingus.containers.note_container.NoteContainer.__init__",
                                  "mingus.containers.note_container.NoteContainer.empty",
                                  "mingus.containers.note_container.NoteContainer.add_notes",
                                  "mingus.containers.note_container.NoteContainer.add_note"]),
             # an EMPTY list is a list like any other: it becomes a new (empty) container, not a bare list and not a rest
             dict(name="empty-list", params={"self": "Bar", "notes": "[]", "duration": "real"},
                  cases=[dict(when=_ROOM, returns="bool", ensures=[
                              ("accepted", "result == True"),
                              ("appends-exactly-one-entry", "len(self.bar) == old_len + 1"),
                              ("entry-is-start-beat-value-and-a-new-empty-container",
                               "self.bar[len(self.bar) - 1][0] == old_beat and self.bar[len(self.bar) - 1][1] == duration and "
                               "hasattr(self.bar[len(self.bar) - 1][2], 'notes') and "
                               "len(self.bar[len(self.bar) - 1][2].notes) == 0 and is_fresh(self.bar[len(self.bar) - 1][2])"),
                              ("earlier-entries-untouched", "list_prefix_same(self.bar, old_bar, old_len)"),
                              ("current-beat-advances-by-the-length", "feq(self.current_beat, old_beat + 1 / duration)")]),
                         dict(when=None, returns="bool", ensures=[
                              ("refused", "result == False"),
                              ("and-nothing-changes", "len(self.bar) == old_len and list_prefix_same(self.bar, old_bar, old_len) and "
                                                      "self.current_beat == old_beat and self.length == old_length")])],
                  inline_callees=["mingus.containers.note_container.NoteContainer.__init__",
                                  "mingus.containers.note_container.NoteContainer.empty",
                                  "mingus.containers.note_container.NoteContainer.add_notes",
                                  "mingus.containers.note_container.NoteContainer.add_note"])],
   **_PLACE)
CLASSES["NoteContainer"] = {"class": "mingus.containers.note_container.NoteContainer", "fields": {"notes": "[Note]"}}


def _place_like(duration, notes_clause):
    """the placement contract with the duration (and the content clause) of a wrapper substituted"""
    import copy, re
    d = copy.deepcopy(_PLACE)

    def sub(e):
        e = e.replace("same_object(self.bar[len(self.bar) - 1][2], notes)", notes_clause)
        return re.sub(r"\bduration\b", "(" + duration + ")", e)
    d["requires"] = sub(d["requires"])
    for cs in d["cases"]:
        cs["when"] = sub(cs["when"]) if cs["when"] else None
        cs["ensures"] = [(n, sub(e)) for n, e in cs["ensures"]]
    return d


# the two wrappers: a rest is a placement of None; '+' places with the beat unit of the meter (a quarter in free time)
_c("place_rest", params={"self": "Bar", "duration": "real"},
   **dict(_place_like("duration", "is_None(self.bar[len(self.bar) - 1][2])"), battery="bar_rest"))
_UNIT = "(self.meter[1] if self.meter[1] != 0 else 4)"
_c("__add__", params={"self": "Bar", "note_container": "NoteContainer"},
   **dict(_place_like(_UNIT, "same_object(self.bar[len(self.bar) - 1][2], note_container)"), battery="bar_plus"))


# removing the last entry: the total goes back by that entry's length, the entries before it stay
_c("remove_last_entry",
   params={"self": "Bar"},
   requires=[("last-entry-has-a-value", "len(self.bar) == 0 or self.bar[len(self.bar) - 1][1] != 0")],
   returns="real",
   old={"old_beat": "self.current_beat", "old_len": "len(self.bar)", "old_bar": "self.bar",
        "last_value": "(self.bar[len(self.bar) - 1][1] if len(self.bar) > 0 else 1)"},
   ensures=[("one-entry-fewer", "len(self.bar) == old_len - 1"),
            ("earlier-entries-untouched", "list_prefix_same(self.bar, old_bar, old_len - 1)"),
            ("current-beat-goes-back-by-its-length", "feq(self.current_beat, old_beat - 1 / last_value)"),
            ("returns-the-current-beat", "result == self.current_beat")],
   raises={"IndexError": "len(self.bar) == 0"},
   modifies=["param:self"], battery="bars_filled", properties=["C13", "C18"])

# lifting to a bar: the operation reaches the container of every sounding entry exactly once, in order; rests are skipped
NC = "mingus.containers.note_container.NoteContainer."
CLASSES["LiftBar"] = {"class": "mingus.containers.bar.Bar", "fields": {"bar": "list[any]"}}
CLASSES["NoteContainer"] = {"class": "mingus.containers.note_container.NoteContainer", "fields": {"notes": "[Note]"}}


def _lift_shapes():
    import itertools
    kinds = ["[real,real,None]", "[real,real,NoteContainer]"]
    out = [[]]
    for n in (1, 2, 3):
        out += [list(c) for c in itertools.product(kinds, repeat=n)]
    return out


_LIFT_SPLIT = [{"field_types": {"self.bar": "[" + ",".join(sh) + "]"}} for sh in _lift_shapes()]
_NREQ = "all([e[2] is None or all([canon(n.name) and abs(net(n.name)) <= 4 for n in e[2].notes]) for e in self.bar])"
from contracts.cont_note import _SIZE as _BSIZE  # noqa: E402
_c("transpose",
   params={"self": "LiftBar", "interval": "str", "up": "bool"},
   requires=[("names-up-to-double-accidentals", _NREQ),
             ("shorthand-up-to-two-accidentals",
              "is_interval_shorthand(interval) and len(interval) <= 3 and "
              "(cnt_sharp(interval, 0, len(interval) - 1) == 0 or cnt_flat(interval, 0, len(interval) - 1) == 0)"),
             ("size-0-to-11", "0 <= %s and %s <= 11" % (_BSIZE, _BSIZE))],
   returns="None",
   emits="[('transpose', c, interval, up) for c in container_entries(self.bar)]",
   callee_events={NC + "transpose": {"name": "transpose", "with_receiver": True}},
   split=_LIFT_SPLIT, split_is_domain=True, modifies=["param:self"], properties=["C11"], battery="bar_lift_tr",
   notes="domain: bars of 0..3 entries (rest / container), event view over the proved container operation")
for _nm in ("augment", "diminish"):
    _c(_nm, params={"self": "LiftBar"},
       requires=[("valid-names", "all([e[2] is None or all([is_name(n.name) for n in e[2].notes]) for e in self.bar])")],
       returns="None",
       emits="[(%r, c) for c in container_entries(self.bar)]" % _nm,
       callee_events={NC + _nm: {"name": _nm, "with_receiver": True}},
       split=_LIFT_SPLIT, split_is_domain=True, modifies=["param:self"], properties=["C11"], battery="bar_lift")

# adding notes to the sounding entry at a beat / assigning new content to an index: only that entry's content changes
_c("place_notes_at",
   params={"self": "LiftBar", "notes": "NoteContainer", "at": "real"},
   requires=[("sounding-entries-only", "all([e[2] is not None for e in self.bar])"),
             ("containers-pitch-ordered-with-valid-names",
              "all([all([is_name(n.name) for n in e[2].notes]) and "
              "all([pitch(e[2].notes[i]) < pitch(e[2].notes[i + 1]) for i in range(len(e[2].notes) - 1)]) for e in self.bar]) "
              "and all([is_name(n.name) for n in notes.notes])")],
   returns="None",
   old={"old_entries": "[(e[0], e[1], e[2]) for e in self.bar]"}, old_by_reference=["old_entries"],
   emits="[('add', e[2], notes) for e in self.bar if e[0] == at]",
   ensures=[("every-entry-keeps-its-beat-value-and-container-object",
             "all([self.bar[i][0] == old_entries[i][0] and self.bar[i][1] == old_entries[i][1] and "
             "same_object(self.bar[i][2], old_entries[i][2]) for i in range(len(self.bar))])")],
   callee_events={NC + "__add__": {"name": "add", "with_receiver": True, "assume": ["returns-self"]}},
   split=[{"field_types": {"self.bar": "[" + ",".join(["[real,real,NoteContainer]"] * k) + "]"}} for k in range(0, 4)],
   split_is_domain=True, modifies=["param:self"], properties=["C13"], battery="bar_at",
   notes="domain: bars of 0..3 sounding entries at arbitrary beats (also equal beats): the notes are added to exactly the "
         "entries that start at the given beat; the adding itself is NoteContainer.add_notes (proved separately)")
_c("__setitem__",
   params={"self": "LiftBar", "index": "int", "value": "NoteContainer"},
   returns="None",
   old={"old_entries": "[(e[0], e[1], e[2]) for e in self.bar]"}, old_by_reference=["old_entries"],
   ensures=[("that-entrys-content-is-the-given-container", "same_object(self.bar[index][2], value)"),
            ("its-beat-and-value-stay", "self.bar[index][0] == old_entries[index][0] and self.bar[index][1] == old_entries[index][1]"),
            ("every-other-entry-untouched",
             "all([i == (index if index >= 0 else index + len(self.bar)) or (self.bar[i][0] == old_entries[i][0] and "
             "self.bar[i][1] == old_entries[i][1] and same_object(self.bar[i][2], old_entries[i][2])) "
             "for i in range(len(self.bar))])")],
   raises={"IndexError": "index >= len(self.bar) or index < -len(self.bar)"},
   split=[{"field_types": {"self.bar": "[" + ",".join(["[real,real,NoteContainer]"] * k) + "]"}, "bind": {"index": i}}
          for k in range(0, 4) for i in range(-k, k)] +
         [{"field_types": {"self.bar": "[" + ",".join(["[real,real,NoteContainer]"] * k) + "]"},
           "assume": "index >= %d or index < %d" % (k, -k)} for k in range(0, 4)],
   variants=[dict(name="names", params={"self": "LiftBar", "index": "int", "value": "[str,str]"},
                  requires="is_name(value[0]) and is_name(value[1])",
                  ensures=[("that-entrys-content-is-a-container", "hasattr(self.bar[index][2], 'notes')"),
                           ("a-new-one", "is_fresh(self.bar[index][2])"),
                           ("holding-the-first-name-in-octave-4",
                            "any([n.name == value[0] and n.octave == 4 for n in self.bar[index][2].notes])"),
                           ("and-only-notes-named-in-the-list", "len(self.bar[index][2].notes) <= 2 and "
                            "all([any([n.name == v for v in value]) for n in self.bar[index][2].notes])"),
                           ("its-beat-and-value-stay",
                            "self.bar[index][0] == old_entries[index][0] and self.bar[index][1] == old_entries[index][1]")],
                  raises={},
                  split=[{"field_types": {"self.bar": "[" + ",".join(["[real,real,NoteContainer]"] * k) + "]"}, "bind": {"index": i}}
                         for k in (1, 2) for i in range(0, k)])],
   split_is_domain=True, modifies=["param:self"], properties=["C13", "C11"], battery="bar_setitem",
   notes="domain: bars of 0..3 entries, any index (negative ones count from the end, out of range raises IndexError)")

# construction and the read accessors
CLASSES["BlankBar"] = {"class": "mingus.containers.bar.Bar", "fields": {}}
CLASSES["Key"] = {"class": "mingus.core.keys.Key", "fields": {}}
_c("__init__",
   params={"self": "BlankBar", "key": "str", "meter": "(int,int)"}, returns="None",
   requires="len(key) >= 1",
   ensures=[("key-object-of-that-key", "self.key.key == key"),
            ("meter-stored", "self.meter == (meter[0], meter[1])"),
            ("length-is-count-over-unit", "(meter == (0, 0) and self.length == 0) or "
                                          "(is_pow2(meter[1]) and feq(self.length, meter[0] / meter[1]))"),
            ("starts-empty-at-beat-zero", "len(self.bar) == 0 and self.current_beat == 0.0"),
            ("with-an-entry-list-of-its-own", "is_fresh(self.bar)")],
   raises={"NoteFormatError": "not is_key(key)",
           "MeterFormatError": "is_key(key) and not (is_pow2(meter[1]) or (meter[0] == 0 and meter[1] == 0))"},
   split=[{"bind": {"key": k}} for k in __import__("contracts.core_keys", fromlist=["KEYS30"]).KEYS30] +
         [{"assume": "not is_key(key)"}],
   modifies=["param:self"], battery="bar_init", properties=["C13", "C15"])
_c("__getitem__",
   params={"self": "LiftBar", "index": "int"}, returns="any", modifies=[],
   ensures=[("the-entry-itself", "same_object(result, self.bar[index])")],
   raises={"IndexError": "index >= len(self.bar) or index < -len(self.bar)"},
   split=[{"field_types": {"self.bar": "[" + ",".join(["[real,real,NoteContainer]"] * k) + "]"}, "bind": {"index": i}}
          for k in range(0, 4) for i in range(-k, k)] +
         [{"field_types": {"self.bar": "[" + ",".join(["[real,real,NoteContainer]"] * k) + "]"},
           "assume": "index >= %d or index < %d" % (k, -k)} for k in range(0, 4)],
   split_is_domain=True, inline=True, battery="bar_getitem")
