"""Contracts for mingus.core.scales (C05)."""

M = "mingus.core.scales."
CONTRACTS = {}
CLASSES = {}
INLINE = set()

KEY_TONICS_MAJOR = ['Cb', 'Gb', 'Db', 'Ab', 'Eb', 'Bb', 'F', 'C', 'G', 'D', 'A', 'E', 'B', 'F#', 'C#']
KEY_TONICS_MINOR = ['Ab', 'Eb', 'Bb', 'F', 'C', 'G', 'D', 'A', 'E', 'B', 'F#', 'C#', 'G#', 'D#', 'A#']

# defining semitone patterns, copied from the property statement / scale theory
PATTERN = {
    "Ionian": [2, 2, 1, 2, 2, 2, 1], "Dorian": [2, 1, 2, 2, 2, 1, 2], "Phrygian": [1, 2, 2, 2, 1, 2, 2],
    "Lydian": [2, 2, 2, 1, 2, 2, 1], "Mixolydian": [2, 2, 1, 2, 2, 1, 2], "Aeolian": [2, 1, 2, 2, 1, 2, 2],
    "Locrian": [1, 2, 2, 1, 2, 2, 2],
    "Major": [2, 2, 1, 2, 2, 2, 1], "HarmonicMajor": [2, 2, 1, 2, 1, 3, 1],
    "NaturalMinor": [2, 1, 2, 2, 1, 2, 2], "HarmonicMinor": [2, 1, 2, 2, 1, 3, 1],
    "MelodicMinor": [2, 1, 2, 2, 2, 2, 1], "Bachian": [2, 1, 2, 2, 2, 2, 1],
    "MinorNeapolitan": [1, 2, 2, 2, 1, 3, 1],
    "WholeTone": [2, 2, 2, 2, 2, 2], "Octatonic": [2, 1, 2, 1, 2, 1, 2, 1],
    "Chromatic": [1] * 12,
}
# callee clauses not needed for the scale obligations (assuming less is sound, and keeps the queries small)
LIGHT = ["exact-spelling", "at-most-six-accidentals", "never-mixes", "exact-shape", "canonical-kept"]
HEPTATONIC = [k for k, v in PATTERN.items() if len(v) == 7]

for _cls in list(PATTERN) + ["Diatonic", "_Scale"]:
    _f = {"tonic": "str", "octaves": "int"}
    if _cls == "Diatonic":
        _f["semitones"] = "intset"
    if _cls == "Chromatic":
        _f["key"] = "str"
    CLASSES[_cls] = {"class": M + _cls, "fields": _f}
    for _init in ("__init__",):
        INLINE.add(M + _cls + "." + _init)


def asc_contract(cls, tonic_pre, split=None):
    pat = PATTERN[cls]
    p = len(pat)
    ens = [("one-octave-repeated-n-times-then-the-tonic", "is_periodic(result, %d, self.octaves)" % p),
           ("begins-on-the-tonic", "result[0] == self.tonic"),
           ("a-list-of-its-own-every-time", "is_fresh(result)")]
    for i in range(p):
        nxt = "result[%d]" % (i + 1) if i + 1 < p else "result[0]"
        ens.append(("step%d-is-%d" % (i + 1, pat[i]), "step(result[%d], %s) == %d" % (i, nxt, pat[i])))
        if i + 1 < p:
            ens.append(("note%d-valid" % (i + 1), "is_name(result[%d])" % (i + 1)))
            if p == 7:
                ens.append(("note%d-next-letter" % (i + 1), "result[%d][0] == lup(self.tonic[0], %d)" % (i + 1, i + 1)))
    c = dict(params={"self": cls}, requires=[("tonic", tonic_pre), ("octaves", "self.octaves >= 1")],
             returns="periodic[%d, self.octaves, =self.tonic]" % p, ensures=ens, modifies=[], pure=True,
             skip_callee_clauses=LIGHT,
             properties=["C05"], battery="scale:" + cls)
    if split:
        c["split"] = split
    return c


ANY = "is_name(self.tonic)"
# Diatonic with an arbitrary set of semitone positions
CONTRACTS[M + "Diatonic.ascending"] = dict(
    params={"self": "Diatonic"},
    requires=[("tonic", ANY), ("octaves", "self.octaves >= 1")],
    returns="periodic[7, self.octaves, =self.tonic]", pure=True, modifies=[], skip_callee_clauses=LIGHT,
    ensures=[("one-octave-repeated-n-times-then-the-tonic", "is_periodic(result, 7, self.octaves)"),
             ("begins-on-the-tonic", "result[0] == self.tonic"), ("a-list-of-its-own-every-time", "is_fresh(result)")] +
            [x for i in range(1, 7) for x in (
                ("step%d" % i, "step(result[%d], result[%d]) == (1 if %d in self.semitones else 2)" % (i - 1, i, i)),
                ("note%d-valid" % i, "is_name(result[%d])" % i),
                ("note%d-next-letter" % i, "result[%d][0] == lup(self.tonic[0], %d)" % (i, i)))],
    split=[{"assume": " and ".join("(%d in self.semitones) == %s" % (i + 1, bool(m & (1 << i))) for i in range(4))}
           for m in range(16)],
    properties=["C05"], battery="scale:Diatonic")

for _cls in ("Ionian", "Dorian", "Phrygian", "Lydian", "Mixolydian", "Aeolian", "Locrian", "WholeTone", "Octatonic"):
    CONTRACTS[M + _cls + ".ascending"] = asc_contract(_cls, ANY)

for _cls, _tonics in (("Major", KEY_TONICS_MAJOR), ("HarmonicMajor", KEY_TONICS_MAJOR),
                      ("NaturalMinor", KEY_TONICS_MINOR), ("HarmonicMinor", KEY_TONICS_MINOR),
                      ("MelodicMinor", KEY_TONICS_MINOR), ("Bachian", KEY_TONICS_MINOR),
                      ("MinorNeapolitan", KEY_TONICS_MINOR)):
    CONTRACTS[M + _cls + ".ascending"] = asc_contract(
        _cls, "self.tonic in %r" % (tuple(_tonics),), split=[{"bind_fields": {"self.tonic": t}} for t in _tonics])

INLINE |= set([M + "_Scale.descending", M + "_Scale.degree", M + "_Scale.__len__"])


def desc_contract(cls, desc_pattern, tonics):
    ens = [("one-octave-repeated-n-times-then-the-tonic", "is_periodic(result, 7, self.octaves)"),
           ("begins-on-the-tonic", "result[0] == self.tonic"),
           ("a-list-of-its-own-every-time", "is_fresh(result)")]
    for i in range(7):
        nxt = "result[%d]" % (i + 1) if i + 1 < 7 else "result[0]"
        ens.append(("step%d-down-%d" % (i + 1, desc_pattern[i]), "step(%s, result[%d]) == %d" % (nxt, i, desc_pattern[i])))
        if i + 1 < 7:
            ens.append(("note%d-valid" % (i + 1), "is_name(result[%d])" % (i + 1)))
            ens.append(("note%d-previous-letter" % (i + 1), "result[%d][0] == lup(self.tonic[0], %d)" % (i + 1, -(i + 1))))
    return dict(params={"self": cls}, requires=[("tonic", "self.tonic in %r" % (tuple(tonics),)),
                                                ("octaves", "self.octaves >= 1")],
                returns="periodic[7, self.octaves, =self.tonic]", ensures=ens, modifies=[], pure=True,
                skip_callee_clauses=LIGHT, split=[{"bind_fields": {"self.tonic": t}} for t in tonics],
                properties=["C05"], battery="scale:" + cls)


# melodic minor descends as natural minor; minor Neapolitan as natural minor with the lowered second
CONTRACTS[M + "MelodicMinor.descending"] = desc_contract("MelodicMinor", [2, 2, 1, 2, 2, 1, 2], KEY_TONICS_MINOR)
CONTRACTS[M + "MinorNeapolitan.descending"] = desc_contract("MinorNeapolitan", [2, 2, 1, 2, 2, 2, 1], KEY_TONICS_MINOR)

from contracts.core_keys import KEYS30  # noqa: E402
from contracts.specfuns import key_notes  # noqa: E402

_CHROM_SPLIT = [{"bind_fields": {"self.key": k, "self.tonic": key_notes(k)[0]}} for k in KEYS30]
CONTRACTS[M + "Chromatic.ascending"] = dict(
    params={"self": "Chromatic"}, requires=[("key", "is_key(self.key)"), ("octaves", "self.octaves >= 1")],
    returns="periodic[12, self.octaves, =self.tonic]", pure=True, modifies=[], skip_callee_clauses=LIGHT,
    ensures=[("twelve-notes-repeated-n-times-then-the-tonic", "is_periodic(result, 12, self.octaves)"),
             ("begins-on-the-tonic", "result[0] == self.tonic"), ("a-list-of-its-own-every-time", "is_fresh(result)")] +
            [("step%d-is-1" % (i + 1), "step(result[%d], result[%d]) == 1" % (i, (i + 1) % 12)) for i in range(12)] +
            [("note%d-valid" % i, "is_name(result[%d])" % i) for i in range(1, 12)],
    split=_CHROM_SPLIT, split_is_domain=True, properties=["C05"], battery="scale:Chromatic")
CONTRACTS[M + "Chromatic.descending"] = dict(
    params={"self": "Chromatic"}, requires=[("key", "is_key(self.key)"), ("octaves", "self.octaves >= 1")],
    returns="periodic[12, self.octaves, =self.tonic]", pure=True, modifies=[], skip_callee_clauses=LIGHT,
    ensures=[("twelve-notes-repeated-n-times-then-the-tonic", "is_periodic(result, 12, self.octaves)"),
             ("begins-on-the-tonic", "result[0] == self.tonic"), ("a-list-of-its-own-every-time", "is_fresh(result)")] +
            [("step%d-down-1" % (i + 1), "step(result[%d], result[%d]) == 1" % ((i + 1) % 12, i)) for i in range(12)] +
            [("note%d-valid" % i, "is_name(result[%d])" % i) for i in range(1, 12)],
    notes="known finding C05/chromatic-descending-spelling: the descent is spelled in flats, so it is the reverse "
          "PITCH sequence of the ascent but not the reverse list; every other class is held to list equality",
    split=_CHROM_SPLIT, split_is_domain=True, properties=["C05"], battery="scale:Chromatic")


# scale recognition: a double loop over 15 key pairs x _Scale.__subclasses__() with set inclusion -- outside the VC
# generator's reach (reflection, sets of strings) -> bounded stand-in against an independent brute-force specification
CONTRACTS[M + "determine"] = dict(
    params={"notes": "list[any]"},
    requires="all([is_str(n) and len(n) >= 1 for n in notes])",
    returns="list[any]",
    ensures=[("exactly-the-containing-scales", "sorted_list(result) == scale_determine_spec(notes)")],
    bounded_only="reflection over _Scale.__subclasses__() and set inclusion of strings; run-time contract over "
                 "battery 'note_sets'",
    properties=["C05"], battery="note_sets")


# equality and inequality of scales follow BOTH note lists (melodic minor and Bachian ascend alike and differ descending).
# ascending()/descending() are whatever the two objects' classes compute: opaque functions of the receiver here; what each
# class computes is the subject of the contracts above.
CLASSES["AnyScale"] = {"class": "mingus.core.scales._Scale", "fields": {"tonic": "str", "octaves": "int"}}
_BOTH = "(self.ascending() == other.ascending() and self.descending() == other.descending())"
for _nm, _neg in (("__eq__", ""), ("__ne__", "not ")):
    CONTRACTS[M + "_Scale." + _nm] = dict(
        params={"self": "AnyScale", "other": "AnyScale"}, returns="bool",
        ensures=[("follows-both-note-lists", "result == (%s%s)" % (_neg, _BOTH))],
        abstract_callees=[M + "_Scale.ascending", M + "_Scale.descending"], modifies=[],
        inline_callees=[M + "_Scale.__eq__"] if _nm == "__ne__" else [],
        properties=["C05"], battery="scale_pairs")
