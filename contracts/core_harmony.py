"""Contracts for the diatonic-harmony functions of mingus.core.chords and mingus.core.progressions (C08)."""

C = "mingus.core.chords."
P = "mingus.core.progressions."
CONTRACTS = {}

from contracts.core_keys import KEYS30  # noqa: E402

_KEYSPLIT = [{"bind": {"key": k}} for k in KEYS30]
_IDX = "(lidx(note[0]) - lidx(key_notes(key)[0][0]))"

CONTRACTS[C + "triad"] = dict(
    params={"note": "str", "key": "str"}, requires="is_key(key) and len(note) >= 1", returns="[=note,str,str]",
    ensures=[("root-third-fifth-inside-the-key",
              "result[0] == note and result[1] == key_notes(key)[(%s + 2) %% 7] and result[2] == key_notes(key)[(%s + 4) %% 7]"
              % (_IDX, _IDX)),
             ("fresh-list", "is_fresh(result)")],
    raises={"KeyError": "not is_name(note)"}, modifies=[], split=_KEYSPLIT,
    properties=["C08"], battery="note_key")
CONTRACTS[C + "seventh"] = dict(
    params={"note": "str", "key": "str"}, requires="is_key(key) and len(note) >= 1", returns="[=note,str,str,str]",
    ensures=[("root-third-fifth-seventh-inside-the-key",
              "result[0] == note and result[1] == key_notes(key)[(%s + 2) %% 7] and result[2] == key_notes(key)[(%s + 4) %% 7] "
              "and result[3] == key_notes(key)[(%s + 6) %% 7]" % (_IDX, _IDX, _IDX)),
             ("fresh-list", "is_fresh(result)")],
    raises={"KeyError": "not is_name(note)"}, modifies=[], split=_KEYSPLIT,
    properties=["C08"], battery="note_key")

# memo tables: complete hit / miss case split under the invariant "every entry equals the spec value"
for _nm, _spec, _cache in (("triads", "diatonic_triads", "_triads_cache"), ("sevenths", "diatonic_sevenths", "_sevenths_cache")):
    _mod = "mingus.core.chords." + _cache
    CONTRACTS[C + _nm] = dict(
        params={"key": "str"}, returns="list[any]", result_is="%s(key)" % _spec,
        ensures=[("fresh-rows-not-the-memo-table", "is_fresh(result)"),
                 ("memo-table-invariant-re-established",
                  "chord_cache_ok(module_value('mingus.core.chords.%s'), %s)" % (_cache, _nm == "sevenths"))],
        raises={"NoteFormatError": "not is_key(key)"},
        modifies=["module:" + _mod, "module:mingus.core.keys._key_cache"],
        split=[{"bind": {"key": k}, "module_state": {_mod: "{}"}} for k in KEYS30] +
              [{"bind": {"key": k}, "module_state": {_mod: "{%r: %s(%r)}" % (k, _spec, k)}} for k in KEYS30] +
              [{"assume": "not is_key(key)", "module_state": {_mod: "{}"}}],
        properties=["C08", "C15"], battery="key_strings")

_FUNCS = ["tonic", "supertonic", "mediant", "subdominant", "dominant", "submediant", "subtonic"]
_ALIASES = {"I": 0, "ii": 1, "II": 1, "iii": 2, "III": 2, "IV": 3, "V": 4, "vi": 5, "VI": 5, "vii": 6, "VII": 6}
for _i, _f in enumerate(_FUNCS):
    for _suffix, _spec in (("", "diatonic_triads"), ("7", "diatonic_sevenths")):
        CONTRACTS[C + _f + _suffix] = dict(
            params={"key": "str"}, requires="is_key(key)", returns="list[any]", result_is="%s(key)[%d]" % (_spec, _i),
            ensures=[("fresh-list", "is_fresh(result)")],
            modifies=["module:mingus.core.chords._triads_cache", "module:mingus.core.chords._sevenths_cache",
                      "module:mingus.core.keys._key_cache"],
            split=_KEYSPLIT, properties=["C08"], battery="keys30")
for _a, _i in _ALIASES.items():
    for _suffix, _spec in (("", "diatonic_triads"), ("7", "diatonic_sevenths")):
        CONTRACTS[C + _a + _suffix] = dict(
            params={"key": "str"}, requires="is_key(key)", returns="list[any]", result_is="%s(key)[%d]" % (_spec, _i),
            ensures=[("fresh-list", "is_fresh(result)")],
            modifies=["module:mingus.core.chords._triads_cache", "module:mingus.core.chords._sevenths_cache",
                      "module:mingus.core.keys._key_cache"],
            split=_KEYSPLIT, properties=["C08"], battery="keys30")

# ---------------------------------------------------------------- progressions: numeral arithmetic
_NUMS = ["I", "II", "III", "IV", "V", "VI", "VII"]
CONTRACTS[P + "skip"] = dict(
    params={"roman_numeral": "str", "skip_count": "int"}, requires="numeral_index(roman_numeral) >= 0", returns="str",
    ensures=[("numeral-that-many-places-further",
              "numeral_index(result) == (numeral_index(roman_numeral) + skip_count) % 7")],
    modifies=[], split=[{"bind": {"roman_numeral": n}} for n in _NUMS], properties=["C08"], battery="numeral_int")
CONTRACTS[P + "interval_diff"] = dict(
    params={"progression1": "str", "progression2": "str", "interval": "int"},
    requires="numeral_index(progression1) >= 0 and numeral_index(progression2) >= 0", returns="int",
    ensures=[("half-steps-needed-to-make-the-interval",
              "result == interval - (numeral_semis(numeral_index(progression2)) - "
              "numeral_semis(numeral_index(progression1))) % 12")],
    loops={1: dict(inv=[("sum-kept", "j - acc == j0")], ghost={"j0": "j"}, decreases="j - i - interval"),
           2: dict(inv=[("sum-kept", "j - acc == j0"), ("not-past-the-target", "j - i <= interval")],
                   decreases="interval - (j - i)")},
    modifies=[], split=[{"bind": {"progression1": a, "progression2": b}} for a in _NUMS for b in _NUMS],
    properties=["C08"], battery="numeral_pairs_int")

# numeral formatting: prefix of |a| accidentals, then the numeral, then the suffix; an octave of flats folds to sharps
_A = "(prog_tuple[1] if prog_tuple[1] >= -6 else prog_tuple[1] + 12)"
CONTRACTS[P + "tuple_to_string"] = dict(
    params={"prog_tuple": "(str,int,str)"},
    requires="-12 <= prog_tuple[1] and prog_tuple[1] <= 6",
    returns="str", modifies=[],
    ensures=[("length", "len(result) == abs(%s) + len(prog_tuple[0]) + len(prog_tuple[2])" % _A),
             ("accidental-prefix", "all([result[i] == ('#' if %s > 0 else 'b') for i in range(abs(%s))])" % (_A, _A)),
             ("then-the-numeral", "result[abs(%s):abs(%s) + len(prog_tuple[0])] == prog_tuple[0]" % (_A, _A)),
             ("then-the-suffix", "result[abs(%s) + len(prog_tuple[0]):] == prog_tuple[2]" % _A)],
    loops={1: dict(ghost={"R0": "roman", "A0": "acc"},
                   inv=[("flats-so-far", "all([roman[i] == 'b' for i in range(acc - A0)])"),
                        ("rest-is-the-numeral", "roman[acc - A0:] == R0"),
                        ("length", "len(roman) == len(R0) + (acc - A0)"), ("counter", "A0 <= acc and (A0 < 0 or acc == A0) and (A0 >= 0 or acc <= 0)")],
                   decreases="-acc"),
           2: dict(ghost={"R1": "roman", "A1": "acc"},
                   inv=[("sharps-so-far", "all([roman[i] == '#' for i in range(A1 - acc)])"),
                        ("rest-is-what-it-was", "roman[A1 - acc:] == R1"),
                        ("length", "len(roman) == len(R1) + (A1 - acc)"), ("counter", "acc <= A1 and (A1 > 0 or acc == A1) and (A1 <= 0 or acc >= 0)")],
                   decreases="acc")},
    notes="domain: the accidental counts the substitution rules can produce from prefixes -3..+3 at depth <= 2 stay "
          "within -12..6; beyond +6 the folding of the pinned code is itself wrong (outside the property's quantifier)",
    properties=["C08"], battery="numeral_tuples")

# numeral parsing: the longest prefix of accidentals and numeral letters is consumed; the accidentals count signed, the
# letters are kept upper-cased and in order, and the rest of the text is the chord suffix
_SET = "'#bIiVv'"
_P = "(len(progression) - len(result[2]))"
CONTRACTS[P + "parse_string"] = dict(
    params={"progression": "str"}, returns="(str,int,str)", modifies=[],
    ensures=[("suffix-is-the-rest-of-the-text", "result[2] == progression[%s:]" % _P),
             ("prefix-is-accidentals-and-numeral-letters", "all([progression[j] in %s for j in range(%s)])" % (_SET, _P)),
             ("prefix-is-maximal", "%s == len(progression) or progression[%s] not in %s" % (_P, _P, _SET)),
             ("accidentals-counted-signed", "result[1] == cnt_sharp(progression, 0, %s) - cnt_flat(progression, 0, %s)" % (_P, _P)),
             ("one-numeral-letter-per-non-accidental", "len(result[0]) == %s - cnt_sharp(progression, 0, %s) - cnt_flat(progression, 0, %s)"
              % (_P, _P, _P)),
             ("numeral-in-capitals", "all([result[0][j] in 'IV' for j in range(len(result[0]))])")],
    loops={1: dict(index="k",
                   inv=[("position", "i == k"),
                        ("consumed-are-in-the-set", "all([progression[j] in %s for j in range(k)])" % _SET),
                        ("accidentals", "acc == cnt_sharp(progression, 0, k) - cnt_flat(progression, 0, k)"),
                        ("letters", "len(roman_numeral) == k - cnt_sharp(progression, 0, k) - cnt_flat(progression, 0, k)"),
                        ("capitals", "all([roman_numeral[j] in 'IV' for j in range(len(roman_numeral))])")])},
    properties=["C08"], battery="numeral_strings")
