"""Per-property metadata used by ./check (evidence) and gen_manifest.py (MANIFEST.json)."""

TB = ("Trusted: z3/cvc5; the pyvc VC generator and its models of Python built-ins (listed per run in the evidence, "
      "cross-checked against CPython by the run-time layer); CPython's import of module-level tables; ghost-counter "
      "lemmas are proved by induction in every run. Bounded stand-ins are never counted as obligations.")

META = {
    "C01": dict(
        claimed=True, level="proof",
        technique="contract-based deductive verification (own VC generator over the real ASTs + z3/cvc5)",
        level_text="Every clause of C01 is a postcondition / raises-iff clause on the 8 real functions of "
                   "mingus/core/notes.py, discharged for ALL strings and ALL integers: loops over the accidental string "
                   "are cut by inductive invariants over ghost counters (sharps/flats/other), no length bound. "
                   "The round trip int->name->int and augment-then-diminish are lemmas proved from the contracts alone.",
        level_note=TB,
        explanation="All clauses proved unbounded; the run-time battery (names with <= 6 accidentals in all orderings, "
                    "malformed strings) only cross-checks the contracts against CPython.",
    ),
    "C02": dict(
        claimed=True, level="proof",
        technique="contract-based deductive verification (own VC generator over the real ASTs + z3/cvc5)",
        level_text="The 14 non-unison constructors, the 3 unison constructors, measure and the 4 consonance predicates "
                   "carry postconditions copied from the property (letter = lup(letter, d); pitch class + s mod 12; valid, "
                   "unmixed, <= 6 accidentals) and are discharged for EVERY valid name, whatever its accidental string: "
                   "the helper that augments/diminishes until the interval is right is proved against its strongest "
                   "postcondition (exact accidental count fold6(t - c0)) with four loop invariants and variants "
                   "(termination included). Callers are checked against callee contracts only.",
        level_note=TB + " Known finding C02/unison-exotic-input: for the three unison constructors the clause 'never mixes, "
                        "at most six accidentals' is proved only for inputs that are themselves unmixed with |net| within range; "
                        "the witness is replayed on every run.",
        explanation="All clauses proved unbounded except the unison 'never mixes / <= 6' clause on exotic inputs (known finding).",
    ),
    "C04": dict(
        claimed=True, level="proof",
        technique="contract-based deductive verification; finite key domain decided by complete case split through the same VC generator",
        level_text="Key lookups (is_valid_key, get_key_signature, get_key_signature_accidentals, get_notes, relative_major/minor, "
                   "Key()) are proved for ALL strings: one obligation set per supported key (30, parameter bound to the literal) plus "
                   "one symbolic reject case 'any other string' -> the note-format error; get_key for all integers. Results are tied "
                   "to spec functions computed from the circle of fifths and the step patterns, not from the code's table. The "
                   "relational clauses (signature = accidentals of the note list, inverses, relatives share a note set, minor tonic "
                   "9 above) are lemmas proved over those contracts; diatonic second..seventh for every key and every spelling of "
                   "the start note (only its first letter is symbolic-split by the solver).",
        level_note=TB + " The memo table _key_cache is handled by a complete hit/miss case split under its invariant (entries equal "
                        "the spec value; only supported keys occur); aliasing of returned rows is C15's subject, not C04's.",
        explanation="All clauses proved; finite domain (30 keys, 15 signature numbers) enumerated completely as separate obligations.",
    ),
    "C03": dict(
        claimed=True, level="proof",
        technique="contract-based deductive verification (own VC generator over the real ASTs + z3/cvc5); round trips as lemmas over the contracts",
        level_text="intervals.determine: for ALL pairs of valid names (any accidentals) whose letter-counted ascending distance is "
                   "0..11, the long form is exactly quality(offset)+' '+number(letters) and the short form is offset sharps / flats "
                   "followed by the degree digit. intervals.from_shorthand: for ALL names and ALL shorthands with an accidental "
                   "prefix of ANY length (loop invariant over the prefix), up and down: right letter, exact accidental count, "
                   "pitch class +-(major size + sharps - flats); False for a bad name or degree. invert: for lists of ANY "
                   "length, result reversed, argument restored, result fresh. 'name then apply reproduces the second note' and "
                   "'up then down returns the start' are lemmas proved from those contracts for names up to double accidentals.",
        level_note=TB + " String identity in the two round-trip lemmas is stated as shape(result, letter, net): a letter followed by "
                        "|net| equal accidentals, which determines the string.",
        explanation="All clauses proved; the former deviation (augmented unison shorthand) was repaired in /repo (fix: bf73356).",
    ),
    "C06": dict(
        claimed=True, level="proof",
        technique="contract-based deductive verification of the 35 builders and of the shorthand table (all roots); the string parser is a bounded run-time contract",
        level_text="Each of the 35 chord builder functions is proved, for EVERY root (any accidental string), to return the root "
                   "followed by notes on exactly the letters and semitone distances of its formula (with the exact accidental "
                   "count, so dim7's double flat is pinned), modularly over the interval-constructor contracts of C02. For every "
                   "one of the 55 shorthand keys the table entry is proved to build the spec's own formula on every root; the two "
                   "tables are proved to have equal key sets; keys with the same documented meaning are proved to build chords "
                   "with the same letters and pitch classes. The parser chords.from_shorthand (aliases, slash, polychord, NC, "
                   "lists, error classes) is NOT proved: it is checked at run time against an independent grammar reading over a "
                   "systematic enumeration (bounded stand-in, listed under coverage.bounded, not counted in obligations).",
        level_note=TB + " Assumed (bounded only): the contract of chords.from_shorthand.",
        explanation="Builders and tables: proved for all roots. Parser: bounded stand-in (8.9k strings, exhaustive over root x "
                    "shorthand x alias x bass x polychord partner classes as stated in the battery rule).",
    ),
    "C05": dict(
        claimed=True, level="proof",
        technique="contract-based deductive verification (symbolic tonic and symbolic octave count; periodic-list values); recognition as bounded run-time contract",
        level_text="ascending() of the seven modes, Diatonic (with an ARBITRARY set of semitone positions), WholeTone and Octatonic is "
                   "proved for EVERY tonic name and EVERY octave count n >= 1: the result is one octave repeated n times plus the "
                   "tonic, consecutive letters, and exactly the defining step pattern. The key-table scales (major, harmonic major, "
                   "natural/harmonic/melodic minor, Bachian, minor Neapolitan) and Chromatic are proved for each of their 15 (30) "
                   "tonics with symbolic n; melodic minor and minor Neapolitan descents against their own patterns. 'descending is "
                   "the exact reverse list', 'degree k agrees with both lists' and 'len follows the list' are lemmas proved per class "
                   "from those contracts. Equality and inequality of two scale objects of ANY classes follow both note lists "
                   "(ascending()/descending() as opaque functions of the receiver). scales.determine is NOT proved (reflection + string sets): bounded stand-in against a "
                   "brute-force specification.",
        level_note=TB + " Known finding C05/chromatic-descending-spelling (literal reverse-list clause for Chromatic only). "
                        "Assumed (bounded only): the contract of scales.determine. str.islower is modelled partially (False "
                        "when the first character is an ASCII capital).",
        explanation="Class clauses proved (unbounded in tonic spelling and octave count); recognition bounded (2.4k note sets "
                    "incl. every scale's own set, its one-note-removed subsets and supersets).",
    ),
    "C09": dict(
        claimed=True, level="proof",
        technique="contract-based deductive verification (ints unbounded; floats as mathematical reals, tagged); termination by loop variant",
        level_text="meter: valid_beat_duration is proved equal to 'is one of 1,2,4,8,...' for ALL integers and, as reals, all floats, "
                   "INCLUDING TERMINATION (loop variant |r| with the invariant that r is integral after the first halving); "
                   "is_valid/is_simple/is_compound/is_asymmetrical are proved equal to the stated predicates. value: the tuplet "
                   "helpers equal the ratio formula, dots(v, n) for n = 0..4, add/subtract are sum/difference of durations, and "
                   "subtract(add(a,b),b) == a is a lemma over the two contracts - all in real arithmetic. determine: every value "
                   "within 1% of an undotted or single-dotted base value is analysed as that value (all reals in the 20 ranges); "
                   "the 80 constructed values (10 bases x dots 0..4, triplet, quintuplet, septuplet) are each evaluated through "
                   "the engine on the real bodies with CPython float arithmetic (complete finite split).",
        level_note=TB + " float-as-real: IEEE rounding is NOT modelled in the symbolic obligations (tagged in the evidence); the "
                        "run-time battery re-checks the same contracts with real floats (inf, nan, 2^2000 included).",
        explanation="All clauses proved under float-as-real; two former deviations repaired in /repo (6eeb4d9, 58f369d).",
        assumptions=["float-as-real: symbolic float obligations are discharged over the reals; rounding is covered only by "
                     "the concrete vocabulary cases and the run-time battery"],
    ),
    "C10": dict(
        claimed=True, level="other",
        technique="contract-based deductive verification of the integer/ordering core of Note; text, Helmholtz and Hz forms by bounded run-time contracts",
        level_text="Proved for every name (any accidental string) and every octave: int(note) == 12*octave + letter + sharps - flats "
                   "(loop invariant); all six comparison operators agree with comparing those integers; measure; from_int for every "
                   "integer >= 0 (pitch equals the integer, sharp-style name); set_velocity/set_channel reject exactly the values "
                   "outside 0..127 / 0..15; set_note / Note(name, octave) for names without an octave suffix store name and octave "
                   "and reject every malformed name with the note-format error. NOT proved (bounded stand-in, real code under "
                   "CPython): the 'Name-octave' text form, the printed form, the copy constructor, Helmholtz shorthand both ways "
                   "(names with <= 2 accidentals x octaves 0..9, exhaustive) and Hz conversion (notes 0..127 x standard pitches x "
                   "detuning, IEEE doubles and math.log are outside the verifier).",
        level_note=TB + " The claim is split: see coverage.explanation; bounded parts are under coverage.bounded_driver.",
        explanation="Deductive: Note.__int__, __lt__/__eq__/__ne__/__gt__/__le__/__ge__, measure, from_int, set_channel, set_velocity, "
                    "set_note, __init__ (no-dash names) and remove_redundant_accidentals. Bounded: text forms, copy, Helmholtz round trip, Hz round trip "
                    "(12.8k cases, quick tier). Former deviation repaired in /repo: e51ef4c (Helmholtz flats).",
    ),
    "C16": dict(
        claimed=True, level="other",
        technique="contract-based deductive verification of the byte-level encoders and chunk framing; whole-file semantics by an independent SMF decoder (bounded)",
        level_text="Proved for all inputs in the stated ranges, bytes modelled exactly: the variable-length encoder equals the "
                   "standard encoding for EVERY integer 0..2^28-1 (math.log enters only through an assumed, run-time validated "
                   "contract); every channel event is pending-delta + status(channel | type<<4) + data bytes and asserts exactly on "
                   "out-of-range fields; set_deltatime; tempo event = FF 51 03 + big-endian 60000000 div bpm for every bpm >= 4; "
                   "time-signature and key-signature events (all 30 keys, two's-complement count, mode flag); track chunk = MTrk + "
                   "big-endian length == content + end-of-track; set_meter/set_key/set_tempo, play_/stop_Note and play_/stop_"
                   "NoteContainer (0..4 notes) append exactly their events, byte for byte, leaving earlier data untouched; "
                   "play_Bar (bars of 0..3 entries: rests, containers, containers with a tempo; ANY positive values, ticks = "
                   "round-half-even(288/value) on reals) and play_Track (0..2 bars) call exactly those leaves with exactly those "
                   "arguments in exactly that order and leave exactly the trailing rests pending (event view: each leaf call's "
                   "precondition is an obligation, its effect one ghost event); the file header declares format 1, 72 ticks and "
                   "exactly the number of tracks that have data (0..4 tracks), and the file is the header followed by those "
                   "tracks' chunks in order (0..3 tracks). The writers with repeat counts, MIDI instruments (program change "
                   "branch) and 'decodes to exactly the music written' are NOT proved: independent SMF decoder over systematic "
                   "and seeded compositions (bounded driver).",
        level_note=TB + " Assumed: A_log (floor(math.log(x, b)) exact for 1 <= x < 2^28, b in {2,128}), validated by battery "
                        "log_domain on every run; binascii/struct are modelled built-ins.",
        explanation="Deductive: int_to_varbyte, midi_event (both arities), note_on/off, controller_event, program_change_event, "
                    "set_deltatime, set_tempo_event, time_signature_event, key_signature_event, end_of_track, header, "
                    "get_midi_data, set_meter, set_key, set_tempo, play_/stop_Note, play_/stop_NoteContainer, play_Bar, "
                    "play_Track, track_name_event / set_track_name (any ASCII name, length as a VLQ, non-ASCII refused), "
                    "MidiTrack.__init__ / reset, set_tempo_event refusing tempi that do not fit three bytes, MidiFile.header, "
                    "MidiFile.get_midi_data, MidiFile.__init__ (stores the given track list, resets none of them) and MidiFile.reset "
                    "(every track emptied; files of 0..4 tracks). Bounded: whole files via bounded/drivers/C16.py. "
                    "Repaired in /repo while writing these contracts: 8a5bd09 (header counted tracks without data).",
    ),
    "C17": dict(
        claimed=True, level="other",
        technique="contract-based deductive verification of the variable-length reader and header parsing; write-then-read round trip by bounded driver",
        level_text="Proved: the variable-length reader returns the value of the 7-bit groups and advances file position and byte "
                   "counter by exactly the quantity's length for every well-formed 1..4-byte quantity (ghost file model), which "
                   "together with C16's encoder contract gives decode(encode(n)) == n for all 0 <= n < 2^28; the track-header "
                   "parser returns the big-endian chunk size and raises the header error exactly when the tag is not MTrk; the "
                   "file-header parser returns (format, track count, ticks per beat), consumes 14 bytes, returns False for a "
                   "header chunk shorter than 6 and raises (IOError) exactly when the tag is not MThd, the format number exceeds "
                   "2 or the time division is frames-per-second; one event of every kind (meta with a 1..4-byte length, one- "
                   "and two-parameter channel events, note-on with velocity 0 read as note-off) is decoded field by field and "
                   "the byte count it reports is exactly what it consumed; a track chunk of 0, 1 or 2 two-parameter events with "
                   "one-byte delta times is read as exactly that many (delta, event) pairs, in order, consuming exactly the "
                   "chunk; "
                   "60000000 div (60000000 div bpm) == bpm for every bpm 4..1000 (complete split). The event-stream-to-bars "
                   "reader (MIDI_to_Composition) is NOT proved: write-then-read over systematic and seeded compositions (bounded).",
        level_note=TB + " Assumed (bounded only): bytes_to_int == big-endian value (binascii.b2a_hex + int(.,16)), A_log.",
        explanation="Deductive: parse_varbyte_as_int, parse_track_header, parse_midi_file_header, parse_time_division, "
                    "parse_midi_event, parse_track (small chunks), tempo round trip lemma, VLQ inverse through the two "
                    "contracts. Bounded: MIDI_to_Composition round trip via bounded/drivers/C17.py.",
    ),
    "C11": dict(
        claimed=True, level="other",
        technique="contract-based deductive verification of Note.transpose, the octave operations and their lifting to containers, bars and tracks of small shapes; long histories by bounded driver",
        level_text="Proved: Note.transpose for every unmixed name with up to FOUR accidentals (the statement asks for two), every "
                   "octave, every shorthand with up to two accidentals whose size is 0..11, up and down: pitch number moves by "
                   "exactly the size, the letter is the one the interval number requires, the accidental count is exact, and the "
                   "octave is adjusted; up-then-down restores name and octave (lemma, executed through the real transpose body); "
                   "change_octave/octave_up/octave_down never go below 0; Note.augment/diminish move the pitch by one and keep the "
                   "letter. Lifting: NoteContainer.transpose/augment/diminish (0..3 distinct notes) keep the same note objects in "
                   "order and move EVERY note by exactly the amount (through the note contracts); Bar.transpose/augment/"
                   "diminish (bars of 0..3 entries) call the container operation on the container of every sounding entry, "
                   "exactly once, in order, with the same arguments, and nothing for rests; Track.transpose/augment/diminish "
                   "(0..2 bars) do the same for every bar and return the track (event views). NOT proved: tracks built by "
                   "from_chords that share one container between two entries (known finding), longer bars and tracks - "
                   "bounded driver.",
        level_note=TB + " Object parameters are assumed distinct objects.",
        explanation="Deductive: Note.transpose, change_octave, octave_up, octave_down, augment, diminish, lemma c11_up_then_down; "
                    "NoteContainer / Bar / Track transpose, augment, diminish. Bounded: bounded/drivers/C11.py.",
    ),
    "C18": dict(
        claimed=True, level="other",
        technique="contract-based deductive verification with a ghost event trace for the per-call clauses; playback of bars/tracks by bounded driver",
        level_text="Proved (hooks and listener delivery modelled as one ghost-trace record each): control_change refuses exactly "
                   "numbers/values below 0 or above 128 and then emits NOTHING, otherwise exactly one cc event and one "
                   "notification; modulation/main_volume/pan; set_instrument; play_Note / stop_Note emit exactly one play / stop "
                   "event with pitch+12 and the note's own channel and velocity followed by the INT and NOTE notifications; "
                   "SequencerObserver.notify calls exactly the callback of each of the 14 message types with the parameters sent "
                   "and ignores unknown types; attach twice / detach and 'every listener, in order, same message' on the real "
                   "attach/detach/notify_listeners bodies (lemma); play_/stop_NoteContainer (rest, 0..3 notes) emit the container "
                   "notification and then every note's events in order; play_Bar (bars of 0..3 entries: rest / container / "
                   "container with a tempo; ANY positive values and tempi, float-as-real) announces the bar, then per entry "
                   "plays the content at velocity 100, sleeps 60/bpm * 4/value seconds at the tempo in force after the entry's "
                   "own tempo change, reports the sleep and stops the content, and returns the final tempo; play_Track (0..2 "
                   "bars of 0..2 entries) plays every bar in order, each at the tempo the bar before ended with (event view over "
                   "the proved players). NOT proved: play_Bars/Tracks/Composition (the parallel scheduler on floats; see the "
                   "known findings) - bounded driver.",
        level_note=TB + " Ghost trace: the five subclass hooks, notify_listeners (in the per-call contracts) and the observer "
                        "callbacks are abstract and modelled as appending one record.",
        explanation="Deductive: control_change, modulation, main_volume, pan, set_instrument, play_Note, stop_Note, "
                    "play_/stop_NoteContainer, play_Bar, play_Track, Track.add_notes, SequencerObserver.notify, "
                    "Sequencer.__init__ (own listener list) / attach / detach, lemma "
                    "c18_every_listener_in_order. Bounded: bounded/drivers/C18.py.",
    ),
    "C19": dict(
        claimed=True, level="other",
        technique="contract-based deductive verification of the note-level LilyPond encoder (quantified loop invariants); everything above it by independent decoders (bounded)",
        level_text="Proved for EVERY valid name (any accidentals) and EVERY octave, with three quantified loop invariants and "
                   "variants (termination): lilypond.from_Note yields the lower-case letter, then 'is' per sharp / 'es' per flat "
                   "in order, then one ' per octave above 3 or one , per octave below 3 (none when octaves are not processed), "
                   "wrapped in braces iff standalone; from_NoteContainer without a duration is 'r' for a rest or an empty "
                   "container, the note for one note, and '<' + the notes in order separated by one space + '>' for 2 or 3 "
                   "notes, in braces iff standalone. NOT proved: durations, from_Bar/Track/Composition and all of MusicXML "
                   "(value analysis, tuplet state machine, xml.dom.minidom object graphs) - independent LilyPond-subset and XML "
                   "readers over systematic and seeded containers (bounded driver).",
        level_note=TB,
        explanation="Deductive: lilypond.from_Note, from_NoteContainer (no duration). Bounded: bounded/drivers/C19.py.",
    ),
    "C20": dict(
        claimed=True, level="other",
        technique="contract-based deductive verification of the fret arithmetic; fingering search and tablature by brute-force specification and an independent tab reader (bounded)",
        level_text="Proved, for ARBITRARY open-string notes, note and maxfret, on every tuning shape with 1..3 strings and every "
                   "shape occurring among the 76 registered tunings (3..6 strings, courses of 2 or 3): find_frets reports the "
                   "semitone distance from the open string when it lies in 0..maxfret and None otherwise, one entry per string; "
                   "get_Note returns the open string raised by fret semitones and records string and fret, and raises the range "
                   "error exactly for out-of-range strings or frets; count_strings. NOT proved: find_fingering, "
                   "find_chord_fingering, registry lookup and all ASCII tablature (recursive search, string layout) - bounded driver.",
        level_note=TB,
        explanation="Deductive: StringTuning.find_frets, get_Note, count_strings. Bounded: bounded/drivers/C20.py.",
    ),
    "C07": dict(
        claimed=True, level="other",
        technique="bounded run-time contracts against an independent chord model (exhaustive over the statement's finite domain); deductive only for the trivial answers, rotations and inversion ordinals",
        level_text="The recognisers (five mutually nested recursive closures dispatching on concatenated interval-name strings) are "
                   "outside the VC generator; the statement's own quantifier is finite, so the deciding check is the driver: every "
                   "shorthand x every root with <= 1 accidental (double accidentals sampled) x every rotation x both forms, all "
                   "21^3 three-note inputs, sampled 4-7 note inputs, against an independent chord table and name parser. PROVED "
                   "pieces: determine() on 0, 1 and 2 notes gives the documented trivial answers for all names; invert / "
                   "first..third_inversion rotate chords of 1..7 arbitrary notes, leave the argument unchanged and return a fresh "
                   "list; int_desc is total on 1..7.",
        level_note=TB + " Deductive coverage of this property is small by nature; the driver's bounds are stated in its rule.",
        explanation="Deductive: chords.determine (0/1/2 notes), invert, first/second/third_inversion, int_desc. Bounded: "
                    "bounded/drivers/C07.py (27.6k cases quick). Former deviations repaired in /repo: e942522, 6b7baeb.",
    ),
    "C08": dict(
        claimed=True, level="other",
        technique="contract-based deductive verification of the diatonic chord functions over all 30 keys (complete split incl. memo-table hit/miss); progressions and substitutions by bounded driver",
        level_text="Proved, per key (30 obligations sets each) against the spec's own key notes: triad and seventh of ANY note "
                   "spelling inside the key are root, third, fifth(, seventh) of the key's notes; triads(key)/sevenths(key) on a "
                   "cold and on a warm memo table return the seven stacks of thirds as FRESH lists and reject every other string; "
                   "the 14 function names and the 22 numeral aliases (incl. vii7) denote exactly those chords; numeral arithmetic "
                   "skip and interval_diff (with termination); the memo tables' representation invariant is re-established by "
                   "every call; parse_string consumes exactly the longest prefix of accidentals and numeral letters of ANY "
                   "string (signed count, capital letters, suffix = the rest) and tuple_to_string writes |a| accidentals, the "
                   "numeral, the suffix (quantified invariants). NOT proved: progressions.to_chords / determine / "
                   "the substitution rules (table dispatch, recursion) - bounded driver against an independent numeral model.",
        level_note=TB,
        explanation="Deductive: chords.triad, seventh, triads, sevenths, tonic..subtonic7, I..VII7, ii..vii7, progressions.skip, "
                    "interval_diff, parse_string, tuple_to_string. Bounded: bounded/drivers/C08.py (124k cases quick). Repaired in /repo: 0c96aa4, 48fa28b.",
    ),
    "C12": dict(
        claimed=True, level="other",
        technique="bounded-exhaustive histories against a set model (driver); deductive per-operation contract of add_note on small containers",
        level_text="The property is about histories of a heap list of objects; it is decided by the driver (all operation "
                   "sequences over the add/remove alphabet to a depth bound against a set model, constructors over every "
                   "shorthand). PROVED piece: NoteContainer.add_note on containers holding 0, 1 or 2 notes of ARBITRARY pitch: "
                   "a Note argument keeps the container pitch-ordered and duplicate-free, adds exactly the new pitch and keeps "
                   "every old one; a bare name goes to octave 4 in an empty container and otherwise at or above the top note, "
                   "less than an octave above it (list.sort modelled as a stable insertion sort driven by Note.__lt__); "
                   "add_notes(other container) on receivers of 0..1 and arguments of 0..2 notes: the receiver keeps its OWN "
                   "list, the argument is left as it was, the result holds exactly the pitches of both; remove_note (0..3 "
                   "notes; by name: that name in every octave, with an octave only that one; by Note: every note of that "
                   "pitch) keeps exactly the other notes, in order, as the same objects; is_consonant / "
                   "is_perfect_consonant / is_imperfect_consonant (0..4 notes) are true exactly when EVERY pair satisfies "
                   "the pairwise predicate and is_dissonant exactly when SOME pair is dissonant (its complement with the "
                   "fourths flag inverted, the reading the driver uses too); get_note_names lists every name once in order "
                   "of first occurrence.",
        level_note=TB + " The deductive piece is bounded in container size (<= 2 notes before the call), unbounded in pitches.",
        explanation="Deductive: NoteContainer.add_note (Note and bare-name forms), add_notes(container), remove_note (2 forms), the four "
                    "consonance predicates, get_note_names, remove_notes and '-' (a name, a Note, a list of two names), __init__ "
                    "(own note list), __len__, __getitem__, __eq__, __contains__ (pitch membership, 0..3 notes), from_interval_shorthand (start note object). Bounded: bounded/drivers/C12.py.",
    ),
    "C13": dict(
        claimed=True, level="other",
        technique="exact-rational model of placement histories (driver); deductive contracts for the scalar per-call clauses under float-as-real",
        level_text="PROVED (floats as reals): set_meter accepts exactly power-of-two beat units or (0,0), stores the meter, sets "
                   "length*unit == count, and raises the meter-format error otherwise; is_full is exactly 'non-empty and "
                   "current_beat >= length - 0.001 and length != 0'; current_beat + space_left == length; one place_notes call on a "
                   "bar in ANY state (entry list of unknown length): accepted exactly when total + 1/value <= length + 1e-9 or "
                   "the meter is unbounded, then exactly one entry [old total, value, content] is appended, earlier entries and "
                   "the bar length are untouched and the total advances by 1/value; otherwise False and nothing changes; "
                   "remove_last_entry on a bar in ANY state drops exactly the last entry, takes its length off the total and "
                   "raises IndexError on an empty bar; place_notes_at (bars of 0..3 sounding entries) adds the notes to exactly the "
                   "entries that start at the given beat and bar[i] = container replaces exactly that entry's content "
                   "(negative indices from the end, out of range raises IndexError), every other entry keeping its beat, "
                   "value and container object. The "
                   "history clauses (start beats are prefix sums over IEEE floats, the coded acceptance test coincides with the "
                   "exact-rational one for the value vocabulary) depend on IEEE rounding: decided by the driver against an exact "
                   "Fraction model.",
        level_note=TB + " float-as-real in the deductive part; the float-vs-rational question is bounded only.",
        explanation="Deductive: Bar.__init__ (30 keys x any meter: own entry list, refusals), set_meter, is_full, space_left, "
                    "place_notes (5 argument shapes incl. the empty list), place_rest, '+', remove_last_entry, place_notes_at, "
                    "__getitem__, __setitem__ (a container; a list of two names), empty, __len__, value_left, __eq__ (entry by entry, "
                    "bars of 0..2 entries). Bounded: bounded/drivers/C13.py.",
    ),
    "C14": dict(
        claimed=True, level="other",
        technique="bounded-exhaustive and seeded histories against a list model with exact lengths (driver); deductive contracts for one add_notes call and the range predicate",
        level_text="Decided by the driver (all value sequences to a depth bound x meters, seeded long histories, from_chords over "
                   "nested lists, compositions) against an exact-Fraction track model. PROVED pieces: one Track.add_notes call (no "
                   "instrument; rest or container; ANY value) on a track of 0, 1 or 2 bars in ANY state: an empty track gets a "
                   "default 4/4 bar in C, a full last bar (non-empty, < 0.001 left) is followed by a new bar with the same key "
                   "object and meter and is itself untouched, otherwise no bar is opened; the item goes into that bar exactly "
                   "when it fits (coded test, float-as-real) as one entry [the bar's beat, value, the item], and a refusal "
                   "changes nothing but the (known finding) opened bar; Instrument.note_in_range is exactly 'range low <= "
                   "pitch <= range high' for arbitrary range notes and note (through the proved Note comparison contracts); "
                   "can_play_notes of a container (0..4 notes, any order) is true exactly when EVERY note is inside the range; "
                   "set_range keeps given Notes, builds Notes from names and refuses anything else; Track.add_bar and "
                   "Composition.add_track append exactly the given object to a list of ANY length.",
        level_note=TB,
        explanation="Deductive: Track.add_notes (2 item kinds), add_bar, __len__, Composition.add_track / __len__ / empty / set_title / "
                    "set_author / reset / __init__ / __getitem__ / __setitem__ / '+', Track.__init__ / __getitem__ / __setitem__ / '+' / test_integrity, "
                    "Instrument.note_in_range / can_play_notes / notes_in_range / set_range, Guitar.can_play_notes, "
                    "NoteContainer.__eq__, Bar / Track / Composition __eq__ (element by element over the level below; small shapes). Bounded: bounded/drivers/C14.py (166k cases quick). Repaired in /repo: "
                    "rest with instrument, Guitar.can_play_notes, Composition.__eq__, container == rest.",
    ),
    "C15": dict(
        claimed=True, level="other",
        technique="frame and freshness obligations of the contracts (deductive) plus cold-interpreter / sibling-instance histories (driver)",
        level_text="PROVED as frame/freshness obligations: keys.get_notes, chords.triads, chords.sevenths return lists allocated "
                   "by the call (never the memo row) on both the cold and the warm table, for all 30 keys, and re-establish the "
                   "tables' representation invariant (only the 30 keys, each mapped to its spec value); a container built "
                   "from another container owns its list; intervals.invert "
                   "restores its argument for lists of any length and returns a fresh list; chords.invert and the three "
                   "inversion helpers leave their argument unchanged. Every other function under contract in C01-C20 carries a "
                   "'writes outside modifies' obligation in its own property. The history clauses (same value whatever was "
                   "called before, sibling instances, copies, fft position memory) are decided by the driver with cold "
                   "interpreter workers.",
        level_note=TB,
        explanation="Deductive: is_fresh / frame obligations on get_notes, triads, sevenths, invert, chords.invert & inversions; the "
                    "constructors of Bar, Track, Composition, NoteContainer allocate their own lists (what a pre-state object "
                    "holds never counts as fresh). "
                    "Bounded: bounded/drivers/C15.py (1.6M evaluations quick). Ten deviations repaired in /repo.",
    ),
}

_NOT_YET = "not yet brought under contract in this build step (see DESIGN.md §9 for the plan); nothing is claimed"
NOT_APPLICABLE = dict(("C%02d" % i, _NOT_YET) for i in [])
