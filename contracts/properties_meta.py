"""Per-property metadata used by ./check (evidence) and gen_manifest.py (MANIFEST.json)."""

TB = ("Trusted: z3/cvc5; the pyvc VC generator and its models of Python built-ins (listed per run in the evidence, "
      "cross-checked against CPython by the run-time layer); CPython's import of module-level tables; ghost-counter "
      "lemmas are proved by induction in every run. Bounded stand-ins are never counted as obligations.")

META = {
    "C01": dict(
        claimed=True, level="proof",
        technique="contract-based deductive verification (own VC generator over the real ASTs + z3/cvc5)",
        level_text="Every clause of C01 is a postcondition / raises-iff clause on the 8 real functions of "
                   "mingus/core/notes.py, discharged for ALL strings and ALL integers: loops over the accidental string "
                   "are cut by inductive invariants over ghost counters (sharps/flats/other), no length bound. "
                   "The round trip int->name->int and augment-then-diminish are lemmas proved from the contracts alone.",
        level_note=TB,
        explanation="All clauses proved unbounded; the run-time battery (names with <= 6 accidentals in all orderings, "
                    "malformed strings) only cross-checks the contracts against CPython.",
    ),
}

_NOT_YET = "not yet brought under contract in this build step (see DESIGN.md §9 for the plan); nothing is claimed"
NOT_APPLICABLE = dict(("C%02d" % i, _NOT_YET) for i in range(2, 21))
