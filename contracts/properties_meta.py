"""Per-property metadata used by ./check (evidence) and gen_manifest.py (MANIFEST.json)."""

TB = ("Trusted: z3/cvc5; the pyvc VC generator and its models of Python built-ins (listed per run in the evidence, "
      "cross-checked against CPython by the run-time layer); CPython's import of module-level tables; ghost-counter "
      "lemmas are proved by induction in every run. Bounded stand-ins are never counted as obligations.")

META = {
    "C01": dict(
        claimed=True, level="proof",
        technique="contract-based deductive verification (own VC generator over the real ASTs + z3/cvc5)",
        level_text="Every clause of C01 is a postcondition / raises-iff clause on the 8 real functions of "
                   "mingus/core/notes.py, discharged for ALL strings and ALL integers: loops over the accidental string "
                   "are cut by inductive invariants over ghost counters (sharps/flats/other), no length bound. "
                   "The round trip int->name->int and augment-then-diminish are lemmas proved from the contracts alone.",
        level_note=TB,
        explanation="All clauses proved unbounded; the run-time battery (names with <= 6 accidentals in all orderings, "
                    "malformed strings) only cross-checks the contracts against CPython.",
    ),
    "C02": dict(
        claimed=True, level="proof",
        technique="contract-based deductive verification (own VC generator over the real ASTs + z3/cvc5)",
        level_text="The 14 non-unison constructors, the 3 unison constructors, measure and the 4 consonance predicates "
                   "carry postconditions copied from the property (letter = lup(letter, d); pitch class + s mod 12; valid, "
                   "unmixed, <= 6 accidentals) and are discharged for EVERY valid name, whatever its accidental string: "
                   "the helper that augments/diminishes until the interval is right is proved against its strongest "
                   "postcondition (exact accidental count fold6(t - c0)) with four loop invariants and variants "
                   "(termination included). Callers are checked against callee contracts only.",
        level_note=TB + " Known finding C02/unison-exotic-input: for the three unison constructors the clause 'never mixes, "
                        "at most six accidentals' is proved only for inputs that are themselves unmixed with |net| within range; "
                        "the witness is replayed on every run.",
        explanation="All clauses proved unbounded except the unison 'never mixes / <= 6' clause on exotic inputs (known finding).",
    ),
}

_NOT_YET = "not yet brought under contract in this build step (see DESIGN.md §9 for the plan); nothing is claimed"
NOT_APPLICABLE = dict(("C%02d" % i, _NOT_YET) for i in range(3, 21))
